#!/usr/bin/env python3
"""./check <PROPERTY> [quick|thorough]   – decide one property on /repo's current working tree.
   ./check replay <path>                 – re-run a stored counterexample.
Exit 0: every obligation discharged (KNOWN-FINDING lines possible); 1: reproduced violation
(prints `VIOLATION property=<id> replay=<path>`); 2: inconclusive (timeout, OOM, bound too small,
cannot instrument, unconfirmed candidate)."""
import json
import os
import sys
import time

sys.path.insert(0, os.path.dirname(os.path.abspath(__file__)))

import common
from common import log, EXIT_OK, EXIT_VIOLATION, EXIT_INCONCLUSIVE
import kanirun
import props
import replay as replay_mod


def run_kani_group(pid, spec, tier, scratch):
    """Returns list of obligation dicts."""
    hs = [h for h in spec.get("kani", []) if tier == "thorough" or h.get("tier", "quick") == "quick"]
    if not hs:
        return [], {}
    src = os.path.join(scratch, "src")
    tdir = os.path.join(scratch, "t")
    common.copy_repo(src)
    try:
        kanirun.instrument(src)
    except common.CannotInstrument as e:
        log("INCONCLUSIVE: cannot instrument: %s" % e)
        return [{"id": "instrument", "engine": "kani", "status": "inconclusive", "detail": str(e)}], {}
    fqns = {kanirun.harness_fqn(h["file"], h["name"]): h for h in hs}
    jobs = int(os.environ.get("VERIF_JOBS", spec.get("jobs_" + tier, spec.get("jobs", 6))))
    tmo = max(h.get("timeout", 600) for h in hs)
    if tier == "thorough":
        tmo = max(h.get("timeout_thorough", h.get("timeout", 600) * 2) for h in hs)
    logfile = os.path.join(common.VERIF, "logs", "%s.%s.kani.log" % (pid, tier))
    os.makedirs(os.path.dirname(logfile), exist_ok=True)
    open(logfile, "w").close()
    log("[%s] kani: %d harnesses, jobs=%d, per-harness timeout=%ds" % (pid, len(fqns), jobs, tmo))
    results, built, raw, wall = kanirun.run(src, tdir, list(fqns), jobs=jobs, timeout_s=tmo,
                                            mem_gb=spec.get("mem_gb", 24), logfile=logfile)
    obls = []
    if not built:
        tail = "\n".join(l[:400] for l in raw.strip().splitlines()[-25:])
        log(tail)
        log("INCONCLUSIVE: Kani build/run produced no result file (see %s)" % logfile)
        return [{"id": "kani-build", "engine": "kani", "status": "inconclusive",
                 "detail": "no export json; last lines: " + tail[-600:]}], {"kani_wall_s": wall}
    for fqn, h in fqns.items():
        r = results.get(fqn)
        o = {"id": h["name"], "engine": "kani", "doc": h.get("doc", ""), "bounds": h.get("bounds", ""),
             "source_file": h["file"]}
        if r is None:
            o.update(status="inconclusive", detail="harness missing from Kani results (not compiled / filtered)")
            obls.append(o)
            continue
        o.update(time_s=r["duration_s"], cbmc_properties=r["n_checks"],
                 solver_s=r["cbmc_stats"].get("runtime_solver_s"),
                 symex_s=r["cbmc_stats"].get("runtime_symex_s"),
                 vccs=r["cbmc_stats"].get("vccs_generated"),
                 user_asserts=len(r["user_asserts"]),
                 covers=[{"d": c.get("description"), "s": c.get("status")} for c in r["covers"]])
        unsat_covers = [c for c in r["covers"] if c.get("status") != "Satisfied"]
        if r["status"] == "Success" and not r["failed"]:
            if unsat_covers:
                o.update(status="inconclusive",
                         detail="vacuity witness not reachable: " + "; ".join(c.get("description", "") for c in unsat_covers))
            else:
                o.update(status="discharged")
        else:
            failed = r["failed"]
            descs = [(c.get("description") or "") for c in failed]
            if not failed:
                o.update(status="inconclusive", detail="harness status %s without failed checks (timeout/OOM/solver error): %s"
                         % (r["status"], json.dumps(r.get("error"))[:300]))
            elif [c for c in failed if c.get("status") == "Failure"] and all(
                    "unwinding assertion" in (c.get("description") or "") for c in failed if c.get("status") == "Failure"):
                o.update(status="inconclusive", detail="unwinding assertion failed: bound too small")
            elif not any(c.get("status") == "Failure" for c in failed):
                o.update(status="inconclusive", detail="checks left undecided by the solver (status %s; timeout/OOM?): %s"
                         % (",".join(sorted(set(str(c.get("status")) for c in failed))), "; ".join(descs[:3])))
            else:
                real = [c for c in failed if "unwinding assertion" not in (c.get("description") or "") and c.get("status") == "Failure"]
                o.update(status="candidate", failed=[{"d": c.get("description"), "loc": c.get("location"), "s": c.get("status")} for c in real[:8]])
        obls.append(o)
    # counterexamples: concretise and replay natively before reporting
    for o in obls:
        if o["status"] != "candidate":
            continue
        h = [x for x in hs if x["name"] == o["id"]][0]
        fqn = kanirun.harness_fqn(h["file"], h["name"])
        log("[%s] candidate counterexample in %s: %s" % (pid, o["id"], "; ".join(f["d"] for f in o["failed"][:3])))
        rp = replay_mod.concretise_and_replay(pid, h, fqn, src, tdir, o)
        o.update(rp)
    return obls, {"kani_wall_s": wall, "kani_log": logfile}


def run_smt_group(pid, spec, tier, scratch):
    fn = spec.get("smt")
    if not fn:
        return [], {}
    import smtrun
    return smtrun.run(pid, fn, tier, scratch)


def decide(pid, tier, seed):
    t0 = time.time()
    spec = props.PROPS[pid]
    scratch = common.new_scratch(pid)
    obls, meta = [], {}
    o1, m1 = run_kani_group(pid, spec, tier, scratch)
    obls += o1
    meta.update(m1)
    o2, m2 = run_smt_group(pid, spec, tier, scratch)
    obls += o2
    meta.update(m2)

    known = [k for k in common.load_known_findings() if k["property"] == pid]
    violations, inconclusive, known_hits = [], [], []
    for o in obls:
        if o["status"] == "violated":
            key = o.get("finding_key", o["id"])
            hit = [k for k in known if k["key"] == key]
            if hit:
                known_hits.append((o, hit[0]))
            else:
                violations.append(o)
        elif o["status"] != "discharged":
            inconclusive.append(o)
    discharged = [o for o in obls if o["status"] == "discharged"]

    src = os.path.join(scratch, "src")
    fh = common.fn_hashes(src if os.path.isdir(src) else common.REPO, spec.get("functions", []))
    queries = sum(int(o.get("cbmc_properties") or o.get("queries") or 0) for o in obls)
    # distinct, non-trivial solver-decided cases: harness-level assertions + reachability covers (Kani),
    # obligation queries (SMT) – counted only in discharged obligations
    distinct = sum(int(o.get("user_asserts") or 0) + len(o.get("covers") or []) if o.get("engine") == "kani"
                   else int(o.get("obligation_queries") or o.get("queries") or 0) for o in discharged)
    samples = []
    for o in obls[:40]:
        samples.append({k: o.get(k) for k in ("id", "engine", "status", "doc", "bounds", "time_s", "solver_s",
                                              "cbmc_properties", "user_asserts", "queries", "obligation_queries", "paths", "truncated_paths", "cvc5_cross_checked_queries", "detail", "covers", "failed", "replay")
                        if o.get(k) not in (None, "", [])})
    coverage = {
        "evaluations": max(queries, 1) if obls else 0,
        "distinct_nontrivial": distinct,
        "rule": "one evaluation = one solver-decided verification condition (CBMC property incl. Kani's automatic "
                "overflow/bounds/pointer checks, or one SMT query); distinct_nontrivial counts only the harness-level "
                "assertions and reachability covers (Kani) resp. the entailment/trace-shape queries of the SMT obligations (path-feasibility queries are counted as evaluations only) that state the property – automatic checks excluded – in discharged obligations",
        "samples": samples,
        "obligations": len(obls),
        "discharged": len(discharged),
        "inconclusive": len(inconclusive),
        "functions_encoded": fh,
        "engines": sorted(set(o["engine"] for o in obls)),
        "bounds": spec.get("bounds", ""),
        "stubs": spec.get("stubs", []),
        "outside_claim": spec.get("outside", ""),
        "solver_time_s": round(sum(float(o.get("solver_s") or 0) for o in obls), 2),
        "checker_cmd": "./check %s %s" % (pid, tier),
        "exhaustive": False,
    }
    coverage.update({k: v for k, v in meta.items() if isinstance(v, (int, float, str))})
    wall = time.time() - t0
    common.write_evidence(pid, tier, seed, coverage, spec.get("assumptions", []), wall, len(violations) + len(known_hits))

    for o in discharged:
        log("  ok    %-44s %6.1fs %s" % (o["id"], float(o.get("time_s") or 0), o.get("doc", "")[:90]))
    for o, k in known_hits:
        log("KNOWN-FINDING: property=%s %s (%s)" % (pid, k["text"], o["id"]))
    for o in inconclusive:
        log("  INCONCLUSIVE %s: %s" % (o["id"], o.get("detail", o["status"])))
    for o in violations:
        log("VIOLATION property=%s replay=%s" % (pid, o.get("replay", "none")))
        log("  in %s: %s" % (o["id"], json.dumps(o.get("failed", o.get("detail", "")))[:800]))
    log("[%s] %s: %d obligations, %d discharged, %d inconclusive, %d violations, %d known; %.0fs"
        % (pid, tier, len(obls), len(discharged), len(inconclusive), len(violations), len(known_hits), wall))
    if violations:
        return EXIT_VIOLATION
    if inconclusive or not obls:
        return EXIT_INCONCLUSIVE
    return EXIT_OK


def main(argv):
    if len(argv) >= 2 and argv[1] == "replay":
        return replay_mod.replay_file(argv[2])
    if len(argv) < 2 or argv[1] not in props.PROPS:
        log("usage: check <%s> [quick|thorough] | check replay <path>" % "|".join(sorted(props.PROPS)))
        return 2
    pid = argv[1]
    tier = argv[2] if len(argv) > 2 else os.environ.get("VERIF_TIER", "quick")
    if tier not in ("quick", "thorough"):
        tier = "quick"
    seed = int(os.environ.get("VERIF_SEED", "0") or 0)
    return decide(pid, tier, seed)


if __name__ == "__main__":
    sys.exit(main(sys.argv))
