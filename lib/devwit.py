#!/usr/bin/env python3
"""dev helper: devwit.py <repo-or-worktree> <witness-name>... : run native witnesses against a copy of that tree"""
import os, sys
os.environ["VERIF_REPO"] = sys.argv[1]
sys.path.insert(0, os.path.dirname(os.path.abspath(__file__)))
import common, witness
src = "/var/tmp/fx/w%d/src" % (abs(hash(sys.argv[1])) % 1000)
common.copy_repo(src)
for w in sys.argv[2:]:
    r = witness.run_witness(src, w)
    print(w, "FAILS" if r[0] else ("passes" if r[0] is False else "ERROR"))
    if r[0] is not False:
        import re
        print("\n".join(l for l in r[1].splitlines() if "panicked" in l or "assert" in l or "left:" in l or "right:" in l or l.startswith("error"))[:1500])
