"""Shared plumbing for the solver-based checks: scratch copies of /repo, evidence files,
known findings, exit codes."""
import atexit
import hashlib
import json
import os
import re
import shutil
import subprocess
import sys
import time

VERIF = os.path.dirname(os.path.dirname(os.path.abspath(__file__)))
REPO = os.environ.get("VERIF_REPO", "/repo")
SCRATCH_ROOT = os.environ.get("VERIF_SCRATCH", "/var/tmp/feox-verif")
# development only (mutation runs against a scratch worktree must not overwrite the committed evidence)
EVIDENCE_DIR = os.environ.get("VERIF_EVIDENCE_DIR") or os.path.join(VERIF, "evidence")
REPLAY_DIR = os.environ.get("VERIF_REPLAY_DIR") or os.path.join(VERIF, "replays")
KNOWN_FINDINGS = os.path.join(VERIF, "known_findings.txt")

EXIT_OK, EXIT_VIOLATION, EXIT_INCONCLUSIVE = 0, 1, 2

_scratch_dirs = []


def log(msg):
    sys.stdout.write(msg + "\n")
    sys.stdout.flush()


def _cleanup():
    if os.environ.get("VERIF_KEEP_SCRATCH"):
        return
    for d in _scratch_dirs:
        shutil.rmtree(d, ignore_errors=True)


atexit.register(_cleanup)


def new_scratch(tag):
    """Fresh directory outside /repo and /verif, removed (with its build output) at exit."""
    os.makedirs(SCRATCH_ROOT, exist_ok=True)
    d = os.path.join(SCRATCH_ROOT, "%s.%d.%d" % (tag, os.getpid(), int(time.time() * 1000) % 100000))
    shutil.rmtree(d, ignore_errors=True)
    os.makedirs(d)
    _scratch_dirs.append(d)
    return d


def copy_repo(dst):
    """rsync /repo's working tree (not HEAD) without build output or git metadata."""
    os.makedirs(dst, exist_ok=True)
    subprocess.run(
        ["rsync", "-a", "--delete", "--exclude", "/target", "--exclude", "/.git", REPO + "/", dst + "/"],
        check=True,
    )
    return dst


class CannotInstrument(Exception):
    pass


def source_hash(path):
    with open(path, "rb") as f:
        return hashlib.sha256(f.read()).hexdigest()[:16]


def fn_source(path, name):
    """Text of `fn name` in a Rust file (brace matched) – used to hash/quote the encoded code."""
    src = open(path).read()
    m = re.search(r"\bfn\s+%s\b[^{;]*\{" % re.escape(name), src)
    if not m:
        return None
    i = m.end()
    depth = 1
    while i < len(src) and depth:
        c = src[i]
        if c == "{":
            depth += 1
        elif c == "}":
            depth -= 1
        i += 1
    return src[m.start():i]


def fn_hashes(root, specs):
    """specs: ["src/storage/free_space.rs::allocate_sectors", ...] -> {spec: hash|None}"""
    out = {}
    for s in specs:
        path, _, name = s.partition("::")
        p = os.path.join(root, path)
        if not os.path.exists(p):
            out[s] = None
            continue
        t = fn_source(p, name.split("::")[-1])
        out[s] = hashlib.sha256(t.encode()).hexdigest()[:12] if t else None
    return out


def load_known_findings():
    """known_findings.txt lines:
         finding: property=<id> key=<stable key> <free text>
         fixed: property=<id> <commit> <what failed>
       Only `finding:` lines suppress; `fixed:` lines are a record."""
    res = []
    if not os.path.exists(KNOWN_FINDINGS):
        return res
    for line in open(KNOWN_FINDINGS):
        line = line.strip()
        if not line.startswith("finding:"):
            continue
        m = re.match(r"finding:\s+property=(\S+)\s+key=(\S+)\s*(.*)", line)
        if m:
            res.append({"property": m.group(1), "key": m.group(2), "text": m.group(3)})
    return res


def write_evidence(pid, tier, seed, coverage, assumptions, wall_s, violations, level="model_checking"):
    os.makedirs(EVIDENCE_DIR, exist_ok=True)
    ev = {
        "property_id": pid,
        "tier": tier,
        "seed": seed,
        "level": level,
        "coverage": coverage,
        "assumptions": assumptions,
        "wall_s": round(wall_s, 2),
        "violations": violations,
    }
    path = os.path.join(EVIDENCE_DIR, pid + ".json")
    tmp = path + ".tmp"
    with open(tmp, "w") as f:
        json.dump(ev, f, indent=1, sort_keys=False)
        f.write("\n")
    os.replace(tmp, path)
    return path
