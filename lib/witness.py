"""Native confirmation of E2 candidates: a hand-written witness test for the obligation's failure class is
injected as a unit-test module into the scratch copy of /repo's working tree and run with `cargo test`.
Only a failing witness turns a solver candidate into a VIOLATION; otherwise the candidate is reported as
unconfirmed (exit 2)."""
import json
import os
import re
import subprocess

import common
from common import log

WITNESS_DIR = os.path.join(common.VERIF, "witness")


def run_witness(src, name, timeout=1500):
    wfile = os.path.join(WITNESS_DIR, name + ".rs")
    if not os.path.exists(wfile):
        return None, "no witness file"
    mount = "src/tests/mod.rs"
    first = open(wfile).readline()
    mm = re.match(r"// VERIF-MOUNT: (\S+)", first)
    if mm:
        mount = mm.group(1)   # witnesses that need private items are mounted as a child of that module
    modrs = os.path.join(src, mount)
    if not os.path.exists(modrs):
        return None, mount + " missing"
    line = '\n#[cfg(test)] #[path = "%s"] mod verif_witness_%s;\n' % (wfile, name)
    text = open(modrs).read()
    if line not in text:
        with open(modrs, "a") as f:
            f.write(line)
    env = dict(os.environ)
    env["CARGO_NET_OFFLINE"] = "true"
    env.pop("RUSTUP_TOOLCHAIN", None)
    env["CARGO_TARGET_DIR"] = os.path.join(os.path.dirname(src), "tw")
    try:
        p = subprocess.run(["cargo", "test", "--offline", "--lib", "verif_witness_" + name, "--", "--test-threads", "1"],
                           cwd=src, env=env, stdout=subprocess.PIPE, stderr=subprocess.STDOUT, text=True, timeout=timeout)
    except subprocess.TimeoutExpired:
        return None, "witness timed out"
    m = re.search(r"test result: \w+\. (\d+) passed; (\d+) failed", p.stdout)
    if not m or int(m.group(1)) + int(m.group(2)) == 0:
        return None, p.stdout[-1500:]
    return int(m.group(2)) > 0, p.stdout[-1500:]


def confirm(o, env):
    name = o.get("witness")
    os.makedirs(common.REPLAY_DIR, exist_ok=True)
    path = os.path.join(common.REPLAY_DIR, "%s-%s.json" % (env["pid"], o["id"]))
    meta = {"kind": "witness", "property": env["pid"], "obligation": o["id"], "witness": name, "solver_findings": o.get("failed", [])}
    with open(path, "w") as f:
        f.write("// VERIF-REPLAY " + json.dumps(meta) + "\n")
    o["replay"] = path
    if not name:
        o["status"] = "inconclusive"
        o["detail"] = "solver candidate without a native witness (unconfirmed): " + "; ".join(x["what"] for x in o.get("failed", [])[:3])
        return
    log("[%s] solver candidate in %s: %s -> running native witness %s" % (env["pid"], o["id"], "; ".join(x["what"] for x in o["failed"][:2]), name))
    # "a+b": several witnesses cover this failure class; the candidate is confirmed by the first one that fails
    failed, out = None, ""
    for one in name.split("+"):
        f1, o1 = run_witness(env["src"], one)
        if f1 is True:
            failed, out, name = True, o1, one
            break
        if f1 is False and failed is None:
            failed, out = False, o1
        elif f1 is None and failed is None:
            out = o1
    if failed is True:
        o["status"] = "violated"
        o["finding_key"] = o["id"]
        o["detail"] = "native witness %s fails: %s" % (name, out[-400:])
    elif failed is False:
        o["status"] = "inconclusive"
        o["detail"] = "solver candidate NOT reproduced by witness %s (passes natively): unconfirmed" % name
    else:
        o["status"] = "inconclusive"
        o["detail"] = "witness could not run: " + out[-400:]


def replay(meta):
    scratch = common.new_scratch("replayw")
    src = os.path.join(scratch, "mirsrc")
    common.copy_repo(src)
    failed, out = None, ""
    for one in (meta.get("witness") or "").split("+"):
        failed, out = run_witness(src, one)
        if failed is True:
            break
    log(out[-600:])
    if failed is True:
        log("VIOLATION property=%s replay=%s" % (meta["property"], "witness:" + meta["witness"]))
        return 1
    return 0 if failed is False else 2
