"""Properties not claimed, with the reason (kept in step with DESIGN.md §2)."""
UC = "check under construction in this round (see DESIGN.md §1); not claimed until its harnesses are committed and pass on the unchanged tree"
NOT_APPLICABLE = {
}
