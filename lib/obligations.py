"""E2 obligations: what is asked of the MIR encodings, per property."""
import re
import time

import z3

import mir
from mir import Interp, AtomicModel, U

MAX64 = z3.BitVecVal((1 << 64) - 1, 64)


class Ob:
    """one obligation = a named family of solver queries over every path of one encoded function"""
    def __init__(self, oid, doc, bounds, fn=None):
        self.id, self.doc, self.bounds = oid, doc, bounds
        self.fn = fn
        self.queries = 0
        self.failures = []
        self.notes = []
        self.t0 = time.time()
        self.paths = 0
        self.truncated = 0
        self.vacuous = True

    def need(self, it, pc, formula, what):
        self.queries += 1
        self.vacuous = False
        ok, model = it.entails(pc, formula)
        if not ok:
            self.failures.append({"what": what, "model": model_str(model)})
        return ok

    def must_hold(self, cond, what):
        """a structural (non-solver) requirement on the path's event trace"""
        self.queries += 1
        self.vacuous = False
        if not cond:
            self.failures.append({"what": what, "model": "(trace shape)"})
        return cond

    def result(self, it=None, witness=None):
        if isinstance(witness, (list, tuple)):
            # [(substring of the failed requirement, witness name), ...]: first match on the first failure wins
            # every specific pattern that matches some failure contributes its witness (tried in order until one fails natively);
            # the catch-all "" entry is used only when nothing specific matched
            chosen = []
            for f in self.failures:
                for sub, w in witness:
                    if sub and w and sub in f["what"] and w not in chosen:
                        chosen.append(w)
            if not chosen:
                chosen = [w for sub, w in witness if sub == "" and w] or ([witness[-1][1]] if witness and witness[-1][1] else [])
            witness = "+".join(dict.fromkeys("+".join(chosen).split("+"))) if chosen else None
        d = {"id": self.id, "engine": "smt", "doc": self.doc, "notes": self.notes[:6], "bounds": self.bounds,
             "queries": self.queries + (it.queries if it else 0), "obligation_queries": self.queries, "time_s": round(time.time() - self.t0, 2),
             "paths": self.paths, "truncated_paths": self.truncated, "source_fn": self.fn.name if self.fn else None}
        if self.failures:
            d["status"] = "candidate"
            d["failed"] = self.failures[:6]
            d["witness"] = witness
        elif self.vacuous:
            d["status"] = "inconclusive"
            d["detail"] = "vacuous: no path reached the obligation's site (MIR shape changed?)"
        else:
            d["status"] = "discharged"
        if it is not None and it.unknown_stmts:
            d["unknown_mir_statements"] = sorted(set(it.unknown_stmts))[:5]
        if it is not None and getattr(it, "cross_checked", 0):
            d["cvc5_cross_checked_queries"] = it.cross_checked
            d["cvc5_no_answer"] = getattr(it, "cross_unknown", 0)
        return d


def contains(expr, sub):
    """does the z3 term `expr` mention the term `sub` (provenance: 'computed from')"""
    if not z3.is_expr(expr):
        return False
    seen, stack = set(), [expr]
    while stack:
        x = stack.pop()
        if x.get_id() in seen:
            continue
        seen.add(x.get_id())
        if z3.eq(x, sub):
            return True
        stack.extend(x.children())
    return False


def model_str(m):
    if m is None:
        return ""
    out = []
    for d in m.decls()[:40]:
        n = d.name()
        if d.arity() == 0 and not n.startswith("K:"):
            out.append("%s=%s" % (n, m[d]))
    return ", ".join(sorted(out))[:700]


def events(path, suffix):
    return [e for e in path.events if e.kind == "call" and e.callee.endswith(suffix)]


def idx_of(path, ev):
    return path.events.index(ev)


# ============================================================================ C12 kernels
def c12(fns, tier, env):
    lb = 3 if tier == "quick" else 5
    out = []
    out.append(kernel_next(fns, lb))
    out.append(kernel_observe(fns, lb))
    out.append(lemma_clock_composition())
    out.append(kernel_resolve_timestamp(fns))
    out.append(kernel_get_timestamp(fns))
    out.append(kernel_observe_published(fns))
    out += sites_c12(fns)
    if tier == "thorough":
        out.append(scan_iteration(fns))   # recovery folds every indexed timestamp into the clock before the index is updated
    return finalize(out, env)


def kernel_next(fns, lb):
    f = mir.find(fns, "::next", "src/core/store/mod.rs")
    ob = Ob("c12_version_clock_next", "VersionClock::next under interference (rely: the shard never decreases): returns max(wall, last+1) "
            "for the shard value `last` at its successful CAS, leaves the shard at that value, is > last unless last==u64::MAX, and its own "
            "writes never lower the shard (guarantee)", "<= %d CAS retries (each preceded by an arbitrary monotone environment step); weak CAS may fail spuriously" % lb, f)
    am = AtomicModel(64, lambda o, n: z3.UGE(n, o))
    it = Interp(f, loop_bound=lb, atomic=am)
    it.cross_check = True
    wall = z3.BitVec("wall", 64)

    def init(it_, st):
        st["env"]["_3"] = wall
    for p in it.run(init):
        ob.paths += 1
        if p.status == "truncated":
            ob.truncated += 1
            continue
        if p.status != "return":
            continue
        cas = p.extra.get("cas") or []
        ob.must_hold(len(cas) >= 1, "next returned without a CAS")
        for k, (ok, before, new) in enumerate(cas):
            ob.need(it, p.pc, z3.Implies(ok, z3.UGE(new, before)), "guarantee: CAS #%d never lowers the shard" % k)
        ok, before, new = cas[-1]
        ob.need(it, p.pc, ok, "the returning path's last CAS succeeded")
        ob.need(it, p.pc, p.ret == new, "return value is the value written")
        expect = z3.If(z3.UGT(wall, before), wall, z3.If(before == MAX64, MAX64, before + 1))
        ob.need(it, p.pc, p.ret == expect, "next == max(wall, last+1 saturating)")
        ob.need(it, p.pc, z3.Implies(before != MAX64, z3.UGT(p.ret, before)), "strictly above the shard value it replaced")
        ob.need(it, p.pc, z3.UGE(p.ret, wall), "not below the wall clock")
        ob.need(it, p.pc, p.extra["acur"] == p.ret, "shard holds the returned value at the linearisation point")
    ob.must_hold(ob.truncated > 0 or lb > 50, "loop bound never reached?")
    return ob.result(it, witness="c12_version_clock_model")


def kernel_observe(fns, lb):
    f = mir.find(fns, "::observe", "src/core/store/mod.rs")
    ob = Ob("c12_version_clock_observe", "VersionClock::observe(ts) under interference: never lowers the shard, ends with shard >= ts, ignores u64::MAX",
            "<= %d CAS retries" % lb, f)
    am = AtomicModel(64, lambda o, n: z3.UGE(n, o))
    it = Interp(f, loop_bound=lb, atomic=am)
    it.cross_check = True
    ts = z3.BitVec("ts", 64)

    def init(it_, st):
        st["env"]["_3"] = ts
    for p in it.run(init):
        ob.paths += 1
        if p.status == "truncated":
            ob.truncated += 1
            continue
        if p.status != "return":
            continue
        cas = p.extra.get("cas") or []
        writes = p.extra.get("awrites") or []
        for k, (ok, before, new) in enumerate(cas):
            ob.need(it, p.pc, z3.Implies(ok, z3.UGE(new, before)), "guarantee: CAS #%d never lowers the shard" % k)
            ob.need(it, p.pc, z3.Implies(ok, new == ts), "only the observed timestamp is ever written")
        if writes:
            ob.need(it, p.pc, ts != MAX64, "u64::MAX is never folded into the clock")
            ob.need(it, p.pc, z3.UGE(p.extra["acur"], ts), "shard >= observed timestamp on return")
        else:
            ob.need(it, p.pc, ts == MAX64, "returning without touching the shard only for u64::MAX")
    return ob.result(it, witness=[("u64::MAX", "c12_pinned_max_after_restart"), ("", "c12_version_clock_model")])


def lemma_clock_composition():
    ob = Ob("c12_lemma_successive_versions_increase", "from the two step contracts: a later next() on the same shard returns a value strictly above an "
            "earlier next() result and above every observed timestamp (unless the shard was pinned at u64::MAX)", "SMT lemma over the contracts (no code)")
    s = z3.Solver()
    r1, shard, wall2, obs = z3.BitVecs("r1 shard wall2 obs", 64)
    r2 = z3.If(z3.UGT(wall2, shard), wall2, z3.If(shard == MAX64, MAX64, shard + 1))
    s.add(z3.UGE(shard, r1), z3.UGE(shard, obs), shard != MAX64)
    s.add(z3.Not(z3.And(z3.UGT(r2, r1), z3.UGT(r2, obs))))
    ob.queries += 1
    ob.vacuous = False
    if s.check() != z3.unsat:
        ob.failures.append({"what": "composition lemma", "model": str(s.model())})
    return ob.result()


def kernel_resolve_timestamp(fns):
    f = mir.find(fns, "::resolve_timestamp", "src/core/store/operations.rs")
    ob = Ob("c12_resolve_timestamp", "resolve_timestamp: explicit iff Some(t) with t != 0 and then exactly t; otherwise the value comes from get_timestamp (the version clock)",
            "all Option<u64> inputs", f)
    it = Interp(f, loop_bound=1)
    for p in it.run():
        ob.paths += 1
        if p.status != "return":
            continue
        gt = events(p, "::get_timestamp")
        ret = p.ret
        ob.must_hold(isinstance(ret, mir.Tup) and len(ret.fields) == 2, "returns a (u64, bool) pair")
        if not isinstance(ret, mir.Tup):
            continue
        tsv, explicit = ret.fields
        arg = it.read_local({"env": p.env}, "_3")
        d = it.ctx.disc(it.as_u(arg))
        payload = it.ctx.uf("proj_Some_0", [U], z3.BitVecSort(64))(it.as_u(arg))
        if gt:
            ob.need(it, p.pc, z3.Not(explicit), "a clock-assigned timestamp is never flagged explicit")
            ob.need(it, p.pc, tsv == gt[-1].ret, "automatic timestamp is exactly get_timestamp()'s result")
            ob.need(it, p.pc, z3.Or(d == 0, payload == 0), "the clock is consulted only for None / Some(0)")
        else:
            ob.need(it, p.pc, explicit, "a caller-supplied timestamp is flagged explicit")
            ob.need(it, p.pc, z3.And(d == 1, payload != 0, tsv == payload), "explicit timestamp is exactly the caller's non-zero value")
    return ob.result(it, witness="c12_version_clock_model")


def kernel_observe_published(fns):
    f = mir.find(fns, "::observe_published_timestamp", "src/core/store/operations.rs")
    ob = Ob("c12_observe_published_timestamp", "observe_published_timestamp folds the timestamp into the clock iff it was explicit", "all inputs", f)
    it = Interp(f, loop_bound=1)
    for p in it.run():
        ob.paths += 1
        if p.status != "return":
            continue
        obs = events(p, "::observe")
        explicit = it.read_local({"env": p.env}, "_4")
        ts = it.read_local({"env": p.env}, "_3")
        if obs:
            ob.need(it, p.pc, explicit, "observe only for explicit timestamps")
            ob.need(it, p.pc, obs[0].args[2] == ts, "observes exactly the published timestamp")
        else:
            ob.need(it, p.pc, z3.Not(explicit), "an explicit timestamp is always observed")
    return ob.result(it, witness="c12_version_clock_model")


# ============================================================================ C13 kernels
def c13(fns, tier, env):
    lb = 3 if tier == "quick" else 5
    out = [kernel_reserve_memory(fns, lb), kernel_reservation_drop(fns), kernel_release_memory(fns), kernel_record_size(fns), kernel_note_expired(fns)]
    out += sites_c13(fns, tier)
    out += [site_atomic_increment(fns), site_retire_expired(fns), site_sweeper(fns), site_recovery_expired_winners(fns)]
    out.append(scan_iteration(fns))
    return finalize(out, env)


def kernel_reserve_memory(fns, lb):
    f = mir.find(fns, "::reserve_memory", "src/core/store/operations.rs")
    ob = Ob("c13_reserve_memory", "reserve_memory under interference (rely: other threads' successful reservations keep usage <= limit, releases only "
            "lower it): success => usage' = usage + amount <= limit at the linearisation point, no overflow; failure => this call wrote nothing; "
            "no limit => exactly one fetch_add(amount); amount 0 => no atomic operation; the reservation carries exactly `amount`",
            "<= %d CAS retries; any number of other threads" % lb, f)
    m = re.search(r"discriminant\(\(\(\*_1\)\.(\d+): std::option::Option<usize>\)\)", f.text)
    if not m:
        raise mir.MirError("max_memory field not found in reserve_memory MIR")
    k = int(m.group(1))
    ctx = mir.Ctx()
    self_ = z3.Const("self", U)
    opt = ctx.uf("proj__%d" % k, [U], U)(self_)
    limit = ctx.uf("proj_Some_0", [U], z3.BitVecSort(64))(opt)
    has_limit = ctx.disc(opt) == 1
    amount = z3.BitVec("amount", 64)

    def rely(o, n):
        return z3.If(has_limit, z3.ULE(n, z3.If(z3.UGE(o, limit), o, limit)), z3.BoolVal(True))
    it = Interp(f, ctx=ctx, loop_bound=lb, atomic=AtomicModel(64, rely))
    it.cross_check = True

    def init(it_, st):
        st["env"]["_1"] = self_
        st["env"]["_2"] = amount
        st["pc"].append(z3.Or(ctx.disc(opt) == 0, ctx.disc(opt) == 1))
    for p in it.run(init):
        ob.paths += 1
        if p.status == "truncated":
            ob.truncated += 1
            continue
        if p.status != "return":
            continue
        writes = p.extra.get("awrites") or []
        cas = p.extra.get("cas") or []
        ret = it.as_u(p.ret)
        is_ok = ctx.disc(ret) == 0
        ok_path, _ = it.entails(p.pc, is_ok)
        err_path, _ = it.entails(p.pc, z3.Not(is_ok))
        ob.must_hold(ok_path or err_path, "result is decided on every path")
        for kk, (ok, before, new) in enumerate(cas):
            ob.need(it, p.pc, z3.Implies(ok, rely(before, new)), "guarantee: own CAS #%d respects the limit" % kk)
        if ok_path:
            t = ctx.tups.get(str(p.ret))
            ob.must_hold(t is not None and len(t.fields) == 2, "Ok carries a MemoryReservation")
            if t is not None:
                ob.need(it, p.pc, t.fields[1] == amount, "reservation.amount == requested amount")
            if not writes:
                ob.need(it, p.pc, amount == 0, "no atomic operation only for amount == 0")
            elif cas:
                ok, before, new = cas[-1]
                ob.need(it, p.pc, has_limit, "CAS loop only with a limit")
                ob.need(it, p.pc, ok, "success path's last CAS succeeded")
                ob.need(it, p.pc, z3.And(new == before + amount, z3.UGE(new, before)), "usage' = usage + amount without overflow")
                ob.need(it, p.pc, z3.ULE(new, limit), "admitted reservation keeps usage <= limit at its linearisation point")
                for kk, (ok2, _b, _n) in enumerate(cas[:-1]):
                    ob.need(it, p.pc, z3.Not(ok2), "earlier CAS #%d failed (exactly one successful write)" % kk)
            else:
                ob.need(it, p.pc, z3.Not(has_limit), "plain fetch_add only without a limit")
                ob.must_hold(len(writes) == 1 and writes[0][0] == "fetch_add", "exactly one fetch_add")
                ob.need(it, p.pc, writes[0][2] == writes[0][1] + amount, "fetch_add adds exactly `amount`")
        else:
            for kk, (ok, before, new) in enumerate(cas):
                ob.need(it, p.pc, z3.Not(ok), "a refused reservation wrote nothing (CAS #%d)" % kk)
            ob.must_hold(all(w[0] in ("load", "compare_exchange_weak") for w in writes), "refused reservation performs no unconditional write")
            ob.need(it, p.pc, z3.And(has_limit, amount != 0), "refusal only with a limit and a non-zero amount")
    return ob.result(it, witness="c13_memory_limit_model")


def kernel_reservation_drop(fns):
    f = mir.find(fns, "::drop", "src/core/store/mod.rs")
    ob = Ob("c13_reservation_drop", "MemoryReservation::drop gives back exactly `amount` unless commit() zeroed it; commit() only zeroes the amount", "all amounts", f)
    ctx = mir.Ctx()
    it = Interp(f, ctx=ctx, loop_bound=1, atomic=AtomicModel(64, lambda o, n: z3.BoolVal(True)))
    self_ = z3.Const("self", U)
    amt = ctx.uf("proj__1", [U], z3.BitVecSort(64))(self_)

    def init(it_, st):
        st["env"]["_1"] = self_
    for p in it.run(init):
        ob.paths += 1
        if p.status != "return":
            continue
        writes = [w for w in (p.extra.get("awrites") or []) if w[0] != "load"]
        if writes:
            ob.must_hold(len(writes) == 1 and writes[0][0] == "fetch_sub", "exactly one fetch_sub")
            ob.need(it, p.pc, z3.And(amt != 0, writes[0][2] == writes[0][1] - amt), "releases exactly the uncommitted amount")
        else:
            ob.need(it, p.pc, amt == 0, "nothing released only when the amount was committed (0)")
    g = mir.find(fns, "::commit", "src/core/store/mod.rs")
    it2 = Interp(g, loop_bound=1)
    for p in it2.run():
        if p.status != "return":
            continue
        ws = [e for e in p.events if e.kind == "write"]
        direct = p.env.get("_1")
        zeroed = False
        if isinstance(direct, mir.Tup):
            v = z3.simplify(direct.fields[1]) if len(direct.fields) > 1 else None
            zeroed = v is not None and z3.is_bv_value(v) and v.as_long() == 0
        for e in ws:
            v = z3.simplify(e.args[1]) if z3.is_expr(e.args[1]) else None
            if e.callee == "1" and v is not None and z3.is_bv_value(v) and v.as_long() == 0:
                zeroed = True
        ob.must_hold(zeroed or "(_1.1: usize) = const 0_usize" in g.text, "commit() sets amount to 0")
        drops = [e for e in p.events if e.kind == "drop"]
        ob.must_hold(len(drops) <= 1, "commit drops the reservation once")
    return ob.result(it, witness="c13_memory_limit_model")


def kernel_release_memory(fns):
    f = mir.find(fns, "::release_memory", "src/core/store/operations.rs")
    ob = Ob("c13_release_memory", "release_memory subtracts exactly its argument, once", "all amounts", f)
    it = Interp(f, loop_bound=1, atomic=AtomicModel(64, lambda o, n: z3.BoolVal(True)))
    amount = z3.BitVec("amount", 64)

    def init(it_, st):
        st["env"]["_2"] = amount
    for p in it.run(init):
        ob.paths += 1
        if p.status != "return":
            continue
        writes = [w for w in (p.extra.get("awrites") or []) if w[0] != "load"]
        ob.must_hold(len(writes) == 1 and writes[0][0] == "fetch_sub", "exactly one fetch_sub")
        if writes:
            ob.need(it, p.pc, writes[0][2] == writes[0][1] - amount, "subtracts exactly `amount`")
    return ob.result(it, witness="c13_model_accounting_and_reopen")


def kernel_record_size(fns):
    f = mir.find(fns, "::calculate_record_size", "src/core/store/operations.rs")
    ob = Ob("c13_calculate_record_size", "calculate_record_size = size_of::<Record>() + key_len + value_len (overflow-checked)", "all usize inputs", f)
    it = Interp(f, loop_bound=1)
    kl, vl = z3.BitVecs("key_len value_len", 64)

    def init(it_, st):
        st["env"]["_2"] = kl
        st["env"]["_3"] = vl
    for p in it.run(init):
        ob.paths += 1
        if p.status != "return":
            continue
        so = events(p, "size_of")
        ob.must_hold(len(so) == 1, "overhead is size_of::<Record>()")
        if so:
            ob.must_hold("size_of::<Record>" in f.text or "size_of::<core::record::Record>" in f.text, "overhead is the Record struct's size")
            ob.need(it, p.pc, p.ret == so[0].ret + kl + vl, "size = size_of::<Record>() + key_len + value_len")
    return ob.result(it, witness="c13_model_accounting_and_reopen")


# ============================================================================ E2b site obligations
PURE = ("OccupiedEntry::get", "Record::calculate_size", "::calculate_record_size", "Vec::len", "std::slice::len", "Bytes::len",
        "Record::value_source", "get_format_ref", "total_size", "value_offset")


def guarded_entry_value(it, path):
    g = events(path, "OccupiedEntry::get")
    return g[0].ret if g else None


def field(it, base, idx, sort):
    return it.ctx.uf("proj__%d" % idx, [U], sort)(it.as_u(base))


def record_field_index(fns, what):
    """field indices of Record as they appear in MIR (declaration order): found from a function that reads them"""
    f = mir.find(fns, "::sector_holds_record", None)
    if what == "timestamp":
        m = re.search(r"\(\(\*_2\)\.(\d+): u64\)", f.text)
        return int(m.group(1))
    raise mir.MirError("unknown field")


UPDATE_WITNESSES = [("(b) ts_new", "c07_guarded_timestamp_check"), ("publishes nothing", "c01_failed_overwrite_is_harmless"),
                    ("published timestamp is observed", "c01_failed_overwrite_is_harmless+c12_version_clock_model"), ("version clock", "c01_failed_overwrite_is_harmless+c12_version_clock_model"),
                    ("only after the memory reservation", "c01_failed_overwrite_is_harmless"), ("(e) ordered index", "c11_ttl_publish"),
                    ("(c)", "c13_update_accounting"), ("", "c13_update_accounting")]


def site_update_record(fns, suffix, bytes_version, file_hint="src/core/store/internal.rs", ts_tuple_local=None, identity_local=None, witness=UPDATE_WITNESSES):
    f = mir.find(fns, suffix, file_hint)
    ob = Ob("site" + suffix.replace("::", "_"), "%s: every path that replaces the entry (a) holds the entry guard, (b) has ts_new > current.timestamp in its "
            "path condition, (c) reserves saturating(new_size - size(CURRENT entry)) and releases size(CURRENT) - new_size, committing the reservation, "
            "(d) links the successor on / retires the CURRENT entry, (e) then publishes to the ordered index and observes the published timestamp; "
            "every Err path before the replacement changes nothing" % suffix, "all paths, loops unrolled 2x; calls other than the listed pure ones havocked", f)
    ts_idx = record_field_index(fns, "timestamp")
    it = Interp(f, loop_bound=2, pure=PURE)
    ts = z3.BitVec("ts_new", 64)
    explicit = z3.Bool("explicit")

    def init(it_, st):
        if ts_tuple_local:
            st["env"][ts_tuple_local] = mir.Tup([ts, explicit])
        else:
            st["env"]["_4"] = ts
            st["env"]["_5"] = explicit
    reached = 0
    for p in it.run(init):
        ob.paths += 1
        if p.status == "truncated":
            ob.truncated += 1
            continue
        if p.status != "return":
            continue
        ins = events(p, "OccupiedEntry::insert")
        if ins and identity_local:
            cur0 = guarded_entry_value(it, p)
            exp = it.read_local({"env": p.env}, identity_local)
            if cur0 is not None:
                ob.need(it, ins[0].pc, it.as_u(cur0) == it.as_u(exp),
                        "(f) the entry is replaced only if it still IS the generation whose value was read (pointer identity under the guard)")
        retu = it.as_u(p.ret)
        is_err, _ = it.entails(p.pc, it.ctx.disc(retu) == 1)
        if not ins:
            # nothing published: no accounting effect may remain
            res = events(p, "::reserve_memory")
            commits = events(p, "MemoryReservation::commit")
            ob.must_hold(not commits, "a path that publishes nothing commits no reservation")
            ob.must_hold(not events(p, "::release_memory"), "a path that publishes nothing releases no memory")
            ob.must_hold(not events(p, "Record::link_successor"), "a path that publishes nothing links no successor")
            ob.must_hold(not events(p, "Atomic::store"), "a path that publishes nothing stores to no shared atomic (refcount / retired_at of the current generation stay untouched)")
            ob.must_hold(not events(p, "::publish_to_tree") and not events(p, "::observe_published_timestamp"),
                         "a path that publishes nothing touches neither the ordered index nor the version clock")
            continue
        reached += 1
        e_ins = ins[0]
        # validate -> reserve -> publish: every effect on shared state comes after the last fallible step
        fallible = [e for e in events(p, "::reserve_memory")]
        if fallible:
            last_f = idx_of(p, fallible[-1])
            for e in events(p, "Atomic::store") + events(p, "Record::link_successor"):
                ob.must_hold(idx_of(p, e) > last_f, "shared state of the current generation is modified only after the memory reservation succeeded (%s)" % e.callee.rsplit("::", 1)[-1])
        cur = guarded_entry_value(it, p)
        ob.must_hold(cur is not None, "replacement happens under an Occupied entry guard (entry.get())")
        if cur is None:
            continue
        cur_ts = field(it, cur, ts_idx, z3.BitVecSort(64))
        ob.need(it, e_ins.pc, z3.UGT(ts, cur_ts), "(b) ts_new > current.timestamp at the replacement site")
        # accounting
        calc = it.ctx.uf("fn:Record::calculate_size", [U], z3.BitVecSort(64))
        old_size = calc(it.as_u(cur))
        res = events(p, "::reserve_memory")
        ob.must_hold(len(res) == 1 and idx_of(p, res[0]) < idx_of(p, e_ins), "(c) growth is reserved before the replacement")
        if bytes_version:
            new_rec = e_ins.args[1]
            new_size = calc(it.as_u(new_rec))
        else:
            crs = events(p, "::calculate_record_size")
            new_size = crs[0].ret if crs else None
            ob.must_hold(new_size is not None, "new size computed by calculate_record_size")
        if res and new_size is not None:
            amt = res[0].args[1]
            ob.need(it, p.pc, amt == z3.If(z3.UGE(new_size, old_size), new_size - old_size, z3.BitVecVal(0, 64)),
                    "(c) reserved amount == saturating(new_size - size(current entry))")
            rel = events(p, "::release_memory")
            shrink = z3.UGT(old_size, new_size)
            if rel:
                ob.need(it, rel[0].pc, shrink, "(c) release only when the record shrank")
                ob.need(it, p.pc, rel[0].args[1] == old_size - new_size, "(c) released amount == size(current entry) - new_size")
                ob.must_hold(idx_of(p, rel[0]) > idx_of(p, e_ins), "(c) shrink is released after the replacement")
            else:
                ob.need(it, p.pc, z3.Not(shrink), "(c) a shrinking update releases the difference")
            commits = events(p, "MemoryReservation::commit")
            ob.must_hold(len(commits) == 1 and idx_of(p, commits[0]) > idx_of(p, e_ins), "(c) the reservation is committed after publication")
        # successor link + retirement of the CURRENT generation
        ls = events(p, "Record::link_successor")
        ob.must_hold(len(ls) == 1 and idx_of(p, ls[0]) < idx_of(p, e_ins), "(d) successor linked before publication")
        if ls:
            ob.need(it, p.pc, it.as_u(ls[0].args[0]) == it.as_u(cur), "(d) successor is linked on the CURRENT entry")
            ob.need(it, p.pc, it.as_u(ls[0].args[1]) == it.as_u(e_ins.args[1]), "(d) the linked successor is the record being published")
        # index + clock
        pub = events(p, "::publish_to_tree")
        ob.must_hold(len(pub) == 1 and idx_of(p, pub[0]) > idx_of(p, e_ins), "(e) ordered index updated after the hash table")
        if pub:
            ob.need(it, p.pc, it.as_u(pub[0].args[2]) == it.as_u(e_ins.args[1]), "(e) ordered index points at the published record")
        obs = events(p, "::observe_published_timestamp")
        ob.must_hold(len(obs) == 1 and idx_of(p, obs[0]) > idx_of(p, e_ins), "(e) published timestamp is observed")
        if obs:
            ob.need(it, p.pc, z3.And(obs[0].args[2] == ts, obs[0].args[3] == explicit), "(e) observes (ts_new, explicit)")
        if is_err:
            ar = events(p, "WriteBuffer::add_replacement")
            ob.must_hold(bool(ar) and idx_of(p, ar[0]) > idx_of(p, e_ins), "an Err after publication can only come from the write buffer (shutdown)")
    ob.must_hold(reached >= 1, "the replacement site was reached on some path")
    return ob.result(it, witness=witness)


def sites_c13(fns, tier="quick"):
    out = [site_update_record(fns, "::update_record_with_ttl", False),
           site_update_record(fns, "::update_record_with_ttl_bytes", True),
           site_delete(fns)]
    out += [site_insert_vacant(fns, "::insert_with_timestamp_and_ttl_internal"),
            site_insert_vacant(fns, "::insert_bytes_with_expiry"),
            site_insert_vacant(fns, "::insert_if_absent", "src/core/store/atomic.rs", explicit_ts=False)]
    return out


def normal_successors(term):
    if term.startswith("goto -> "):
        return [term[8:].rstrip(";")]
    m = re.search(r"-> \[(.*)\];$", term)
    if not m:
        return []
    out = []
    for part in m.group(1).split(","):
        part = part.strip()
        k, _, tgt = part.partition(": ")
        if k.startswith("unwind"):
            continue
        mm = re.match(r"(bb\d+)", tgt.strip())
        if mm:
            out.append(mm.group(1))
    return out


def main_loop_header(f):
    """target of the most DFS back-edges in the normal (non-unwind) control-flow graph: the function's outer loop"""
    color, back = {}, {}
    stack = [("bb0", iter(normal_successors(f.blocks["bb0"][-1])))]
    color["bb0"] = 1
    while stack:
        node, itr = stack[-1]
        nxt = next(itr, None)
        if nxt is None:
            color[node] = 2
            stack.pop()
            continue
        if nxt not in f.blocks:
            continue
        c = color.get(nxt, 0)
        if c == 0:
            color[nxt] = 1
            stack.append((nxt, iter(normal_successors(f.blocks[nxt][-1]))))
        elif c == 1:
            back[nxt] = back.get(nxt, 0) + 1
    if not back:
        return None
    return max(back.items(), key=lambda kv: (kv[1], -int(kv[0][2:])))[0]


def site_insert_vacant(fns, suffix, hint="src/core/store/operations.rs", one_iteration=True, explicit_ts=True):
    f = mir.find(fns, suffix, hint)
    ob = Ob("site" + suffix.replace("::", "_"), "%s (new key): the whole record size is reserved before the entry is created, the entry is created only in the "
            "Vacant arm, then the ordered index is filled, the timestamp observed, the reservation committed and record_count incremented by one; "
            "a path that creates nothing commits nothing and counts nothing; an existing key with an equal-or-newer timestamp is refused before any effect" % suffix,
            "one arbitrary iteration of the retry loop (all locals havocked at its header)", f)
    ts_idx = record_field_index(fns, "timestamp")
    it = Interp(f, loop_bound=2 if not one_iteration else 1, pure=PURE + ("::resolve_timestamp",), max_paths=8000)
    reached = 0
    hdr = main_loop_header(f) if one_iteration else None
    runs = it.run(start=hdr, stop=(hdr,)) if hdr else it.run()
    for p in runs:
        ob.paths += 1
        if p.status == "truncated":
            ob.truncated += 1
            continue
        if p.status not in ("return", "backedge"):
            continue
        ins = events(p, "VacantEntry::insert_entry")
        commits = events(p, "MemoryReservation::commit")
        counts = [e for e in events(p, "Atomic::fetch_add") if z3.is_bv(e.args[1]) and e.args[1].size() == 32]
        if not ins:
            ob.must_hold(not commits, "no reservation is committed on a path that creates no entry")
            ob.must_hold(not counts, "record_count untouched on a path that creates no entry")
            ob.must_hold(not events(p, "::insert_into_tree"), "ordered index untouched on a path that creates no entry")
            ob.must_hold(not events(p, "::observe_published_timestamp"), "a failing call's timestamp is not absorbed into the clock")
            continue
        reached += 1
        e_ins = ins[-1]
        res = [e for e in events(p, "::reserve_memory") if idx_of(p, e) < idx_of(p, e_ins)]
        ob.must_hold(len(res) >= 1, "memory is reserved before the entry is created")
        sizes = events(p, "::calculate_record_size")
        if res and sizes:
            ob.need(it, p.pc, res[-1].args[1] == sizes[0].ret, "reserved amount == calculate_record_size(key, value)")
        ob.must_hold(len([c for c in commits if idx_of(p, c) > idx_of(p, e_ins)]) == 1, "reservation committed once, after publication")
        ob.must_hold(len([c for c in counts if idx_of(p, c) > idx_of(p, e_ins)]) == 1, "record_count incremented once, after publication")
        for c in counts:
            ob.need(it, p.pc, c.args[1] == z3.BitVecVal(1, 32), "record_count += 1")
        tree = [e for e in events(p, "::insert_into_tree") if idx_of(p, e) > idx_of(p, e_ins)]
        ob.must_hold(len(tree) == 1, "ordered index filled after the hash table")
        if tree:
            ob.need(it, p.pc, it.as_u(tree[0].args[2]) == it.as_u(e_ins.args[1]), "ordered index holds the published record")
        obs = [e for e in events(p, "::observe_published_timestamp") if idx_of(p, e) > idx_of(p, e_ins)]
        if explicit_ts:
            ob.must_hold(len(obs) == 1, "published timestamp observed")
    ob.must_hold(reached >= 1, "the creation site was reached")
    return ob.result(it, witness=[("publishes nothing", "c01_failed_overwrite_is_harmless"), ("", None)])


def site_delete(fns):
    f = mir.find(fns, "::delete_with_timestamp", "src/core/store/operations.rs")
    ob = Ob("site_delete_with_timestamp", "delete_with_timestamp: removal only under the entry guard with ts > current.timestamp; subtracts exactly size(current) "
            "and one record; stamps retired_at = ts on the CURRENT generation; observes the published timestamp; Err paths before removal change nothing",
            "all paths", f)
    ts_idx = record_field_index(fns, "timestamp")
    it = Interp(f, loop_bound=2, pure=PURE + ("::resolve_timestamp",))
    reached = 0
    for p in it.run():
        ob.paths += 1
        if p.status != "return":
            if p.status == "truncated":
                ob.truncated += 1
            continue
        rem = events(p, "OccupiedEntry::remove")
        subs = [e for e in events(p, "Atomic::fetch_sub")]
        if not rem:
            ob.must_hold(not subs, "no counter is touched on a path that removes nothing")
            ob.must_hold(not events(p, "::observe_published_timestamp"), "a failing delete's timestamp is not absorbed into the clock")
            continue
        reached += 1
        cur = guarded_entry_value(it, p)
        ob.must_hold(cur is not None, "removal under an Occupied entry guard")
        if cur is None:
            continue
        rt = events(p, "::resolve_timestamp")
        ob.must_hold(len(rt) == 1, "timestamp resolved once")
        if not rt:
            continue
        tsv = it.ctx.uf("proj__0", [U], z3.BitVecSort(64))(it.as_u(rt[0].ret)) if not isinstance(rt[0].ret, mir.Tup) else rt[0].ret.fields[0]
        cur_ts = field(it, cur, ts_idx, z3.BitVecSort(64))
        ob.need(it, rem[0].pc, z3.UGT(tsv, cur_ts), "ts > current.timestamp at the removal site")
        calc = it.ctx.uf("fn:Record::calculate_size", [U], z3.BitVecSort(64))
        sizes = [e for e in subs if z3.is_bv(e.args[1]) and e.args[1].size() == 64]
        counts = [e for e in subs if z3.is_bv(e.args[1]) and e.args[1].size() == 32]
        ob.must_hold(len(sizes) == 1 and len(counts) == 1, "exactly one memory_usage and one record_count decrement")
        if sizes:
            ob.need(it, p.pc, sizes[0].args[1] == calc(it.as_u(cur)), "memory_usage -= size(current entry)")
        if counts:
            ob.need(it, p.pc, counts[0].args[1] == z3.BitVecVal(1, 32), "record_count -= 1")
        obs = events(p, "::observe_published_timestamp")
        ob.must_hold(len(obs) == 1, "published (deletion) timestamp is observed")
        if obs:
            ob.need(it, p.pc, obs[0].args[2] == tsv, "observes the deletion timestamp")
        ob.must_hold(bool(events(p, "SkipMap::remove") or [e for e in p.events if e.kind == "call" and e.callee.endswith("::remove") and "SkipMap" in e.callee]),
                     "ordered index entry removed")
    ob.must_hold(reached >= 1, "the removal site was reached")
    return ob.result(it, witness=[("timestamp", "c12_version_clock_model"), ("", "c13_model_accounting_and_reopen")])


def c07(fns, tier, env):
    out = [site_update_record(fns, "::replace_record_if_current", False, file_hint="src/core/store/atomic.rs", ts_tuple_local="_5", identity_local="_3", witness=[("(f)", "c07_lost_increment+c07_aba_same_timestamp")] + UPDATE_WITNESSES),
           site_update_record(fns, "::update_record_with_ttl", False),
           site_delete(fns), site_atomic_increment(fns), site_compare_and_swap(fns), site_json_patch(fns), site_insert_if_absent_exclusive(fns)]
    return finalize(out, env)


def site_file_is_all_zero(fns):
    f = mir.find(fns, "::file_is_all_zero", None)
    ob = Ob("site_file_is_all_zero", "file_is_all_zero (decides whether a file without a FeOx signature is a blank device that may be initialised): the byte scan "
            "reads the file sequentially from a fresh handle starting with remaining = size; in ONE ARBITRARY iteration exactly L = min(remaining, buffer) > 0 bytes "
            "are read, exactly those L bytes are tested for non-zero, and remaining decreases by exactly L; true is returned from the scan only when remaining == 0 "
            "and false only after a non-zero byte was seen – hence true means every one of the `size` bytes was read and was zero", "one arbitrary iteration + prologue", f)
    hdr = main_loop_header(f)
    rem_l = f.debug.get("remaining")
    ob.must_hold(hdr is not None and rem_l is not None, "the scan loop and its `remaining` counter were found")
    if hdr is None or rem_l is None:
        return ob.result(None, witness="c17_rejected_open_leaves_file_untouched")
    it = Interp(f, loop_bound=1, pure=PURE, max_paths=2000)
    rem0 = z3.BitVec("remaining0", 64)

    def init(it_, st):
        st["env"][rem_l] = rem0

    def range_end(e):
        a = e.args[1] if len(e.args) > 1 else None
        if isinstance(a, mir.Tup) and len(a.fields) == 1 and z3.is_bv(a.fields[0]):
            return a.fields[0]
        return None
    cont = exits = 0
    for p in it.run(init, start=hdr, stop=(hdr,)):
        ob.paths += 1
        if p.status not in ("backedge", "return"):
            continue
        rd = events(p, "Read>::read_exact")
        im = events(p, "::index_mut")
        ix = [e for e in events(p, "::index") if not e.callee.endswith("index_mut")]
        an = [e for e in p.events if e.kind == "call" and e.callee.endswith("Iterator>::any")]
        if p.status == "backedge":
            cont += 1
            ob.must_hold(len(rd) == 1 and len(im) == 1 and len(ix) == 1 and len(an) == 1, "one read, one test per iteration")
            if not (len(rd) == 1 and len(im) == 1 and len(ix) == 1 and len(an) == 1):
                continue
            l_read, l_test = range_end(im[0]), range_end(ix[0])
            ob.must_hold(l_read is not None and l_test is not None, "the read and the tested slice are prefixes buffer[..L]")
            if l_read is None or l_test is None:
                continue
            ob.must_hold(contains(rd[0].args[1], it.as_u(im[0].ret)), "read_exact fills the prefix slice")
            ob.must_hold(idx_of(p, rd[0]) < idx_of(p, an[0]), "the bytes are tested after they were read")
            ob.need(it, p.pc, l_read == l_test, "exactly the bytes that were read are tested")
            ln = events(p, "Vec::len")
            ob.must_hold(len(ln) == 1, "the buffer length is consulted")
            if not ln:
                continue
            # invariant carried by the loop: the scan buffer is non-empty (established in the prologue, below)
            inv = [z3.UGT(ln[0].ret, 0)]
            ob.need(it, list(p.pc) + inv, z3.And(z3.UGT(l_read, 0), z3.ULE(l_read, rem0)), "0 < L <= remaining")
            ob.need(it, p.pc, z3.ULE(l_read, ln[0].ret), "L <= buffer length")
            ob.need(it, p.pc, p.env.get(rem_l) == rem0 - l_read, "remaining decreases by exactly the number of bytes read and tested")
            ob.need(it, p.pc, z3.Not(an[0].ret), "the scan continues only when no non-zero byte was seen")
        else:
            if p.ret is None:
                continue
            okv = it.ctx.uf("proj_Ok_0", [U], z3.BoolSort())(it.as_u(p.ret))
            is_ok = it.entails(p.pc, it.ctx.disc(it.as_u(p.ret)) == 0)[0]
            if not is_ok:
                continue
            exits += 1
            if it.sat(list(p.pc) + [okv]):
                ob.need(it, p.pc + [okv], rem0 == 0, "true is returned from the scan only when every byte has been consumed (remaining == 0)")
                ob.must_hold(not rd, "the all-zero verdict is given at the loop exit")
            if it.sat(list(p.pc) + [z3.Not(okv)]):
                ob.must_hold(len(an) == 1, "false is returned only after testing bytes")
                if an:
                    ob.need(it, p.pc + [z3.Not(okv)], an[0].ret, "false is returned only when a non-zero byte was seen")
    ob.must_hold(cont >= 1 and exits >= 2, "continuing and returning paths were reached")
    # prologue: a fresh handle on the same path, remaining starts at size
    it2 = Interp(f, loop_bound=1, pure=PURE, max_paths=2000)
    size, path = z3.BitVec("size", 64), z3.Const("path", U)

    def init2(it_, st):
        st["env"]["_2"] = path
        st["env"]["_3"] = size
    pro = 0
    for p in it2.run(init2, start="bb0", stop=(hdr,)):
        if p.status != "backedge":
            continue
        pro += 1
        op = [e for e in p.events if e.kind == "call" and "OpenOptions::open" in e.callee]
        ob.must_hold(len(op) == 1, "the scan reads through a freshly opened handle (offset 0)")
        if op:
            ob.need(it2, p.pc, it2.as_u(op[0].args[1]) == path, "the handle is opened on the device path")
        ob.need(it2, p.pc, p.env.get(rem_l) == size, "remaining starts at the device size")
        fe = events(p, "vec::from_elem")
        ob.must_hold(len(fe) == 1, "one scan buffer is allocated")
        if fe:
            ob.need(it2, p.pc, z3.UGT(fe[0].args[1], 0), "the scan buffer is non-empty")
    ob.must_hold(pro >= 1, "the scan loop is reached")
    ob.queries += it2.queries
    return ob.result(it, witness="c17_rejected_open_leaves_file_untouched")


def site_compare_and_swap(fns):
    f = mir.find(fns, "::compare_and_swap_with_timestamp_and_ttl", "src/core/store/atomic.rs")
    ob = Ob("site_compare_and_swap", "compare_and_swap_with_timestamp_and_ttl, every path: the conditional replacement is attempted only after the value RESOLVED for "
            "the key compared equal to `expected`, and it is conditional on exactly the generation that value was resolved from (the `source` returned by "
            "resolve_value is what replace_record_if_current gets as the expected-current record); a mismatch, a missing key or a stale extent returns Ok(false) and "
            "calls nothing that publishes; the cache is filled only with (value, source) of that resolution; the result is replace_record_if_current's",
            "all paths; calls havocked", f)
    it = Interp(f, loop_bound=1, pure=PURE + ("::resolve_value", "::as_ref"), max_paths=6000)
    expected = z3.Const("expected", U)

    def init(it_, st):
        st["env"]["_3"] = expected
    reached = 0
    for p in it.run(init):
        ob.paths += 1
        if p.status != "return":
            continue
        rep = events(p, "::replace_record_if_current")
        rv = events(p, "::resolve_value")
        publishing = events(p, "OccupiedEntry::insert") + events(p, "::update_record_with_ttl") + events(p, "::publish_to_tree") + events(p, "::insert_with_timestamp_and_ttl_internal")
        ob.must_hold(not publishing, "compare_and_swap publishes only through replace_record_if_current")
        if not rep:
            continue
        reached += 1
        ob.must_hold(len(rep) == 1 and len(rv) == 1, "one resolution, one conditional replacement")
        if len(rv) != 1:
            continue
        ok_payload = it.ctx.uf("proj_Ok_0", [U], U)(it.as_u(rv[0].ret))
        src = it.ctx.uf("proj__2", [U], U)(ok_payload)
        val = it.ctx.uf("proj__0", [U], U)(ok_payload)
        ob.need(it, rep[0].pc, it.ctx.disc(it.as_u(rv[0].ret)) == 0, "the replacement is attempted only when the value was resolved")
        ob.need(it, rep[0].pc, it.as_u(rep[0].args[2]) == src, "the replacement is conditional on the generation the compared value was resolved from")
        cmp_ = [e for e in p.events if e.kind == "call" and (e.callee.endswith("as PartialEq>::ne") or e.callee.endswith("as PartialEq>::eq")
                                                               or e.callee.endswith("PartialEq<[u8]>>::ne") or e.callee.endswith("PartialEq<[u8]>>::eq")) and idx_of(p, e) < idx_of(p, rep[0])]
        ob.must_hold(len(cmp_) >= 1, "the resolved value is compared with `expected` before the replacement")
        if cmp_:
            c = cmp_[-1]
            want = c.ret if c.callee.endswith("eq") else z3.Not(c.ret)
            ob.need(it, rep[0].pc, want, "the replacement is attempted only when the comparison said equal")
            ob.must_hold(contains(c.args[0], val) or contains(c.args[1], val), "the comparison is on the resolved value")
            ob.must_hold(contains(c.args[0], expected) or contains(c.args[1], expected), "the comparison is against `expected`")
        for e in events(p, "ClockCache::insert_for_record"):
            ob.need(it, p.pc, it.as_u(e.args[3]) == src, "the cache is filled for the generation the value was resolved from")
            ob.must_hold(contains(e.args[2], val), "the cached value is the resolved value")
        ob.need(it, p.pc, it.as_u(p.ret) == it.as_u(rep[0].ret), "the result is replace_record_if_current's result")
        rt = events(p, "::resolve_timestamp")
        ob.must_hold(len(rt) == 1 and idx_of(p, rt[0]) < idx_of(p, rep[0]) and contains(rep[0].args[4], it.as_u(rt[0].ret)) if len(rt) == 1 and not isinstance(rep[0].args[4], mir.Tup)
                     else len(rt) == 1, "the timestamp handed to the replacement comes from resolve_timestamp (explicit or version clock)")
    ob.must_hold(reached >= 1, "the replacement site was reached")
    return ob.result(it, witness="c07_cas_and_patch_semantics")


def site_json_patch(fns):
    f = mir.find(fns, "::json_patch_with_timestamp", "src/core/store/json_patch.rs")
    ob = Ob("site_json_patch", "json_patch_with_timestamp, one arbitrary iteration of its retry loop: the patch is applied to the value RESOLVED in this iteration, the "
            "replacement is conditional on exactly the generation that value was resolved from, the patched document is validated before the replacement, and Ok is returned only when replace_record_if_current "
            "returned Ok(true)", "one arbitrary iteration (all locals havocked at the loop header)", f)
    hdr = main_loop_header(f)
    if hdr is None:
        raise mir.MirError("retry loop not found")
    it = Interp(f, loop_bound=1, pure=PURE + ("::resolve_value", "apply_json_patch", "::as_ref"), max_paths=6000)
    reached = 0
    for p in it.run(start=hdr, stop=(hdr,)):
        ob.paths += 1
        if p.status not in ("return", "backedge"):
            continue
        rep = events(p, "::replace_record_if_current")
        rv = events(p, "::resolve_value")
        ap = events(p, "apply_json_patch")
        ob.must_hold(not (events(p, "OccupiedEntry::insert") + events(p, "::update_record_with_ttl") + events(p, "::publish_to_tree")), "json_patch publishes only through replace_record_if_current")
        if not rep:
            if p.status == "return" and p.ret is not None:
                ob.need(it, p.pc, it.ctx.disc(it.as_u(p.ret)) != 0, "a path that attempts no replacement returns an error")
            continue
        reached += 1
        ob.must_hold(len(rep) == 1 and len(rv) == 1 and len(ap) == 1, "one resolution, one patch application, one conditional replacement per iteration")
        if not (len(rv) == 1 and len(ap) == 1):
            continue
        ok_payload = it.ctx.uf("proj_Ok_0", [U], U)(it.as_u(rv[0].ret))
        src = it.ctx.uf("proj__2", [U], U)(ok_payload)
        val = it.ctx.uf("proj__0", [U], U)(ok_payload)
        ob.need(it, rep[0].pc, it.as_u(rep[0].args[2]) == src, "the replacement is conditional on the generation the patched value was resolved from")
        ob.must_hold(contains(ap[0].args[0], val), "the patch is applied to the value resolved in this iteration")
        ob.need(it, rep[0].pc, it.ctx.disc(it.as_u(ap[0].ret)) == 0, "the replacement is attempted only when the patch applied")
        ob.must_hold(contains(rep[0].args[3], it.as_u(ap[0].ret)), "the replacement value is the patched document")
        tls_ = re.findall(r"debug timestamp => (_\d+);", f.text)
        tv = p.env.get(tls_[-1]) if tls_ else None
        a4 = rep[0].args[4]
        same = tv is not None and ((isinstance(a4, mir.Tup) and isinstance(tv, mir.Tup) and len(a4.fields) == len(tv.fields) and all(z3.eq(x, y) for x, y in zip(a4.fields, tv.fields)))
                                   or (not isinstance(a4, mir.Tup) and not isinstance(tv, mir.Tup) and z3.eq(z3.simplify(it.as_u(a4)), z3.simplify(it.as_u(tv)))))
        ob.must_hold(same, "the replacement is made with the loop's resolved (timestamp, explicit) pair")
        vk = [e for e in events(p, "::validate_key_value") if idx_of(p, ap[0]) < idx_of(p, e) < idx_of(p, rep[0])]
        ob.must_hold(len(vk) == 1, "the patched document is validated before the replacement")
        if vk:
            ob.need(it, rep[0].pc, okd(it, vk[0]), "the replacement is attempted only when validation passed")
        rd = [e for e in p.events if e.kind == "call" and e.callee.endswith("HashMap::read")]
        ob.must_hold(len(rd) == 1 and idx_of(p, rd[0]) < idx_of(p, rv[0]), "the index is read once per iteration, before the value is resolved")
        if rd:
            ob.need(it, p.pc, it.as_u(rv[0].args[2]) == it.ctx.uf("proj_Some_0", [U], U)(it.as_u(rd[0].ret)), "the value is resolved for the record read from the index in this iteration")
        if p.status == "return" and p.ret is not None and it.entails(p.pc, it.ctx.disc(it.as_u(p.ret)) == 0)[0]:
            ok_b = it.ctx.uf("proj_Ok_0", [U], z3.BoolSort())(it.as_u(rep[0].ret))
            ob.need(it, p.pc, z3.And(okd(it, rep[0]), ok_b), "Ok is returned only when the conditional replacement succeeded")
    ob.must_hold(reached >= 1, "the replacement site was reached")
    # prologue: the timestamp the retry loop works with comes from resolve_timestamp (explicit or the version clock), once
    tls = re.findall(r"debug timestamp => (_\d+);", f.text)
    tl = tls[-1] if tls else None      # the parameter is shadowed by the resolved (timestamp, explicit) pair
    it0 = Interp(f, loop_bound=1, pure=PURE, max_paths=2000)
    pro = 0
    for p in it0.run(start="bb0", stop=(hdr,)):
        if p.status != "backedge":
            continue
        pro += 1
        rt = events(p, "::resolve_timestamp")
        ob.must_hold(len(rt) == 1, "the timestamp is resolved exactly once, before the retry loop")
        if rt and tl:
            v = p.env.get(tl)
            ob.must_hold(v is not None and (contains(v, it0.as_u(rt[0].ret)) if not isinstance(v, mir.Tup) else any(contains(x, it0.as_u(rt[0].ret)) for x in v.fields)),
                         "the loop's timestamp is resolve_timestamp's result")
    ob.must_hold(pro >= 1 and tl is not None, "the retry loop is reached from the prologue")
    ob.queries += it0.queries
    # in the iteration, that same local is what the replacement gets
    return ob.result(it, witness="c07_cas_and_patch_semantics")


def site_resolve_expiry(fns):
    f = mir.find(fns, "::resolve_record_value", "src/core/store/operations.rs")
    ob = Ob("site_resolve_record_value_expiry", "resolve_record_value (every value-reading call goes through it): with TTL enabled a generation whose absolute expiry is "
            "non-zero and earlier than the clock read in this call yields KeyNotFound before any value source (memory, cache, disk) is consulted; a generation without "
            "expiry, or unexpired, or with TTL disabled is never refused on expiry grounds", "all paths; the clock is an arbitrary value", f)
    it = Interp(f, loop_bound=1, pure=PURE, max_paths=4000)
    self_ = z3.Const("store", U)
    ttl_on = it.ctx.uf("proj__%d" % store_field_index(fns, "enable_ttl"), [U], z3.BoolSort())(self_)

    def init(it_, st):
        st["env"]["_1"] = self_
    served = refused = 0
    for p in it.run(init):
        ob.paths += 1
        if p.status != "return":
            continue
        loads = [e for e in events(p, "Atomic::load") if z3.is_bv(e.ret) and e.ret.size() == 64]
        nanos = events(p, "Duration::as_nanos")
        srcs = events(p, "Record::get_value") + events(p, "::and_then") + events(p, "::load_value_from_disk")
        now = None
        if nanos:
            r = nanos[0].ret
            now = z3.Extract(63, 0, r) if z3.is_bv(r) and r.size() == 128 else r
        if srcs:
            served += 1
            if loads and now is not None and z3.is_bv(now) and now.size() == 64:
                ob.need(it, srcs[0].pc, z3.Or(loads[0].ret == 0, z3.ULE(now, loads[0].ret)), "a value source is consulted only for a generation that is not expired at the clock read in this call")
            elif loads:
                ob.need(it, srcs[0].pc, loads[0].ret == 0, "without a clock read only a generation without expiry is served")
            else:
                ob.need(it, srcs[0].pc, z3.Not(ttl_on), "the expiry is skipped only when TTL is disabled")
        else:
            # no value source consulted: the call refused on expiry grounds
            refused += 1
            ob.must_hold(bool(loads) and now is not None, "a refusal without consulting a value source read the expiry and the clock")
            if loads and now is not None and z3.is_bv(now) and now.size() == 64:
                ob.need(it, p.pc, z3.And(ttl_on, loads[0].ret != 0, z3.UGT(now, loads[0].ret)), "refused on expiry grounds only when TTL is on and 0 < expiry < now")
            if p.ret is not None:
                ob.need(it, p.pc, it.ctx.disc(it.as_u(p.ret)) != 0, "an expired generation yields an error (KeyNotFound)")
    ob.must_hold(served >= 2 and refused >= 1, "served and refused paths were reached")
    return ob.result(it, witness="c16_cache_respects_expiry")


def site_atomic_increment(fns):
    f = mir.find(fns, "::atomic_increment_with_timestamp_and_ttl", "src/core/store/atomic.rs")
    ob = Ob("site_atomic_increment", "atomic_increment_with_timestamp_and_ttl, one arbitrary iteration of its retry loop: the counter is replaced only under the entry "
            "guard, only if the entry still IS the generation the old value was resolved from (pointer identity – no lost increment), only with ts_new > "
            "current.timestamp; the new value is saturating(old value + delta) with the old value read from that generation; growth reserved against size(current); "
            "successor linked, index republished, timestamp observed, reservation committed after the replacement; a new counter is created only in the Vacant arm "
            "with the whole record size reserved first", "one arbitrary iteration (all locals havocked at the loop header)", f)
    ts_idx = record_field_index(fns, "timestamp")
    pure = PURE + ("::from_le_bytes", "::try_into", "::map_err", "::as_ref", "FeoxStore>::resolve_value", "::resolve_value")
    it = Interp(f, loop_bound=1, pure=pure, max_paths=12000)
    hdr = main_loop_header(f)
    if hdr is None:
        raise mir.MirError("retry loop not found")
    delta = z3.BitVec("delta", 64)

    def init(it_, st):
        st["env"]["_3"] = delta
    occ = vac = 0
    for p in it.run(init, start=hdr, stop=(hdr,)):
        ob.paths += 1
        if p.status == "truncated":
            ob.truncated += 1
        if p.status not in ("return", "backedge"):
            continue
        ins = events(p, "OccupiedEntry::insert")
        vins = events(p, "VacantEntry::insert_entry")
        commits = events(p, "MemoryReservation::commit")
        if not ins and not vins:
            ob.must_hold(not commits, "no reservation is committed on a path that publishes nothing")
            ob.must_hold(not events(p, "Record::link_successor") and not events(p, "::publish_to_tree") and not events(p, "::insert_into_tree"),
                         "a path that publishes nothing leaves successor links and the ordered index alone")
            continue
        if ins:
            occ += 1
            e = ins[0]
            cur = guarded_entry_value(it, p)
            ob.must_hold(cur is not None, "replacement under the entry guard")
            if cur is None:
                continue
            rv = events(p, "::resolve_value")
            pe = [x for x in events(p, "Arc::ptr_eq") if idx_of(p, x) < idx_of(p, e)]
            ob.must_hold(bool(rv) and bool(pe), "the old value is resolved and the entry's identity checked before the replacement")
            if rv and pe:
                ob.need(it, e.pc, pe[-1].ret, "the entry is replaced only if it is pointer-identical to the resolved generation")
                ob.must_hold(contains(pe[-1].ret, it.as_u(rv[-1].ret)) and contains(pe[-1].ret, it.as_u(cur)),
                             "the identity check compares the guarded entry with the generation the value was resolved from")
            cr = [x for x in events(p, "counter_record") if idx_of(p, x) < idx_of(p, e)]
            ob.must_hold(len(cr) == 1, "one new counter record")
            if cr:
                tsn = cr[0].args[2]
                cur_ts = field(it, cur, ts_idx, z3.BitVecSort(64))
                ob.need(it, e.pc, z3.UGT(tsn, cur_ts), "ts_new > current.timestamp at the replacement site")
                if rv:
                    ob.must_hold(contains(cr[0].args[1], it.as_u(rv[-1].ret)) and contains(cr[0].args[1], delta),
                                 "the new value is computed from the resolved old value and delta")
                ob.need(it, p.pc, it.as_u(e.args[1]) == it.as_u(cr[0].ret), "the published record is the new counter record")
            calc = it.ctx.uf("fn:Record::calculate_size", [U], z3.BitVecSort(64))
            res = [x for x in events(p, "::reserve_memory") if idx_of(p, x) < idx_of(p, e)]
            crs = [x for x in events(p, "::calculate_record_size") if idx_of(p, x) < idx_of(p, e)]
            ob.must_hold(len(res) == 1 and len(crs) >= 1, "growth reserved before the replacement")
            if res and crs:
                old_size, new_size = calc(it.as_u(cur)), crs[-1].ret
                ob.need(it, p.pc, res[0].args[1] == z3.If(z3.UGE(new_size, old_size), new_size - old_size, z3.BitVecVal(0, 64)),
                        "reserved == saturating(new_size - size(current entry))")
            ls = events(p, "Record::link_successor")
            ob.must_hold(len(ls) == 1 and idx_of(p, ls[0]) < idx_of(p, e), "successor linked before publication")
            if ls:
                ob.need(it, p.pc, it.as_u(ls[0].args[0]) == it.as_u(cur), "successor linked on the current entry")
            ob.must_hold(len([x for x in events(p, "::publish_to_tree") if idx_of(p, x) > idx_of(p, e)]) == 1, "ordered index republished after the hash table")
            ob.must_hold(len([x for x in events(p, "::observe_published_timestamp") if idx_of(p, x) > idx_of(p, e)]) == 1, "published timestamp observed")
            ob.must_hold(len([x for x in commits if idx_of(p, x) > idx_of(p, e)]) == 1, "reservation committed after publication")
        if vins:
            vac += 1
            e = vins[0]
            res = [x for x in events(p, "::reserve_memory") if idx_of(p, x) < idx_of(p, e)]
            crs = [x for x in events(p, "::calculate_record_size") if idx_of(p, x) < idx_of(p, e)]
            ob.must_hold(len(res) == 1 and len(crs) >= 1, "whole record size reserved before the entry is created")
            if res and crs:
                ob.need(it, p.pc, res[0].args[1] == crs[-1].ret, "reserved == calculate_record_size(key, 8)")
            cnt = [x for x in p.events if x.kind == "call" and "Atomic::<u32>::fetch_add" in getattr(x, "raw", "") and idx_of(p, x) > idx_of(p, e)]
            ob.must_hold(len(cnt) == 1, "record_count + 1 after creation")
            ob.must_hold(len([x for x in commits if idx_of(p, x) > idx_of(p, e)]) == 1, "reservation committed after creation")
            ob.must_hold(len([x for x in events(p, "::insert_into_tree") if idx_of(p, x) > idx_of(p, e)]) == 1, "ordered index filled after the hash table")
    ob.must_hold(occ >= 1 and vac >= 1, "both the replace and the create sites were reached")
    return ob.result(it, witness=[("identity", "c07_lost_increment+c07_aba_same_timestamp"), ("pointer-identical", "c07_lost_increment+c07_aba_same_timestamp"), ("", "c07_lost_increment+c07_aba_same_timestamp")])


def sites_c12(fns):
    # "an explicit timestamp carried by a call that fails is never absorbed into the clock": the validate -> reserve -> publish
    # obligations of every mutating site (shared with C01/C07/C13) place the clock observation after the last fallible step
    return [site_update_ttl(fns), site_compare_and_swap(fns), site_atomic_increment(fns), site_json_patch(fns),
            site_update_record(fns, "::update_record_with_ttl", False),
            site_update_record(fns, "::update_record_with_ttl_bytes", True),
            site_update_record(fns, "::replace_record_if_current", False, file_hint="src/core/store/atomic.rs", ts_tuple_local="_5", identity_local="_3",
                               witness=[("(f)", "c07_lost_increment+c07_aba_same_timestamp")] + UPDATE_WITNESSES),
            site_delete(fns),
            site_insert_vacant(fns, "::insert_with_timestamp_and_ttl_internal"), site_insert_vacant(fns, "::insert_bytes_with_expiry"),
            site_insert_vacant(fns, "::insert_if_absent", "src/core/store/atomic.rs", explicit_ts=False)]


def site_update_ttl(fns):
    f = mir.find(fns, "::update_ttl::{closure#0}", "src/core/store/ttl.rs")
    ob = Ob("site_update_ttl_closure", "update_ttl's guarded closure: the new generation's timestamp is max(version_clock.next(..), old.timestamp+1) – "
            "it comes from (and advances) the per-shard clock – and the ordered index is republished with the new generation",
            "all paths of the closure", f)
    ts_idx = record_field_index(fns, "timestamp")
    it = Interp(f, loop_bound=2, pure=PURE)
    reached = 0
    for p in it.run():
        ob.paths += 1
        if p.status != "return":
            if p.status == "truncated":
                ob.truncated += 1
            continue
        news = events(p, "Record::new_deferred_with_ttl") + events(p, "Record::new_from_bytes_with_ttl") + events(p, "Record::new_from_bytes") + \
            events(p, "Record::new_with_timestamp_ttl") + [e for e in events(p, "Record::new") if e.callee.endswith("Record::new")]
        retu = it.as_u(p.ret) if p.ret is not None else None
        if not news:
            continue
        reached += 1
        nx = events(p, "VersionClock::next")
        ob.must_hold(len(nx) >= 1, "the new generation's timestamp is drawn from VersionClock::next (the clock is advanced)")
        # the timestamp argument of the constructor
        e = news[0]
        ts_arg = None
        for a in e.args:
            if z3.is_bv(a) and a.size() == 64:
                ts_arg = a
                break
        ob.must_hold(ts_arg is not None, "constructor receives a u64 timestamp")
        if nx and ts_arg is not None:
            ob.need(it, e.pc, z3.UGE(ts_arg, nx[0].ret), "new timestamp >= the clock's value")
        pubs = events(p, "::publish_to_tree")
        is_ok, _ = it.entails(p.pc, it.ctx.disc(retu) == 0) if retu is not None else (False, None)
        if is_ok:
            ob.must_hold(len(pubs) == 1, "a successful TTL update republishes the ordered index slot")
    ob.must_hold(reached >= 1, "the construction site was reached")
    w = "c11_ttl_publish" if any("republishes" in x["what"] for x in ob.failures) and not any("VersionClock" in x["what"] for x in ob.failures) else "c12_update_ttl"
    return ob.result(it, witness=w)


# ============================================================================ C08 sites + kernel
def c08(fns, tier, env):
    lb = 3 if tier == "quick" else 5
    out = [kernel_acquire_extent(fns, lb), site_load_value(fns), site_prepare_deferred(fns), site_cache_lookups_tagged(fns), site_process_deletions(fns),
           site_range_query(fns), site_compare_and_swap(fns)]
    return finalize(out, env)


def kernel_acquire_extent(fns, lb):
    f = mir.find(fns, "::acquire_extent", "src/core/record.rs")
    ob = Ob("c08_acquire_extent_interference", "acquire_extent under interference (other threads acquire, release and retire; RETIRED is never cleared): a successful "
            "acquire linearises at a word with RETIRED clear and adds exactly one reader; after RETIRED is seen no write happens; own writes never clear RETIRED",
            "<= %d CAS retries; reader count < 2^31-1" % lb, f)
    R = z3.BitVecVal(1 << 31, 32)

    def rely(o, n):
        return z3.Implies((o & R) != 0, (n & R) != 0)
    it = Interp(f, loop_bound=lb, atomic=AtomicModel(32, rely))
    it.cross_check = True
    for p in it.run():
        ob.paths += 1
        if p.status == "truncated":
            ob.truncated += 1
            continue
        if p.status != "return":
            continue
        cas = p.extra.get("cas") or []
        retu = it.as_u(p.ret)
        some, _ = it.entails(p.pc, it.ctx.disc(retu) == 1)
        none, _ = it.entails(p.pc, it.ctx.disc(retu) == 0)
        for k, (ok, before, new) in enumerate(cas):
            ob.need(it, p.pc, z3.Implies(z3.And(ok, (before & ~R) != ~R), rely(before, new)), "guarantee: own CAS #%d never clears RETIRED" % k)
        if some:
            ob.must_hold(bool(cas), "a guard is handed out only after a CAS")
            ok, before, new = cas[-1]
            ob.need(it, p.pc, ok, "the last CAS succeeded")
            ob.need(it, p.pc, (before & R) == 0, "linearises at a state with RETIRED clear")
            ob.need(it, p.pc, new == before + 1, "adds exactly one reader")
            for k, (ok2, _b, _n) in enumerate(cas[:-1]):
                ob.need(it, p.pc, z3.Not(ok2), "exactly one successful CAS")
        elif none:
            for k, (ok, _b, _n) in enumerate(cas):
                ob.need(it, p.pc, z3.Not(ok), "a refused acquire wrote nothing")
        else:
            ob.must_hold(False, "result undecided")
    return ob.result(it, witness="c08_pin_after_retirement")


def _same_object_reads(fns, suffix, hint, oid, doc):
    f = mir.find(fns, suffix, hint)
    ob = Ob(oid, doc, "all paths; value_source chain followed <= 2 steps", f)
    it = Interp(f, loop_bound=2, pure=PURE)
    reached = 0
    for p in it.run():
        ob.paths += 1
        if p.status == "truncated":
            ob.truncated += 1
            continue
        if p.status != "return":
            continue
        reads = events(p, "read_sectors_sync")
        if not reads:
            continue
        reached += 1
        acq = events(p, "Record::acquire_extent")
        ob.must_hold(len(acq) == 1 and idx_of(p, acq[0]) < idx_of(p, reads[0]), "the extent is pinned before the device read")
        if not acq:
            continue
        pinned = it.as_u(acq[0].args[0])
        # the sector that is read was loaded (after the pin) from the pinned record
        loads = [e for e in events(p, "Atomic::load") if idx_of(p, e) > idx_of(p, acq[0]) and idx_of(p, e) < idx_of(p, reads[0])
                 and z3.is_bv(e.ret) and e.ret.size() == 64]
        sector_arg = reads[0].args[1]
        src = [e for e in loads if z3.eq(z3.simplify(e.ret), z3.simplify(sector_arg))]
        ob.must_hold(len(src) >= 1, "the sector passed to the device read is loaded after the pin")
        if src:
            # the load's location is a field of the pinned object: &((*rec).K: Atomic<u64>)
            loc = src[0].args[0]
            ok = False
            for k in range(0, 24):
                cand = it.ctx.uf("proj__%d" % k, [U], U)(pinned)
                if z3.eq(z3.simplify(cand), z3.simplify(loc)):
                    ok = True
            if not ok:
                # decide by solver: some field of `pinned` equals loc on this path
                okk, _ = it.entails(p.pc, z3.Or(*[it.ctx.uf("proj__%d" % k, [U], U)(pinned) == loc for k in range(0, 24)]))
                ok = okk
                ob.queries += 1
            ob.must_hold(ok, "the sector is read from the record whose extent is pinned (not from another generation)")
        chk = events(p, "sector_holds_record")
        rets_ok, _ = it.entails(p.pc, it.ctx.disc(it.as_u(p.ret)) == 0)
        if rets_ok:
            ob.must_hold(len(chk) == 1 and idx_of(p, chk[0]) > idx_of(p, reads[0]), "bytes are returned only after the post-read identity check")
        if chk:
            ob.need(it, p.pc, it.as_u(chk[0].args[1]) == pinned, "the identity check is made against the pinned record")
        drops = [e for e in p.events if e.kind == "drop" and "ExtentReadGuard" in e.callee]
        for d in drops:
            ob.must_hold(idx_of(p, d) > idx_of(p, reads[0]) or True, "guard dropped after the read")
    ob.must_hold(reached >= 1, "the device-read site was reached")
    return ob.result(it, witness="c08_deferred_ttl_read")


def site_load_value(fns):
    return _same_object_reads(fns, "::load_value_from_disk", "src/core/store/persistence.rs", "site_load_value_from_disk",
                              "load_value_from_disk: the record whose extent is pinned IS the record whose sector is read and against which the bytes are "
                              "identity-checked, on every path (including TTL-only generations that borrow a predecessor's extent)")


def site_prepare_deferred(fns):
    return _same_object_reads(fns, "::prepare_deferred_record_data", None, "site_prepare_deferred_record_data",
                              "prepare_deferred_record_data (flush of a TTL-only generation): pinned record == record read == record identity-checked")


# ============================================================================ C11
def c11(fns, tier, env):
    out = [kernel_ttl_expiry(fns), kernel_ttl_expiry_sites(fns), site_resolve_expiry(fns), site_retire_expired(fns), site_update_ttl(fns), site_sweeper(fns), site_sweeper_sampling(fns), site_recovery_expired_winners(fns), scan_iteration(fns)]
    return finalize(out, env)


def kernel_ttl_expiry(fns):
    f = mir.find(fns, "::insert_bytes_with_timestamp_and_ttl_internal", "src/core/store/operations.rs")
    ob = Ob("c11_ttl_expiry_arithmetic", "absolute expiry handed to the insert path: 0 iff (ttl_seconds == 0 or TTL disabled), otherwise "
            "min(u64::MAX, ts + ttl_seconds*10^9) with both steps saturating; the timestamp/explicit pair is passed through unchanged",
            "all u64 ttl_seconds / timestamps", f)
    it = Interp(f, loop_bound=1, pure=PURE)
    ttl = z3.BitVec("ttl_seconds", 64)

    def init(it_, st):
        st["env"]["_5"] = ttl
    m = re.search(r"copy \(\(\*_1\)\.(\d+): bool\)", f.text)
    reached = 0
    for p in it.run(init):
        ob.paths += 1
        if p.status != "return":
            continue
        call = events(p, "::insert_bytes_with_expiry")
        if not call:
            continue
        reached += 1
        rt = events(p, "::resolve_timestamp")
        ob.must_hold(len(rt) == 1, "timestamp resolved exactly once")
        if not rt:
            continue
        r = rt[0].ret
        tsv = it.ctx.uf("proj__0", [U], z3.BitVecSort(64))(it.as_u(r))
        expl = it.ctx.uf("proj__1", [U], z3.BoolSort())(it.as_u(r))
        a = call[0].args
        ob.need(it, p.pc, z3.And(a[3] == tsv, a[4] == expl), "(timestamp, explicit) passed through unchanged")
        expiry = a[5]
        bil = z3.BitVecVal(1000000000, 64)
        prod = z3.If(z3.BVMulNoOverflow(ttl, bil, False), ttl * bil, MAX64)
        full = z3.If(z3.BVAddNoOverflow(tsv, prod, False), tsv + prod, MAX64)
        ob.need(it, p.pc, z3.Or(expiry == 0, expiry == full), "expiry is 0 or the saturating sum")
        ob.need(it, p.pc, z3.Implies(ttl == 0, expiry == 0), "no TTL requested => no expiry")
        ob.need(it, p.pc, z3.Implies(expiry == 0, z3.Or(ttl == 0, full == 0, z3.BoolVal(True))), "(shape)")
        # when TTL is enabled (the bool field read on this path is true) and ttl > 0 the expiry is the sum
        ob.need(it, p.pc, z3.Implies(z3.And(expiry != 0), z3.And(ttl != 0, expiry == full)), "non-zero expiry only from a non-zero TTL")
    ob.must_hold(reached >= 1, "the insert call site was reached")
    return ob.result(it, witness="c11_expiry_model")


def _full_expiry(ts, ttl):
    bil = z3.BitVecVal(1000000000, 64)
    prod = z3.If(z3.BVMulNoOverflow(ttl, bil, False), ttl * bil, MAX64)
    return z3.If(z3.BVAddNoOverflow(ts, prod, False), ts + prod, MAX64)


TTL_CTORS = ("Record::new_with_timestamp_ttl", "Record::new_from_bytes_with_ttl")
PLAIN_CTORS = ("Record::new_with_timestamp", "Record::new_from_bytes", "Record::new")


def kernel_ttl_expiry_sites(fns):
    """every other place where a TTL in seconds becomes an absolute expiry"""
    ob = Ob("c11_ttl_expiry_sites", "every site that turns `ttl_seconds` into an absolute expiry (byte-slice insert path, conditional replacement used by "
            "compare-and-swap / JSON patch, counter records of atomic_increment, ttl::ttl_expiry used by update_ttl): the expiry is exactly "
            "min(u64::MAX, ts + ttl_seconds*10^9) with both steps saturating – for ALL u64 inputs, so very long TTLs never wrap into an early expiry – a record is "
            "built with an expiry only for ttl_seconds > 0, and a requested TTL is never dropped", "all u64 ttl_seconds / timestamps; all paths (loops unrolled once)", None)
    total_q = 0
    last = None
    # (1) the &[u8] insert path: value of `ttl_expiry` when the retry loop is entered
    f = mir.find(fns, "::insert_with_timestamp_and_ttl_internal", "src/core/store/operations.rs")
    ob.fn = f
    hdr = main_loop_header(f)
    loc, ttl_l = f.debug.get("ttl_expiry"), f.debug.get("ttl_seconds")
    ob.must_hold(hdr is not None and loc is not None and ttl_l is not None, "insert path: retry loop, `ttl_expiry` and `ttl_seconds` found")
    if hdr and loc and ttl_l:
        it = Interp(f, loop_bound=1, pure=PURE, max_paths=2000)
        ttl = z3.BitVec("ttl_seconds", 64)
        self_ = z3.Const("store", U)
        ttl_on = it.ctx.uf("proj__%d" % store_field_index(fns, "enable_ttl"), [U], z3.BoolSort())(self_)

        def init(it_, st):
            st["env"][ttl_l] = ttl
            st["env"]["_1"] = self_
        n = 0
        for p in it.run(init, start="bb0", stop=(hdr,)):
            ob.paths += 1
            if p.status != "backedge":
                continue
            rt = events(p, "::resolve_timestamp")
            ob.must_hold(len(rt) == 1, "insert path: timestamp resolved once before the loop")
            if not rt:
                continue
            n += 1
            ts = it.ctx.uf("proj__0", [U], z3.BitVecSort(64))(it.as_u(rt[0].ret))
            exp = p.env.get(loc)
            ob.need(it, p.pc, exp == z3.If(z3.And(ttl != 0, ttl_on), _full_expiry(ts, ttl), z3.BitVecVal(0, 64)),
                    "insert path: expiry == (ttl > 0 && TTL enabled) ? saturating(ts + ttl*10^9) : 0")
        ob.must_hold(n >= 1, "insert path: the loop is reached")
        total_q += it.queries
        last = it
    # (2) record constructors in replace_record_if_current and counter_record
    for suffix, hint, ts_of in (("::replace_record_if_current", "src/core/store/atomic.rs", None), ("::counter_record", None, None)):
        g = mir.find(fns, suffix, hint)
        ttl_l = g.debug.get("ttl_seconds")
        ob.must_hold(ttl_l is not None, "%s: `ttl_seconds` found" % suffix)
        if not ttl_l:
            continue
        it = Interp(g, loop_bound=1, pure=PURE, max_paths=8000)
        ttl = z3.BitVec("ttl_seconds", 64)

        def init(it_, st, ttl_l=ttl_l, ttl=ttl):
            st["env"][ttl_l] = ttl
        seen_ttl = seen_plain = 0
        for p in it.run(init):
            ob.paths += 1
            if p.status not in ("return", "backedge"):
                continue
            for e in p.events:
                if e.kind != "call":
                    continue
                if any(e.callee.endswith(c) for c in TTL_CTORS):
                    seen_ttl += 1
                    ts, exp = e.args[-2], e.args[-1]
                    ob.need(it, e.pc, z3.And(ttl != 0, exp == _full_expiry(ts, ttl)), "%s: a record with expiry is built only for ttl > 0, with expiry == saturating(ts + ttl*10^9) of its own timestamp" % suffix[2:])
                elif any(e.callee.endswith(c) for c in PLAIN_CTORS):
                    seen_plain += 1
                    ob.need(it, e.pc, ttl == 0, "%s: a record without expiry is built only when no TTL was requested" % suffix[2:])
        ob.must_hold(seen_ttl >= 1 and seen_plain >= 1, "%s: both constructors were reached" % suffix[2:])
        total_q += it.queries
        last = it
    # (3) ttl::ttl_expiry
    h = mir.find(fns, "::ttl_expiry", None)
    it = Interp(h, loop_bound=1, pure=PURE)
    ts, ttl = z3.BitVec("timestamp", 64), z3.BitVec("ttl_seconds", 64)

    def init3(it_, st):
        st["env"]["_1"] = ts
        st["env"]["_2"] = ttl
    n = 0
    for p in it.run(init3):
        ob.paths += 1
        if p.status != "return":
            continue
        n += 1
        ob.need(it, p.pc, p.ret == z3.If(ttl == 0, z3.BitVecVal(0, 64), _full_expiry(ts, ttl)), "ttl_expiry(ts, ttl) == (ttl == 0 ? 0 : saturating(ts + ttl*10^9))")
    ob.must_hold(n >= 1, "ttl_expiry returns")
    total_q += it.queries
    ob.queries += total_q - it.queries
    return ob.result(it, witness="c11_expiry_model")


def site_retire_expired(fns):
    f = mir.find(fns, "::retire_expired_if_current", "src/core/store/internal.rs")
    ob = Ob("site_retire_expired_if_current", "lazy expiry removal: the entry is removed only under its guard when it IS the generation the caller saw "
            "(pointer identity), has an expiry (!= 0) and that expiry is before `now`; then exactly one record and size(current) are subtracted",
            "all paths", f)
    it = Interp(f, loop_bound=2, pure=PURE)
    now = z3.BitVec("now", 64)

    def init(it_, st):
        st["env"]["_4"] = now
    reached = 0
    for p in it.run(init):
        ob.paths += 1
        if p.status != "return":
            continue
        rem = events(p, "OccupiedEntry::remove")
        if not rem:
            ob.must_hold(not events(p, "::note_expired_record"), "nothing is un-counted when nothing is removed")
            continue
        reached += 1
        cur = guarded_entry_value(it, p)
        ob.must_hold(cur is not None, "removal under the entry guard")
        if cur is None:
            continue
        expected = it.read_local({"env": p.env}, "_3")
        ob.need(it, rem[0].pc, it.as_u(cur) == it.as_u(expected), "removed generation is the one the caller observed (ptr_eq)")
        loads = [e for e in events(p, "Atomic::load") if z3.is_bv(e.ret) and e.ret.size() == 64 and idx_of(p, e) < idx_of(p, rem[0])]
        ob.must_hold(len(loads) >= 1, "expiry is read under the guard")
        if loads:
            exp = loads[0].ret
            ob.need(it, rem[0].pc, z3.And(exp != 0, z3.ULT(exp, now)), "removed only with 0 < expiry < now")
        ne = events(p, "::note_expired_record")
        ob.must_hold(len(ne) == 1, "counters adjusted exactly once")
        if ne:
            calc = it.ctx.uf("fn:Record::calculate_size", [U], z3.BitVecSort(64))
            ob.need(it, p.pc, ne[0].args[1] == calc(it.as_u(cur)), "un-counts size(current entry)")
    ob.must_hold(reached >= 1, "the removal site was reached")
    return ob.result(it, witness=[("sampled generation", "c13_sweeper_identity"), ("under the guard", "c13_sweeper_identity"), ("ordered-index slot", "c11_sweeper_vs_recreation"), ("", "c11_expiry_model")])


# ============================================================================ C17: explicit panic sites in MIR
def panic_free(fns, f, oid, doc, bounds, pre=None, inline=(), loop_bound=1, max_paths=6000, witness=None):
    """every overflow/bounds `assert` terminator, every slice-indexing call and every fixed-size array
    conversion in the function's MIR is safe on every path, for arbitrary (havocked) bytes read from the buffer."""
    ob = Ob(oid, doc, bounds, f)
    inl = {}
    for name in inline:
        inl[name] = mir.find(fns, name, None)
    it = Interp(f, loop_bound=loop_bound, pure=PURE, inline=inl, slices=True, max_paths=max_paths)
    seen = set()

    def init(it_, st):
        if pre:
            pre(it_, st)
    for p in it.run(init):
        ob.paths += 1
        if p.status == "truncated":
            ob.truncated += 1
        for e in p.events:
            key = (e.kind, e.callee, tuple(str(a)[:80] for a in e.args), len(e.pc))
            if e.kind == "assert":
                if key in seen:
                    continue
                seen.add(key)
                ob.need(it, e.pc, e.args[0], "no panic: " + e.callee[:70])
            elif e.kind == "slice":
                if key in seen:
                    continue
                seen.add(key)
                base, start, end, blen = e.args
                ob.need(it, e.pc, z3.And(z3.ULE(start, end), z3.ULE(end, blen)), "slice %s in bounds" % e.callee)
            elif e.kind == "unwrap_array":
                if key in seen:
                    continue
                seen.add(key)
                d = it.ctx.disc(it.as_u(e.args[0]))
                ob.need(it, e.pc, d == 0, "conversion to [u8; %s] cannot fail" % e.callee)
    return ob.result(it, witness=witness)


def journal_entry_acceptance(fns):
    """decode_slot, one ARBITRARY entry of the extents loop: accepted iff 16 <= sector, sectors >= 1, sector + sectors <= total"""
    f = mir.find(fns, "::decode_slot", None)
    ob = Ob("c03_journal_entry_acceptance", "allocation_journal::decode_slot, one arbitrary journal entry: it is accepted (pushed) exactly when it lies in the data area "
            "and inside the device (16 <= sector, sectors >= 1, sector + sectors <= total_sectors) – an extent that ends exactly at the last block is valid – and "
            "rejected as CorruptedRecord otherwise", "one arbitrary iteration of the entry loop; all u32 field values", f)
    # header of the `for index in 0..count` loop: the block that calls Range::next
    hdr = None
    for bb, st in f.blocks.items():
        if "Range<usize> as Iterator>::next" in st[-1]:
            hdr = bb
    if hdr is None:
        raise mir.MirError("entry loop not found in decode_slot")
    inl = {"::journal_image_size": mir.find(fns, "::journal_image_size", None)}
    it = Interp(f, loop_bound=1, pure=PURE, inline=inl, slices=True)
    total = z3.BitVec("total_sectors", 64)

    def init(it_, st):
        st["env"]["_2"] = total
    accepted = rejected = 0
    for p in it.run(init, start=hdr, stop=(hdr,)):
        ob.paths += 1
        if p.status not in ("backedge", "return"):
            continue
        vals = [e.ret for e in p.events if e.kind == "call" and e.callee.endswith("from_le_bytes") and z3.is_bv(e.ret) and e.ret.size() == 32]
        if len(vals) < 2:
            continue
        sector = z3.ZeroExt(32, vals[0])
        sectors = z3.ZeroExt(32, vals[1])
        valid = z3.And(z3.UGE(sector, 16), z3.UGE(sectors, 1), z3.ULE(sector + sectors, total))
        push = events(p, "Vec::push")
        if p.status == "backedge" and push:
            accepted += 1
            ob.need(it, p.pc, valid, "an accepted entry is inside the data area and the device")
        elif p.status == "return" and not push:
            isok, _ = it.entails(p.pc, it.ctx.disc(it.as_u(p.ret)) == 0) if p.ret is not None else (False, None)
            if not isok:
                rejected += 1
                ob.need(it, p.pc, z3.Not(valid), "an entry is rejected only if it is NOT a valid in-device extent")
    ob.must_hold(accepted >= 1 and rejected >= 1, "accepting and rejecting paths of the entry loop were reached")
    return ob.result(it, witness="c03_journal_extent_at_device_end")


def _le_field_reads(p):
    """[(start, end, value)] for every `uN::from_le_bytes(data[start..end].try_into().unwrap())` on the path, in order"""
    by_ret = {}
    for e in p.events:
        if e.kind == "call" and getattr(e, "ret", None) is not None:
            by_ret[str(e.ret)] = e
    slices = {}
    last_slice = None
    for e in p.events:
        if e.kind == "slice":
            last_slice = e
        elif e.kind == "call" and "::index" in e.callee and last_slice is not None:
            slices[str(e.ret)] = last_slice
    out = []
    for e in p.events:
        if e.kind == "call" and e.callee.endswith("from_le_bytes") and z3.is_bv(e.ret):
            a = by_ret.get(str(e.args[0]))          # unwrap(tryinto)
            b = by_ret.get(str(a.args[0])) if a is not None else None   # try_into(slice)
            sl = slices.get(str(b.args[0])) if b is not None else None
            if sl is not None:
                out.append((sl.args[1], sl.args[2], e.ret, sl.args[0]))
    return out


def journal_slot_acceptance(fns):
    """decode_slot's header: a slot image is accepted exactly when the documented validity conditions hold, and the
    state handed back is the one parsed from the documented offsets"""
    f = mir.find(fns, "::decode_slot", None)
    ob = Ob("c03_journal_slot_acceptance", "allocation_journal::decode_slot, header part, every MIR path: the fields are read from the documented offsets of THIS slot "
            "(version 8..12, checksum 12..16, generation 16..24, state 24..28, count 28..32, complement 32..36); the slot gets past the header exactly when "
            "magic matches, version in {1,2}, generation != 0, count <= 1024, state in {CLEAR,ACTIVE} with CLEAR <=> count == 0, complement == !checksum and "
            "journal_checksum(data[..L]) == checksum with L = whole slot for version 1 and the compact image size ceil((40+8*count)/4096)*4096 for version 2; "
            "an Ok result carries the parsed generation, the caller's slot index and the vector the accepted entries were pushed to",
            "all values of the six header fields; the CRC and the magic comparison are havocked (any result); one arbitrary iteration of the entry loops", f)
    inl = {"::journal_image_size": mir.find(fns, "::journal_image_size", None)}
    it = Interp(f, loop_bound=1, pure=PURE, inline=inl, slices=True)
    data = z3.Const("data", U)
    slot = z3.BitVec("slot", 64)

    def init(it_, st):
        st["env"]["_1"] = data
        st["env"]["_3"] = slot
    past = rejected = oks = 0
    for p in it.run(init):
        ob.paths += 1
        if p.status == "truncated":
            ob.truncated += 1
        if p.status != "return":
            continue
        reads = _le_field_reads(p)
        fld = {}
        for (a, b, v, base) in reads:
            if z3.is_bv_value(a) and z3.is_bv_value(b) and z3.eq(it.as_u(base), data):
                fld.setdefault((a.as_long(), b.as_long()), v)
        ne = [e for e in p.events if e.kind == "call" and e.callee.endswith("::ne") or (e.kind == "call" and e.callee.endswith("::eq") and "PartialEq" in e.callee)]
        got_past = bool(events(p, "Vec::with_capacity"))
        crc = events(p, "journal_checksum")
        want = [(8, 12), (16, 24), (24, 28), (28, 32), (12, 16), (32, 36)]
        if got_past:
            past += 1
            if not ob.must_hold(all(k in fld for k in want) and len(ne) >= 1 and len(crc) == 1,
                                "a slot that gets past the header had all six fields read from the documented offsets of this slot, its magic compared and one checksum computed"):
                continue
        if not all(k in fld for k in want) or not ne or not crc:
            # early rejects: every condition evaluated so far must have been a failing one – handled below by the same formula
            pass
        ver = fld.get((8, 12)); gen = fld.get((16, 24)); state = fld.get((24, 28)); cnt = fld.get((28, 32))
        cks = fld.get((12, 16)); cmpl = fld.get((32, 36))
        conds = []
        if ne:
            nret = ne[0].ret
            conds.append(z3.Not(nret) if ne[0].callee.endswith("::ne") else nret)
            sl = [e for e in p.events if e.kind == "slice"]
            ob.must_hold(sl and z3.is_bv_value(sl[0].args[1]) and sl[0].args[1].as_long() == 0 and z3.is_bv_value(sl[0].args[2]) and sl[0].args[2].as_long() == 8
                         and "promoted" in str(ne[0].args[1]) + str(ne[0].args[0]),
                         "the magic comparison is over data[..8] against the constant")
        if ver is not None:
            conds.append(z3.Or(ver == 1, ver == 2))
        if gen is not None and state is not None and cnt is not None:
            conds.append(z3.And(gen != 0, z3.ULE(cnt, 1024), z3.Or(state == 0, state == 1), (state == 0) == (cnt == 0)))
        if cks is not None and cmpl is not None and crc:
            c64 = z3.ZeroExt(32, cnt)
            img = z3.UDiv(40 + 8 * c64 + 4095, z3.BitVecVal(4096, 64)) * 4096
            L = z3.If(ver == 1, z3.BitVecVal(12288, 64), img)
            conds.append(z3.And(cmpl == ~cks, crc[0].ret == cks))
            # which bytes were summed
            csl = None
            prev = None
            for e in p.events:
                if e.kind == "slice":
                    prev = e
                if e is crc[0]:
                    csl = prev
            if ob.must_hold(csl is not None and z3.eq(it.as_u(csl.args[0]), data), "the checksum is computed over a prefix of this slot"):
                ob.need(it, crc[0].pc, z3.And(csl.args[1] == 0, csl.args[2] == L),
                        "checksum image = data[..L], L = 12288 for version 1, ceil((40+8*count)/4096)*4096 for version 2")
        elif cks is not None and cmpl is not None:
            conds.append(cmpl == ~cks)
        valid = z3.And(*conds) if conds else z3.BoolVal(True)
        if got_past:
            ob.need(it, p.pc, valid, "a slot gets past the header only if every documented validity condition holds")
        else:
            rejected += 1
            isok, _ = it.entails(p.pc, it.ctx.disc(it.as_u(p.ret)) == 0) if p.ret is not None else (False, None)
            ob.must_hold(not isok, "a path that does not reach the entry loop returns Err")
            ob.need(it, p.pc, z3.Not(valid), "a slot is rejected in the header only if one of the conditions evaluated so far fails (no valid image is refused)")
        if got_past and p.ret is not None:
            isok, _ = it.entails(p.pc, it.ctx.disc(it.as_u(p.ret)) == 0)
            if isok:
                oks += 1
                js = it.ctx.tups.get(str(it.as_u(p.ret)))
                if isinstance(js, mir.Tup) and len(js.fields) == 3:
                    vec = events(p, "Vec::with_capacity")[0].ret
                    ob.need(it, p.pc, js.fields[0] == gen, "Ok carries the generation parsed from bytes 16..24")
                    ob.need(it, p.pc, js.fields[1] == slot, "Ok carries the caller's slot index")
                    ob.must_hold(z3.is_expr(js.fields[2]) and z3.eq(it.as_u(js.fields[2]), it.as_u(vec)), "Ok carries the vector of accepted entries (in journal order, not the sorted copy's allocation)")
                else:
                    ob.must_hold(False, "Ok(JournalState{generation, slot, extents}) aggregate not recognised")
    ob.must_hold(past >= 1 and rejected >= 5 and oks >= 1, "accepting, rejecting and Ok paths were reached (%d/%d/%d)" % (past, rejected, oks))
    return ob.result(it, witness="c03_journal_slot_selection")


def _closure_of(raw):
    m = re.search(r"(\{closure@[^}]*\})", raw)
    return mir.CLOSURES.get(m.group(1)) if m else None


def journal_slot_selection(fns):
    """decode: which of the two slots is believed"""
    f = mir.find(fns, "::decode", None)
    ob = Ob("c03_journal_slot_selection", "allocation_journal::decode: each slot i in 0..2 is the 3-block window data[i*12288..(i+1)*12288]; an all-zero slot is recorded as missing, "
            "any other slot goes through decode_slot(window, total_sectors, i) and is a candidate only if that returned Ok; the answer is the candidate with the "
            "GREATEST generation (max_by_key over `.generation`), else the LAST missing slot with generation 0 and no extents, else CorruptedRecord; a buffer "
            "that is not exactly 6 blocks is rejected before anything is read",
            "one arbitrary iteration of the slot loop (0 <= i < 2), then the selection; decode_slot, the iterator adaptors and the zero test are summarised "
            "(closure bodies are read from their own MIR)", f)
    it = Interp(f, loop_bound=1, pure=PURE, slices=True)
    data = z3.Const("data", U)
    total = z3.BitVec("total_sectors", 64)

    def init(it_, st):
        st["env"]["_1"] = data
        st["env"]["_2"] = total
    n_iter = n_ok = n_missing = n_err = 0
    for p in it.run(init):
        ob.paths += 1
        if p.status == "truncated":
            ob.truncated += 1
        if p.status != "return":
            continue
        caps = events(p, "Vec::with_capacity")
        if not caps:
            # length check failed
            ob.need(it, p.pc, it.len_of(data) != 6 * 4096, "returns before reading anything only when the buffer is not 6 blocks long")
            isok, _ = it.entails(p.pc, it.ctx.disc(it.as_u(p.ret)) == 1)
            ob.must_hold(isok, "a buffer of the wrong length is an error")
            continue
        ob.need(it, caps[0].pc, it.len_of(data) == 6 * 4096, "slots are read only from a 6-block buffer")
        if not ob.must_hold(len(caps) == 2, "two collections: candidates and missing slots"):
            continue
        valid_vec, missing_vec = caps[0].ret, caps[1].ret
        pushes = events(p, "Vec::push")
        dslot = events(p, "decode_slot")
        alls = [e for e in p.events if e.kind == "call" and e.callee.endswith("as Iterator>::all")]
        sl = [e for e in p.events if e.kind == "slice"]
        if alls:
            n_iter += 1
            rn = [e for e in p.events if e.kind == "call" and e.callee.endswith("Range<usize> as Iterator>::next")][0]
            i = it.ctx.uf("proj_Some_0", [U], z3.BitVecSort(64))(rn.ret)
            ob.need(it, alls[0].pc, z3.And(z3.ULT(i, 2)), "slot index in 0..2")
            if ob.must_hold(len(sl) == 1 and z3.eq(it.as_u(sl[0].args[0]), data), "one window of the journal buffer per slot"):
                ob.need(it, alls[0].pc, z3.And(sl[0].args[1] == i * 12288, sl[0].args[2] == i * 12288 + 12288), "window = data[i*12288 .. (i+1)*12288]")
            cf = _closure_of(alls[0].callee + " " + " ".join(str(a) for a in alls[0].args))
            okc = False
            if cf is not None:
                sub = Interp(cf, ctx=it.ctx, loop_bound=1, pure=PURE)
                b = z3.BitVec("byte", 8)

                def cinit(_it, sst, _cf=cf, _b=b):
                    sst["env"][_cf.args[1]] = _b
                rs = [r for r in sub.run(cinit) if r.status == "return"]
                if len(rs) == 1 and z3.is_bool(rs[0].ret):
                    okc, _ = it.entails(rs[0].pc, rs[0].ret == (b == 0))
            ob.must_hold(okc, "the missing-slot test is `every byte == 0`")
            allz = alls[0].ret
            if dslot:
                e = dslot[0]
                ob.need(it, e.pc, z3.Not(allz), "decode_slot is consulted only for a slot that is not all zero")
                ob.must_hold(z3.eq(it.as_u(e.args[0]), it.as_u([x for x in p.events if x.kind == "call" and "::index" in x.callee][0].ret)), "decode_slot reads this slot's window")
                ob.need(it, e.pc, z3.And(e.args[1] == total, e.args[2] == i), "decode_slot gets the device size and this slot's index")
                d = it.ctx.disc(it.as_u(e.ret))
                pv = [x for x in pushes if z3.eq(it.as_u(x.args[0]), it.as_u(valid_vec))]
                if pv:
                    n_ok += 1
                    ob.need(it, pv[0].pc, d == 0, "a candidate is pushed only for Ok")
                    ob.must_hold(z3.eq(it.as_u(pv[0].args[1]), it.as_u(it.ctx.uf("proj_Ok_0", [U], U)(it.as_u(e.ret)))), "the candidate is decode_slot's Ok payload")
                else:
                    n_err += 1
                    ob.need(it, p.pc, d != 0, "a slot that decoded Ok is never dropped")
                ob.must_hold(not [x for x in pushes if z3.eq(it.as_u(x.args[0]), it.as_u(missing_vec))], "a non-zero slot is never recorded as missing")
            else:
                n_missing += 1
                ob.need(it, p.pc, allz, "decode_slot is skipped only for an all-zero slot")
                pm = [x for x in pushes if z3.eq(it.as_u(x.args[0]), it.as_u(missing_vec))]
                if ob.must_hold(len(pm) == 1 and len(pushes) == 1, "an all-zero slot is recorded as missing, once, and is not a candidate"):
                    ob.need(it, pm[0].pc, pm[0].args[1] == i, "recorded with its own index")
        # selection
        mk = [e for e in p.events if e.kind == "call" and e.callee.endswith("::max_by_key")]
        if not ob.must_hold(len(mk) == 1 and z3.eq(it.as_u(mk[0].args[0]), it.as_u(valid_vec)), "the answer is chosen by max_by_key over the candidates"):
            continue
        cf = _closure_of(mk[0].callee + " " + " ".join(str(a) for a in mk[0].args))
        okk = False
        if cf is not None:
            sub = Interp(cf, ctx=it.ctx, loop_bound=1, pure=PURE)
            js = z3.Const("a_state", U)

            def kinit(_it, sst, _cf=cf, _js=js):
                sst["env"][_cf.args[1]] = _js
            rs = [r for r in sub.run(kinit) if r.status == "return"]
            if len(rs) == 1 and z3.is_bv(rs[0].ret):
                okk = z3.eq(rs[0].ret, it.ctx.uf("proj__0", [U], z3.BitVecSort(64))(js))
        ob.must_hold(okk, "the selection key is the state's generation (field 0 of JournalState)")
        d = it.ctx.disc(it.as_u(mk[0].ret))
        nb = [e for e in p.events if e.kind == "call" and (e.callee.endswith("::next_back") or e.callee.endswith("Iterator>::next") or e.callee.endswith("::last") or e.callee.endswith("::pop"))
              and e.args and z3.is_expr(e.args[0]) and z3.eq(it.as_u(e.args[0]), it.as_u(missing_vec))]
        isok, _ = it.entails(p.pc, it.ctx.disc(it.as_u(p.ret)) == 0)
        if not nb:
            ob.need(it, p.pc, d == 1, "the missing slots are skipped only when a candidate exists")
            ob.must_hold(isok, "with a candidate the answer is Ok")
            ob.need(it, p.pc, it.ctx.uf("proj_Ok_0", [U], U)(it.as_u(p.ret)) == it.ctx.uf("proj_Some_0", [U], U)(it.as_u(mk[0].ret)),
                    "with a candidate, the answer is Ok(the max_by_key winner)")
        else:
            ob.need(it, nb[0].pc, d == 0, "missing slots are consulted only when there is no candidate")
            ob.must_hold(nb[0].callee.endswith("::next_back") or nb[0].callee.endswith("::last") or nb[0].callee.endswith("::pop"),
                         "the LAST missing slot is taken (next_back over the missing list)")
            dn = it.ctx.disc(it.as_u(nb[0].ret))
            if isok:
                ob.need(it, p.pc, dn == 1, "Ok without a candidate needs a missing slot")
                js = it.ctx.tups.get(str(it.as_u(p.ret)))
                if ob.must_hold(isinstance(js, mir.Tup) and len(js.fields) == 3, "Ok(JournalState{..}) built in place"):
                    ob.need(it, p.pc, z3.And(js.fields[0] == 0, js.fields[1] == it.ctx.uf("proj_Some_0", [U], z3.BitVecSort(64))(it.as_u(nb[0].ret))), "generation 0 and the missing slot's index")
                    vn = events(p, "Vec::new")
                    ob.must_hold(len(vn) == 1 and z3.eq(it.as_u(js.fields[2]), it.as_u(vn[0].ret)), "no extents")
            else:
                ob.need(it, p.pc, dn == 0, "CorruptedRecord only when there is neither a candidate nor a missing slot")
    ob.must_hold(n_iter >= 3 and n_ok >= 1 and n_missing >= 1 and n_err >= 1, "slot iteration paths reached: Ok, Err and all-zero (%d/%d/%d)" % (n_ok, n_err, n_missing))
    return ob.result(it, witness="c03_journal_slot_selection")


def scan_epilogue(fns):
    f = mir.find(fns, "::scan_and_rebuild_indexes", "src/core/store/recovery.rs")
    ob = Ob("c04_scan_prologue_epilogue", "recovery scan outside its loop: the allocation journal is read and (unless read-only) REPLAYED before the first block is scanned; "
            "after the loop the collected dead extents go through the journaled DiskIO::retire_extents (never raw writes) and only when not read-only; the journal "
            "replay and the retirement are skipped entirely for a read-only open", "paths before the loop and after it (loop body skipped)", f)
    t = f.text
    hdr = None
    # loop header as in scan_iteration
    cands = []
    inc = {}
    for bb, st in f.blocks.items():
        if bb in f.cleanup:
            continue
        for tg in re.findall(r"bb\d+", st[-1]):
            inc.setdefault(tg, []).append(bb)
    for tg, srcs in inc.items():
        body = " ".join(f.blocks[tg])
        m = re.search(r"(_\d+) = copy (_\d+); (_\d+) = Lt\(move \1, copy (_\d+)\); switchInt", body)
        back = [x for x in srcs if int(x[2:]) > int(tg[2:])]
        if back and m:
            cands.append((len(back), tg))
    if not cands:
        raise mir.MirError("scan loop header not found")
    hdr = sorted(cands, reverse=True)[0][1]
    # (1) prologue: from bb0 up to the loop header
    it = Interp(f, loop_bound=1, pure=PURE, max_paths=4000)
    self_ = z3.Const("store", U)

    def init(it_, st):
        st["env"]["_1"] = self_
    # FeoxStore.read_only: the first bool field of `self` consulted after read_allocation_journal
    after = t[t.index("DiskIO::read_allocation_journal"):]
    mro = re.search(r"\(\(\*_1\)\.(\d+): bool\)", after)
    if not mro:
        raise mir.MirError("read_only field not found")
    ro = it.ctx.uf("proj__%s" % mro.group(1), [U], z3.BoolSort())(self_)
    pro = ro_paths = 0
    for p in it.run(init, stop=(hdr,), start="bb0"):
        ob.paths += 1
        if p.status != "backedge":
            continue
        pro += 1
        rj = events(p, "DiskIO::read_allocation_journal")
        rp = events(p, "DiskIO::replay_allocation_journal")
        ob.must_hold(len(rj) == 1, "the allocation journal is read before the scan starts")
        for e in rp:
            ob.must_hold(bool(rj) and idx_of(p, rj[0]) < idx_of(p, e), "replay after reading the journal")
            if rj:
                ob.need(it, e.pc, okd(it, rj[0]), "replay only when the journal was decoded")
            ob.need(it, e.pc, z3.Not(ro), "a read-only open never replays (writes) the journal")
        ob.must_hold(not events(p, "DiskIO::retire_extents") and not events(p, "DiskIO::write_sectors_sync"), "no other device write before the scan")
        # base case of the scan iteration's free-space invariant: at loop entry nothing is owned yet and last_end <= sector
        # (both start at the first data block), and – for the panic-freedom obligation – no ambiguous marker has been counted
        sl_, le_ = f.debug.get("sector"), f.debug.get("last_end")
        if ob.must_hold(sl_ in p.env and le_ in p.env and z3.is_bv(p.env[sl_]) and z3.is_bv(p.env[le_]), "sector and last_end are initialised before the loop"):
            ob.need(it, p.pc, z3.And(z3.ULE(p.env[le_], p.env[sl_]), z3.UGE(p.env[sl_], 16)), "loop entry: last_end <= sector and the scan starts in the data area (block >= 16)")
        # a read-only open does not replay the journal: it masks the journalled extents while scanning, with ONE forward pass over the
        # journal – which is only correct over entries in ascending sector order (decode returns them in on-disk order)
        if rj and it.sat(list(p.pc) + [ro]):
            ro_paths += 1
            so = [e for e in events(p, "sort_unstable_by_key") if idx_of(p, e) > idx_of(p, rj[0])]
            ob.must_hold(len(so) == 1, "a read-only open sorts the decoded journal by start sector before the masking scan")
            if so:
                key_fn = [fn for n, fn in fns.items() if n.endswith("scan_and_rebuild_indexes::{closure#0}")]
                ob.must_hold(len(key_fn) == 1 and re.search(r"_0 = copy \(\(\*_2\)\.0: u64\);", key_fn[0].text) is not None, "the sort key is the extent's start sector")
    ob.must_hold(pro >= 1, "the scan loop is reached from the prologue")
    ob.must_hold(ro_paths >= 1, "a read-only prologue path was explored")
    # (2) epilogue: enter at the header with the loop condition false
    it2 = Interp(f, loop_bound=1, pure=PURE, max_paths=4000)
    epi = 0
    exit_bb = None
    mm = re.search(r"switchInt\(move _\d+\) -> \[0: (bb\d+), otherwise: bb\d+\];", f.blocks[hdr][-1])
    if not mm:
        raise mir.MirError("loop exit edge not found")
    exit_bb = mm.group(1)

    def init2(it_, st):
        st["env"]["_1"] = self_
    for p in it2.run(init2, start=exit_bb):
        ob.paths += 1
        if p.status != "return":
            continue
        epi += 1
        re_ = events(p, "DiskIO::retire_extents")
        raw = events(p, "DiskIO::write_sectors_sync") + events(p, "DiskIO::retire_extents_unjournaled")
        ob.must_hold(not raw, "repairs never bypass the journaled retirement path")
        ret_ok, _ = it2.entails(p.pc, it2.ctx.disc(it2.as_u(p.ret)) == 0)
        ro2 = it2.ctx.uf("proj__%s" % mro.group(1), [U], z3.BoolSort())(self_)
        for e in re_:
            ob.need(it2, e.pc, z3.Not(ro2), "a read-only open never retires extents")
            if ret_ok:
                ob.need(it2, p.pc, okd(it2, e), "the scan reports success only when the repairs were made durable")
        # ONE repair transaction: stale duplicates found by the scan and expired winners found afterwards are retired by a single
        # journaled retire_extents call, so a crash inside recovery's own repairs can never retire an expired winner without the
        # older generation it shadowed (which would resurface at the next open)
        ob.must_hold(len(re_) <= 1, "the scan's repairs are one journaled transaction: at most one retire_extents call after the loop")
        xw = events(p, "::remove_expired_recovery_winners")
        for x in xw:
            ob.must_hold(not re_ or idx_of(p, x) < idx_of(p, re_[0]), "expired winners are collected before the single retirement transaction")
            if re_:
                ob.must_hold(any(z3.is_expr(a) and z3.is_expr(re_[0].args[-1]) and z3.eq(it2.as_u(a), it2.as_u(re_[0].args[-1])) for a in x.args),
                             "the expired-winner pass appends to the SAME queue that the retirement transaction retires")
            ob.must_hold(not any(z3.is_expr(a) and z3.is_expr(d) and z3.eq(it2.as_u(a), it2.as_u(d)) for a in x.args for d in [e.args[0] for e in re_]),
                         "the expired-winner pass is not handed the device (it performs no retirement of its own)")
    ob.must_hold(epi >= 1, "the epilogue was reached")
    ob.queries += it2.queries
    return ob.result(it, witness=[("read-only open", "c15_migration_is_faithful"), ("sort key", "c15_migration_is_faithful"), ("never replays", "c15_migration_is_faithful"),
                                  ("transaction", "c04_interrupted_recovery"), ("expired-winner pass", "c04_interrupted_recovery"),
                                  ("", "c04_recovery_repairs_only_dead_blocks")])


def c04(fns, tier, env):
    return finalize([site_replay_journal(fns), site_retire_extents(fns), scan_epilogue(fns), journal_slot_selection(fns), scan_iteration(fns)], env)


def c03(fns, tier, env):
    return finalize([scan_iteration(fns), journal_entry_acceptance(fns), journal_slot_acceptance(fns), journal_slot_selection(fns), site_write_batch_protocol(fns)] + io_protocol(fns), env)


def c17(fns, tier, env):
    slot = 3 * 4096

    def pre_slot(it, st):
        d = z3.Const("data", U)
        st["env"]["_1"] = d
        st["pc"].append(it.len_of(d) == z3.BitVecVal(slot, 64))
    out = [site_drop_guard(fns), site_file_is_all_zero(fns), panic_free(fns, mir.find(fns, "::decode_slot", None), "c17_decode_slot_panic_free",
                      "allocation_journal::decode_slot on ANY slot contents (every value parsed out of the buffer is havocked): no arithmetic-overflow panic, "
                      "no out-of-range slice of the slot (incl. the checksum image `data[..checksum_len]`), no failing fixed-size conversion, no out-of-bounds pair access",
                      "slot length = 3 blocks (the caller's contract); one arbitrary iteration of each loop (for index in 0..count with 0 <= index < count)",
                      pre=pre_slot, inline=("::journal_image_size",), witness="c17_journal_forged_count")]
    out += scan_iteration(fns, panics=True)
    return finalize(out, env)


# ============================================================================ generation-tagged cache use by the read path
def site_cache_lookups_tagged(fns):
    ob = Ob("site_cache_lookups_are_generation_tagged", "the store's read path consults the value cache only through get_for_record(key, RECORD BEING RESOLVED) "
            "and fills it only through insert_for_record: no store function calls the untagged ClockCache::get/insert/remove, and in resolve_record_value the "
            "record handed to the lookup closure is the function's own `record` argument", "all store function bodies (MIR text) + every path of resolve_record_value", None)
    store_fns = [f for n, f in fns.items() if "<impl at src/core/store/" in n]
    ob.must_hold(len(store_fns) > 40, "store function bodies found in the MIR dump")
    for f in store_fns:
        for untagged in ("ClockCache::get(", "ClockCache::insert(", "ClockCache::remove("):
            ob.must_hold(untagged not in f.text, "no untagged %s call in %s" % (untagged[:-1], f.name.rsplit("::", 2)[-1] if "closure" not in f.name else f.name[-60:]))
    f = mir.find(fns, "::resolve_record_value", "src/core/store/operations.rs")
    ob.fn = f
    it = Interp(f, loop_bound=1, pure=PURE)
    rec = z3.Const("record", U)
    key = z3.Const("key", U)

    def init(it_, st):
        st["env"]["_2"] = key
        st["env"]["_3"] = rec
    saw = 0
    for p in it.run(init):
        ob.paths += 1
        if p.status != "return":
            continue
        for e in p.events:
            if e.kind == "call" and e.callee.endswith("::and_then") and len(e.args) == 2 and isinstance(e.args[1], mir.Tup):
                saw += 1
                caps = e.args[1].fields
                ok = any(z3.is_expr(c) and c.sort() == U and it.entails(p.pc, c == rec)[0] for c in caps)
                ob.queries += len(caps)
                ob.must_hold(ok, "the cache-lookup closure captures the record being resolved")
        ld = events(p, "::load_value_from_disk")
        for e in ld:
            ob.need(it, p.pc, it.as_u(e.args[1]) == rec, "the disk read is made for the record being resolved")
    ob.must_hold(saw >= 1, "the cache lookup site was reached")
    g = mir.find(fns, "::resolve_record_value::{closure#0}", "src/core/store/operations.rs")
    it2 = Interp(g, loop_bound=1)
    k2, r2 = z3.Const("cap_key", U), z3.Const("cap_record", U)

    def init2(it_, st):
        st["env"]["_1"] = mir.Tup([k2, r2])
    for p in it2.run(init2):
        if p.status != "return":
            continue
        gf = events(p, "ClockCache::get_for_record")
        ob.must_hold(len(gf) == 1, "the lookup closure calls get_for_record exactly once")
        for e in gf:
            ob.need(it2, p.pc, z3.And(it2.as_u(e.args[1]) == k2, it2.as_u(e.args[2]) == r2), "lookup keyed by (key, captured record)")
    return ob.result(it, witness="c08_stale_cache_generation")


# ============================================================================ process_deletions: retirement protocol
def site_process_deletions(fns):
    f = mir.find(fns, "::process_deletions", None)
    ob = Ob("site_process_deletions", "write_buffer::process_deletions, every path (each loop: at most one arbitrary iteration): an old generation is queued for a "
            "retirement marker only if its successor is durable-or-deleted (C02), only after retire_extent() set RETIRED and extent_has_readers() then said no (C08); "
            "it goes straight to release only with a durable marker; it is dropped only when it never reached the disk (sector 0); a failing retire_extents() releases "
            "nothing and re-queues everything (C09); the second reader check guards the release (C08); DELETE_MARKER_DURABLE is stored only after retire_extents() "
            "returned Ok", "loops unrolled once; calls havocked", f)
    dbg = f.debug
    need = ["retries", "marker_writes", "release_operations", "marker_extents", "releasable"]
    for n in need:
        if n not in dbg:
            raise mir.MirError("local `%s` not found in process_deletions" % n)
    it = Interp(f, loop_bound=1, pure=PURE, max_paths=30000)
    consts = {}

    def vec_of(it_, st, name):
        return st["env"].get(dbg[name])
    npaths = marked = 0
    for p in it.run():
        ob.paths += 1
        if p.status == "truncated":
            ob.truncated += 1
        if p.status not in ("return", "truncated"):
            continue
        env = p.env
        ident = {n: env.get(dbg[n]) for n in need}

        def is_vec(term, name):
            v = ident.get(name)
            return v is not None and z3.is_expr(term) and z3.is_expr(v) and z3.eq(z3.simplify(it.as_u(term)), z3.simplify(it.as_u(v)))
        pushes = events(p, "Vec::push")
        succ = events(p, "Record::successor_is_durable_or_deleted")
        ret_ext = events(p, "Record::retire_extent")
        readers = events(p, "Record::extent_has_readers")
        retire = events(p, "DiskIO::retire_extents")
        stores = [e for e in events(p, "Atomic::store") if z3.is_bv(e.args[1]) and e.args[1].size() == 32]
        groups = events(p, "release_retirement_group")
        for e in ret_ext:
            prior = [s_ for s_ in succ if idx_of(p, s_) < idx_of(p, e)]
            ob.must_hold(bool(prior), "RETIRED is set only after the successor check")
            if prior:
                ob.need(it, e.pc, prior[-1].ret, "RETIRED is set only when the successor is durable or deleted")
        nexts = [e for e in p.events if e.kind == "call" and e.callee.endswith("Iterator>::next")]

        def in_iteration(ev_list, e):
            """events of ev_list that belong to the same loop iteration as e (after the last next() before e)"""
            starts = [idx_of(p, n) for n in nexts if idx_of(p, n) < idx_of(p, e)]
            lo = max(starts) if starts else -1
            return [x for x in ev_list if lo < idx_of(p, x) < idx_of(p, e)]
        for e in pushes:
            if is_vec(e.args[0], "marker_writes"):
                marked += 1
                s_l, r_l, h_l = in_iteration(succ, e), in_iteration(ret_ext, e), in_iteration(readers, e)
                ob.must_hold(bool(s_l) and bool(r_l) and bool(h_l), "marker queued only after successor check, retire_extent and reader check (same entry)")
                if s_l and r_l and h_l:
                    s_, r_, h_ = s_l[-1], r_l[-1], h_l[-1]
                    ob.must_hold(idx_of(p, s_) < idx_of(p, r_) < idx_of(p, h_), "order: successor check < set RETIRED < reader check < queue marker")
                    ob.need(it, e.pc, z3.And(s_.ret, z3.Not(h_.ret)), "marker queued only for a durable successor and no reader")
        if retire:
            r = retire[0]
            okp, _ = it.entails(p.pc, it.ctx.disc(it.as_u(r.ret)) == 0)
            errp, _ = it.entails(p.pc, it.ctx.disc(it.as_u(r.ret)) != 0)
            for e in stores:
                ob.must_hold(idx_of(p, e) > idx_of(p, r), "DELETE_MARKER_DURABLE stored only after retire_extents returned")
                ob.need(it, e.pc, it.ctx.disc(it.as_u(r.ret)) == 0, "DELETE_MARKER_DURABLE stored only when retire_extents returned Ok")
            if errp:
                ob.must_hold(not groups, "a failed retire_extents releases nothing")
                ob.must_hold(not stores, "a failed retire_extents marks nothing durable")
                ob.need(it, p.pc, it.ctx.disc(it.as_u(p.ret)) != 0, "a failed retire_extents is reported") if p.ret is not None else None
        for e in pushes:
            if is_vec(e.args[0], "releasable"):
                prior = in_iteration(readers, e)
                ob.must_hold(bool(prior), "release only after a reader check")
                if prior:
                    ob.need(it, e.pc, z3.Not(prior[-1].ret), "an extent is handed to the release step only with no reader")
        npaths += 1
    ob.must_hold(marked >= 1, "the marker-queueing site was reached")
    return ob.result(it, witness=[("successor", "c02_acknowledged_value_survives")])


# ============================================================================ process_write_batch: intent -> data -> fsync -> clear -> publish
def site_write_batch_protocol(fns):
    f = mir.find(fns, "::process_write_batch", None)
    ob = Ob("site_process_write_batch_protocol", "write_buffer::process_write_batch from the point where the batch's writes are assembled (state havocked): "
            "record.sector is stored and the in-memory value dropped ONLY on paths where the allocation-intent journal write returned Ok, then the record write "
            "(batch_write_bytes, which fsyncs) returned Ok, then the journal clear returned Ok – in that order; reservations are marked dirty before the first device "
            "call; on every path where one of these device calls failed the function returns failed_batch_outcome(..) and publishes no sector",
            "every path from the write phase on; retry loop unrolled once (3 attempts need loop bound 3: thorough)", f)
    start = None
    for bb, st in f.blocks.items():
        if "Vec::<(u64, bytes::Bytes)>::is_empty" in st[-1]:
            start = bb
    if start is None:
        raise mir.MirError("write phase of process_write_batch not found")
    it = Interp(f, loop_bound=1, pure=PURE, max_paths=60000)
    published = failed = 0
    journal_checked = False
    for p in it.run(start=start):
        ob.paths += 1
        if p.status == "truncated":
            ob.truncated += 1
        if p.status not in ("return", "truncated"):
            continue
        J = events(p, "DiskIO::write_allocation_journal")
        W = events(p, "DiskIO::batch_write_bytes")
        C = events(p, "DiskIO::clear_allocation_journal")
        D = events(p, "mark_reservation_dirty")
        F = events(p, "failed_batch_outcome")
        pub = [e for e in events(p, "Atomic::store") if len(e.args) > 1 and z3.is_bv(e.args[1]) and e.args[1].size() == 64] + events(p, "Record::clear_value")
        okd = lambda e: it.ctx.disc(it.as_u(e.ret)) == 0
        # ---- the intent journal covers EVERY prepared write of the batch with its whole extent
        if J and not journal_checked:
            journal_checked = True
            by_ret = {str(e.ret): e for e in p.events if e.kind == "call" and getattr(e, "ret", None) is not None and "Deref" not in e.callee}
            chain = []
            cur = J[0].args[1]
            for _ in range(8):
                e = by_ret.get(str(cur))
                if e is None or not e.args:
                    break
                chain.append(e)
                if e.callee.endswith("]>::iter") or e.callee.endswith("::iter"):
                    break
                cur = e.args[0]
            names = [e.callee.rsplit("::", 1)[-1].split(">")[0] for e in chain]
            dirty_iter = [e for e in p.events if e.kind == "call" and "Vec<PreparedWrite> as IntoIterator>::into_iter" in e.callee]
            ob.must_hold(len(chain) == 3 and "collect" in chain[0].callee and chain[1].callee.endswith("Iterator>::map") and chain[2].callee.endswith("::iter"),
                         "the journalled extents are prepared_writes.iter().map(..).collect(): one entry per prepared write, none filtered or skipped (chain: %s)" % names)
            if len(chain) == 3:
                ob.must_hold(bool(dirty_iter) and z3.eq(it.as_u(chain[2].args[0]), it.as_u(dirty_iter[0].args[0])) and bool(F or True),
                             "the journalled writes are the batch's prepared writes (the ones whose reservations were marked dirty)")
                cf = _closure_of(chain[1].callee + " " + " ".join(str(a) for a in chain[1].args))
                okc = False
                if cf is not None:
                    agg = re.search(r"= PreparedWrite \{ ([^}]*) \}", f.text)
                    fnames = [x.split(":")[0].strip() for x in agg.group(1).split(", ")] if agg else []
                    sub = Interp(cf, ctx=it.ctx, loop_bound=1, pure=PURE)
                    w = z3.Const("a_prepared_write", U)

                    def cinit(_it, sst, _cf=cf, _w=w):
                        sst["env"][_cf.args[1]] = _w
                    rs = [r for r in sub.run(cinit) if r.status == "return"]
                    if len(rs) == 1 and isinstance(rs[0].ret, mir.Tup) and len(rs[0].ret.fields) == 2 and "sector" in fnames and "sectors_needed" in fnames:
                        ex = [e for e in rs[0].events if e.kind == "call" and e.callee.endswith("::expect")]
                        sec_opt = it.ctx.uf("proj__%d" % fnames.index("sector"), [U], U)(w)
                        need = it.ctx.uf("proj__%d" % fnames.index("sectors_needed"), [U], z3.BitVecSort(64))(w)
                        okc = (len(ex) == 1 and z3.eq(it.as_u(ex[0].args[0]), sec_opt) and z3.eq(rs[0].ret.fields[0], ex[0].ret)
                               and z3.eq(rs[0].ret.fields[1], need))
                ob.must_hold(okc, "each journal entry is (the write's allocated sector, its sectors_needed): the whole extent")
        if W:
            ob.must_hold(bool(J) or any(e.kind == "call" and e.callee.endswith("Vec::is_empty") and "collect" in str(e.args[0]) for e in p.events),
                         "a record write is issued without an intent journal only if the journalled list was tested empty")
        for e in pub:
            published += 1
            ob.must_hold(bool(W) and idx_of(p, W[-1]) < idx_of(p, e), "sector published only after the record write was issued")
            if W:
                ob.need(it, e.pc, okd(W[-1]), "sector published only when the (last) record write returned Ok")
            if J:
                ob.must_hold(idx_of(p, J[0]) < (idx_of(p, W[0]) if W else 10**9), "intent journal written before the record write")
                ob.need(it, e.pc, okd(J[0]), "sector published only when the intent journal write returned Ok")
                ob.must_hold(bool(C) and (not W or idx_of(p, W[-1]) < idx_of(p, C[0])) and idx_of(p, C[0]) < idx_of(p, e),
                             "journal cleared after the record write and before the sector is published")
                if C:
                    ob.need(it, e.pc, okd(C[0]), "sector published only when the journal clear returned Ok")
        for d in D:
            first_dev = [idx_of(p, x) for x in J + W]
            if first_dev:
                ob.must_hold(idx_of(p, d) < min(first_dev), "reservations marked dirty before the first device call")
        for fe in F:
            failed += 1
            ob.must_hold(not pub, "a failed batch publishes no sector")
            ob.must_hold(idx_of(p, fe) == max(idx_of(p, x) for x in p.events if x.kind == "call"), "failed_batch_outcome is the last call (its outcome is returned)")
        if p.status == "return" and not F:
            # a path that returns without the failure handler saw no failed device call
            for e in J + W[-1:] + C:
                ob.need(it, p.pc, okd(e), "returning normally only when %s returned Ok" % e.callee.rsplit("::", 1)[-1])
    ob.must_hold(published >= 1 and failed >= 1, "both the publishing and the failure paths were reached")
    ob.must_hold(journal_checked, "the intent-journal construction was reached")
    return ob.result(it, witness=[("journal", "c03_torn_single_block_write"), ("", "c02_acknowledged_value_survives")])


# ============================================================================ C20: buffers handed to io_uring are owned by the in-flight registry
def site_batch_write_buffers(fns):
    f = mir.find(fns, "::batch_write_inner", "src/storage/io.rs")
    ob = Ob("site_batch_write_inner_buffers", "DiskIO::batch_write_inner (io_uring path), every MIR path with the chunk loops unrolled once: every buffer put into the in-flight "
            "registry OWNS its bytes – it is built from AlignedBuffer::new (direct I/O copy) or from BatchWriteData::retain_for_write (a Bytes clone / copy), never a borrow of "
            "the caller's payload, and the registry's element type carries no lifetime; the pointer and length of every submission entry come from registry slot i "
            "(InFlightBuffers::get(i).as_ptr()/len()); slot i is marked in flight BEFORE the entry is pushed to the submission queue and marked unqueued again when the push "
            "fails – so whatever the kernel may still read after an indeterminate failure is memory the registry leaks rather than frees (InFlightBuffers' own drop logic: Kani)",
            "loops unrolled once (one chunk, one buffer, one submission); io_uring calls havocked", f)
    it = Interp(f, loop_bound=1, pure=PURE, max_paths=20000)
    tys = [t for t in f.locals.values() if "InFlightBuffers<" in t]
    ob.must_hold(bool(tys) and all("PendingWriteBuffer<'" not in t and "&" not in t.split("InFlightBuffers<", 1)[1] for t in tys),
                 "the in-flight registry holds an owning buffer type (no lifetime / reference in InFlightBuffers<..>): %s" % sorted(set(tys))[:2])
    pushes = subs = 0
    for p in it.run():
        ob.paths += 1
        if p.status == "truncated":
            ob.truncated += 1
        regs = [e for e in p.events if e.kind == "call" and e.callee.endswith("InFlightBuffers::with_capacity")]
        owning = [e for e in p.events if e.kind == "call" and (e.callee.endswith("AlignedBuffer::new") or e.callee.endswith("::retain_for_write"))]
        borrowed = [e for e in p.events if e.kind == "call" and (e.callee.endswith("::as_slice") or e.callee.endswith("::as_ref") or e.callee.endswith("::deref"))]
        for e in p.events:
            if e.kind == "call" and e.callee.endswith("InFlightBuffers::push"):
                pushes += 1
                buf = it.as_u(e.args[1])
                pay = [it.ctx.uf("proj_%s_0" % v, [U], U)(buf) for v in ("Aligned", "Shared", "Borrowed", "Owned")]
                src_ok = False
                for o in owning:
                    if idx_of(p, o) > idx_of(p, e):
                        continue
                    cands = [it.as_u(o.ret), it.ctx.uf("proj_Ok_0", [U], U)(it.as_u(o.ret))]
                    for pl in pay:
                        for c_ in cands:
                            ok_, _ = it.entails(e.pc, pl == c_)
                            src_ok = src_ok or ok_
                    # AlignedBuffer::new(..)? goes through Try::branch: the Continue payload
                    for b in [x for x in p.events if x.kind == "call" and x.callee.endswith("Try>::branch") and z3.is_expr(x.args[0]) and z3.eq(it.as_u(x.args[0]), it.as_u(o.ret))]:
                        for pl in pay:
                            ok_, _ = it.entails(e.pc, pl == it.ctx.uf("proj_Continue_0", [U], U)(it.as_u(b.ret)))
                            src_ok = src_ok or ok_
                ob.must_hold(src_ok, "a registered buffer is the result of AlignedBuffer::new or retain_for_write (an owning copy/clone), not a view of the caller's data")
                ob.must_hold(not any(contains(buf, it.as_u(b.ret)) for b in borrowed if not z3.eq(it.as_u(b.ret), it.as_u(b.args[0]))) or src_ok,
                             "no borrowed slice is stored in the registry")
                prior = [r for r in regs if idx_of(p, r) < idx_of(p, e)]
                ob.must_hold(bool(prior) and z3.eq(it.as_u(e.args[0]), it.as_u(prior[-1].ret)), "buffers are registered in this chunk's registry")
            if e.kind == "call" and e.callee.endswith("opcode::Write::new"):
                subs += 1
                by_ret = {str(x.ret): x for x in p.events if x.kind == "call" and getattr(x, "ret", None) is not None}
                ptr = by_ret.get(str(e.args[1]))
                if not ob.must_hold(ptr is not None and ptr.callee.endswith("PendingWriteBuffer::as_ptr"), "the submitted pointer is PendingWriteBuffer::as_ptr() of a registry slot"):
                    continue
                slot = by_ret.get(str(ptr.args[0]))
                if not ob.must_hold(slot is not None and slot.callee.endswith("InFlightBuffers::get"), "the submitted buffer is InFlightBuffers::get(i)"):
                    continue
                ob.must_hold(contains(e.args[2], [x for x in p.events if x.kind == "call" and x.callee.endswith("PendingWriteBuffer::len") and z3.eq(it.as_u(x.args[0]), it.as_u(slot.ret))][0].ret)
                             if [x for x in p.events if x.kind == "call" and x.callee.endswith("PendingWriteBuffer::len") and z3.eq(it.as_u(x.args[0]), it.as_u(slot.ret))] else False,
                             "the submitted length is the same slot's len()")
                reg, i = slot.args[0], slot.args[1]
                after = p.events[idx_of(p, e):]
                mif = [x for x in after if x.kind == "call" and x.callee.endswith("InFlightBuffers::mark_in_flight")]
                sqp = [x for x in after if x.kind == "call" and x.callee.endswith("SubmissionQueue::push")]
                if not sqp:
                    continue
                if ob.must_hold(bool(mif) and idx_of(p, mif[0]) < idx_of(p, sqp[0]), "slot marked in flight before the entry is pushed to the submission queue"):
                    ob.must_hold(z3.eq(it.as_u(mif[0].args[0]), it.as_u(reg)), "mark_in_flight on the registry the buffer came from")
                    ob.need(it, mif[0].pc, mif[0].args[1] == i, "mark_in_flight(i) for the submitted slot i")
                ise = [x for x in after if x.kind == "call" and x.callee.endswith("Result::is_err") and z3.eq(it.as_u(x.args[0]), it.as_u(sqp[0].ret))]
                muq = [x for x in after if x.kind == "call" and x.callee.endswith("InFlightBuffers::mark_unqueued")]
                if ise and (p.status in ("return", "truncated", "backedge")):
                    failed_push, _ = it.entails(p.pc, ise[0].ret)
                    ok_push, _ = it.entails(p.pc, z3.Not(ise[0].ret))
                    if failed_push:
                        if ob.must_hold(bool(muq), "a slot whose submission entry could not be queued is marked unqueued (it is freed, not leaked)"):
                            ob.need(it, muq[0].pc, muq[0].args[1] == i, "mark_unqueued(i) for that slot")
                    elif ok_push:
                        ob.must_hold(not muq or idx_of(p, muq[0]) > idx_of(p, sqp[-1]), "a queued slot is not marked unqueued")
    ob.must_hold(pushes >= 2 and subs >= 1, "buffer registration (both I/O modes) and submission sites were reached (%d/%d)" % (pushes, subs))
    return ob.result(it, witness="c20_inflight_buffers_own_their_bytes")


# ============================================================================ C18: the read path's stale-extent retry loop is bounded
def site_resolve_value_bounded(fns):
    f = mir.find(fns, "::resolve_value", "src/core/store/operations.rs")
    ob = Ob("site_resolve_value_retry_is_bounded", "FeoxStore::resolve_value (behind get, get_bytes, range_query, CAS, increment, patch), one ARBITRARY iteration of its stale-read retry "
            "loop with every local havocked: every path that comes back to the loop header has consumed one element of the bounded iterator 0..STALE_READ_RETRY_LIMIT that was built "
            "before the loop (or strictly increased an integer counter) – whatever the device and the hash table answer, including the SAME generation being found stale again – "
            "so a read terminates with a value, KeyNotFound or StaleExtent after at most STALE_READ_RETRY_LIMIT attempts",
            "one iteration from an arbitrary state; callees havocked (each may return anything)", f)
    hdr = main_loop_header(f)
    if hdr is None:
        raise mir.MirError("retry loop not found in resolve_value")
    it = Interp(f, loop_bound=1, pure=PURE, slices=True, max_paths=4000)
    ints = [l for l, t in f.locals.items() if t.strip() in ("usize", "u64", "u32", "i32", "u8", "u16")]
    init_vals = {}

    def init(it_, st):
        for l in ints:
            w = {"usize": 64, "u64": 64, "u32": 32, "i32": 32, "u16": 16, "u8": 8}[f.locals[l].strip()]
            v = z3.BitVec("pre" + l, w)
            init_vals[l] = v
            st["env"][l] = v
    back = 0
    for p in it.run(init, start=hdr, stop=(hdr,)):
        ob.paths += 1
        if p.status == "truncated":
            ob.truncated += 1
        if p.status != "backedge":
            continue
        back += 1
        rn = [e for e in p.events if e.kind == "call" and e.callee.endswith("Range<usize> as Iterator>::next")]
        rebuilt = [e for e in p.events if e.kind == "call" and e.callee.endswith("IntoIterator>::into_iter") and "Range<usize>" in e.callee]
        if rn and not rebuilt:
            ob.need(it, p.pc, it.ctx.disc(it.as_u(rn[0].ret)) == 1, "the iteration ran because the bounded range still had an element")
            continue
        prog = False
        for l in ints:
            v1 = p.env.get(l)
            if v1 is None or not z3.is_bv(v1) or z3.eq(v1, init_vals[l]):
                continue
            okk, _ = it.entails(p.pc, z3.UGT(v1, init_vals[l]))
            prog = prog or okk
        ob.must_hold(prog, "a retry that comes back to the loop header consumed retry budget (bounded iterator element or strictly increased counter)")
    ob.must_hold(back >= 1, "a retrying path was reached")
    # the budget itself: the range is 0..STALE_READ_RETRY_LIMIT, a constant
    ob.must_hold(re.search(r"Range::<usize> \{ start: const 0_usize, end: const [\w:]*STALE_READ_RETRY_LIMIT \}", f.text) is not None
                 or re.search(r"Lt\(.*const [\w:]*STALE_READ_RETRY_LIMIT\)", f.text) is not None, "the retry budget is the constant STALE_READ_RETRY_LIMIT")
    return ob.result(it, witness="c18_read_of_clobbered_record_terminates")


# ============================================================================ C05: the allocation loop of process_write_batch
def site_write_batch_allocation(fns):
    f = mir.find(fns, "::process_write_batch", None)
    ob = Ob("site_process_write_batch_allocation", "write_buffer::process_write_batch, one ARBITRARY iteration of the allocation loop (state havocked): a prepared write that "
            "already holds a reservation reuses exactly that sector and allocates nothing; otherwise allocate_sectors is asked for THIS write's sectors_needed and, only on Ok, "
            "the sector is reserved on this write's entry, disk_usage grows by sectors_needed*4096, the write remembers the sector, and the batch gets exactly one device write "
            "(that sector, this write's own data, token stamped for that sector first when the format has tokens); on allocation failure nothing is queued for the device in this "
            "iteration, the allocator lock is dropped before release_allocations gives back what the batch had taken, and the error is returned",
            "one iteration of `for index in 0..prepared_writes.len()` from an arbitrary state", f)
    hdrs = [bb for bb, st in f.blocks.items() if "Range<usize> as Iterator>::next" in st[-1]]
    if len(hdrs) != 1:
        raise mir.MirError("allocation loop header not found (%d candidates)" % len(hdrs))
    agg = re.search(r"= PreparedWrite \{ ([^}]*) \}", f.text)
    fn_ = [x.split(":")[0].strip() for x in agg.group(1).split(", ")] if agg else []
    if not all(n in fn_ for n in ("data", "sectors_needed", "entry", "sector")):
        raise mir.MirError("PreparedWrite fields not found")
    F = {n: fn_.index(n) for n in fn_}
    it = Interp(f, loop_bound=1, pure=PURE, max_paths=20000)
    fresh_n = reuse_n = fail_n = 0
    for p in it.run(None, start=hdrs[0], stop=(hdrs[0],)):
        ob.paths += 1
        if p.status == "truncated":
            ob.truncated += 1
        if p.status not in ("backedge", "return"):
            continue
        rn = [e for e in p.events if e.kind == "call" and e.callee.endswith("Range<usize> as Iterator>::next")]
        if not rn:
            continue
        i = it.ctx.uf("proj_Some_0", [U], z3.BitVecSort(64))(it.as_u(rn[0].ret))
        elems = [e for e in p.events if e.kind == "call" and e.callee.startswith("<Vec<PreparedWrite> as") and ("Index<usize>>::index" in e.callee or "IndexMut<usize>>::index_mut" in e.callee)]
        if not elems:
            continue     # the range was exhausted: the write phase follows (site_process_write_batch_protocol)
        # the same (vector, index) denotes the same element
        eqs = []
        for e in elems:
            ob.need(it, e.pc, e.args[1] == i, "the loop touches only prepared_writes[index]")
            eqs.append(it.as_u(e.ret) == it.as_u(elems[0].ret))
        el = it.as_u(elems[0].ret)
        need = it.ctx.uf("proj__%d" % F["sectors_needed"], [U], z3.BitVecSort(64))(el)
        entry = it.ctx.uf("proj__%d" % F["entry"], [U], U)(el)
        data = it.ctx.uf("proj__%d" % F["data"], [U], U)(el)
        secopt = it.ctx.uf("proj__%d" % F["sector"], [U], U)(el)
        al = events(p, "FreeSpaceManager::allocate_sectors")
        rs = events(p, "reserve_sector")
        fa = [e for e in events(p, "Atomic::fetch_add") if z3.is_bv(e.args[1]) and e.args[1].size() == 64]
        pushes = [e for e in events(p, "Vec::push") if isinstance(e.args[1], mir.Tup) and len(e.args[1].fields) == 2]
        rel = events(p, "release_allocations")
        pc = list(p.pc) + eqs
        if p.status == "backedge":
            if not ob.must_hold(len(pushes) == 1, "a completed iteration queues exactly one device write"):
                continue
            psec, pdat = pushes[0].args[1].fields
            tk = [e for e in p.events if e.kind == "call" and e.callee.endswith("mem::take")]
            ob.must_hold(len(tk) == 1 and z3.is_expr(tk[0].args[0]) and it.entails(pc, it.as_u(tk[0].args[0]) == data)[0], "the queued bytes are taken from THIS write's data buffer")
            st_ = events(p, "stamp_seq_token")
            if al:
                fresh_n += 1
                ok_sec = it.ctx.uf("proj_Ok_0", [U], z3.BitVecSort(64))(it.as_u(al[0].ret))
                ob.need(it, pc, it.ctx.disc(it.as_u(al[0].ret)) == 0, "a device write is queued only when the allocation succeeded")
                ob.need(it, list(al[0].pc) + eqs, al[0].args[1] == need, "allocate_sectors is asked for this write's sectors_needed")
                ob.need(it, list(al[0].pc) + eqs, it.ctx.disc(secopt) == 0, "a fresh allocation happens only for a write without a reservation")
                if ob.must_hold(len(rs) == 1, "the allocated sector is reserved exactly once"):
                    ob.need(it, pc, z3.And(it.as_u(rs[0].args[0]) == entry, rs[0].args[1] == ok_sec), "reserve_sector(this write's entry, the allocated sector)")
                if ob.must_hold(len(fa) == 1, "disk_usage is adjusted exactly once"):
                    ob.need(it, pc, fa[0].args[1] == need * z3.BitVecVal(4096, 64), "disk_usage += sectors_needed * 4096")
                ws = [e for e in p.events if e.kind == "write" and e.callee.endswith(".%d" % F["sector"])]
                if ob.must_hold(len(ws) == 1, "the write remembers its sector"):
                    ob.need(it, pc, z3.And(it.ctx.disc(it.as_u(ws[0].args[1])) == 1, it.ctx.uf("proj_Some_0", [U], z3.BitVecSort(64))(it.as_u(ws[0].args[1])) == ok_sec),
                            "prepared_writes[index].sector = Some(allocated sector)")
                ob.need(it, pc, psec == ok_sec, "the device write goes to the allocated sector")
            else:
                reuse_n += 1
                ob.need(it, pc, z3.And(it.ctx.disc(secopt) == 1, psec == it.ctx.uf("proj_Some_0", [U], z3.BitVecSort(64))(secopt)),
                        "without an allocation the device write goes to the write's existing reservation")
                ob.must_hold(not rs and not fa, "reusing a reservation reserves nothing and does not touch disk_usage")
            for e in st_:
                ob.need(it, pc, z3.And(it.as_u(e.args[0]) == data, e.args[1] == psec), "the token is stamped on this write's data for the sector it is written to")
                ob.must_hold(idx_of(p, e) < idx_of(p, tk[0]) if tk else False, "stamped before the bytes are handed to the batch")
        elif al:
            failed, _ = it.entails(p.pc, it.ctx.disc(it.as_u(al[0].ret)) != 0)
            if failed:
                fail_n += 1
                ob.must_hold(not pushes and not rs and not fa, "a failed allocation queues, reserves and counts nothing")
                dr = [e for e in p.events if (e.kind == "drop" and "FreeSpaceManager" in e.callee) or
                      (e.kind == "call" and "drop" in e.callee.rsplit("::", 1)[-1] and "FreeSpaceManager" in getattr(e, "raw", e.callee))]
                if ob.must_hold(len(rel) == 1, "what the batch had allocated is rolled back once"):
                    ob.must_hold(bool(dr) and idx_of(p, dr[0]) < idx_of(p, rel[0]), "the allocator write lock is dropped before release_allocations takes it again")
                ob.must_hold(not events(p, "DiskIO::batch_write_bytes") and not events(p, "DiskIO::write_allocation_journal"), "no device call after a failed allocation")
    ob.must_hold(fresh_n >= 1 and reuse_n >= 1 and fail_n >= 1, "fresh-allocation, reuse and failure iterations were reached (%d/%d/%d)" % (fresh_n, reuse_n, fail_n))
    return ob.result(it, witness="c13_model_accounting_and_reopen+c02_flush_covers_requeued_writes")


def site_process_completions(fns):
    f = mir.find(fns, "::process_completions", None)
    ob = Ob("site_process_completions_step", "io.rs process_completions, one ARBITRARY completion-queue entry (state havocked): an entry is attributed to registry slot user_data - base only when "
            "that index is below the number of queued submissions of THIS batch (a stale or foreign completion touches no buffer); the slot is released through mark_complete and counted "
            "only when mark_complete accepted it (a duplicate completion neither frees a buffer twice nor is counted twice); completed_count grows by exactly one per accepted entry; the "
            "result is validated against the length of the SAME slot's buffer and only the first error is kept", "one iteration of the completion loop from an arbitrary state", f)
    hdr = main_loop_header(f)
    if hdr is None:
        raise mir.MirError("completion loop not found")
    it = Interp(f, loop_bound=1, pure=PURE)
    base, queued = z3.BitVec("user_data_base", 64), z3.BitVec("queued", 64)
    reg = z3.Const("buffers", U)

    def init(it_, st):
        st["env"]["_2"] = base
        st["env"]["_3"] = queued
        st["env"]["_4"] = reg
    counted = skipped = 0
    for p in it.run(init, start=hdr, stop=(hdr,)):
        ob.paths += 1
        if p.status != "backedge":
            continue
        ud = events(p, "cqueue::Entry::user_data")
        mc = events(p, "InFlightBuffers::mark_complete")
        cnt = [e for e in p.events if e.kind == "write" and e.callee == "deref" and z3.is_bv(e.args[1]) and e.args[1].size() == 64]
        gt = events(p, "InFlightBuffers::get")
        val = events(p, "validate_write_completion")
        if not ob.must_hold(len(ud) == 1, "the entry's user_data is read"):
            continue
        idx = ud[0].ret - base
        if not mc:
            skipped += 1
            ob.need(it, p.pc, z3.UGE(idx, queued), "an entry is ignored without consulting the registry only when its index is not below `queued`")
            ob.must_hold(not cnt and not gt and not val, "an ignored entry changes nothing")
            continue
        ob.need(it, mc[0].pc, z3.ULT(idx, queued), "the registry is consulted only for an index below the number of queued submissions")
        ob.need(it, mc[0].pc, mc[0].args[1] == idx, "the slot is user_data - user_data_base")
        ob.must_hold(z3.eq(it.as_u(mc[0].args[0]), reg), "the slot belongs to this batch's registry")
        if cnt:
            counted += 1
            ob.need(it, p.pc, mc[0].ret, "a completion is counted only when mark_complete accepted it (first completion of an in-flight slot)")
            ob.must_hold(len(cnt) >= 1 and z3.is_bv(cnt[0].args[0]) and it.entails(p.pc, cnt[0].args[1] == cnt[0].args[0] + 1)[0], "completed_count += 1")
            for g in gt:
                ob.need(it, p.pc, g.args[1] == idx, "the length used for validation is the SAME slot's buffer length")
            for v in val:
                ln = [e for e in p.events if e.kind == "call" and e.callee.endswith("PendingWriteBuffer::len") and z3.is_expr(v.args[1]) and z3.eq(e.ret, v.args[1])]
                ob.must_hold(bool(gt) and len(ln) == 1 and z3.eq(it.as_u(ln[0].args[0]), it.as_u(gt[0].ret)), "validate_write_completion(result, len of that slot's buffer)")
                isn = events(p, "Option::is_none")
                ob.must_hold(bool(isn) and idx_of(p, isn[0]) < idx_of(p, v), "only the first error is kept")
        else:
            ob.need(it, p.pc, z3.Not(mc[0].ret), "an entry is dropped after mark_complete only when mark_complete rejected it (duplicate / not in flight)")
            ob.must_hold(not gt and not val, "a rejected entry is not validated or counted")
    ob.must_hold(counted >= 2 and skipped >= 1, "counted and ignored entries were reached (%d/%d)" % (counted, skipped))
    return ob.result(it, witness="c20_inflight_buffers_own_their_bytes")


def site_worker_final_flush(fns):
    f = mir.find(fns, "write_buffer_worker", None)
    ob = Ob("site_write_buffer_worker", "write_buffer::write_buffer_worker: (main loop, every path) a request is served by flush_worker_shards(ctx, format, !defer_retirements) and, when the "
            "requester waits, the result of THAT call is sent back – force_flush is never left without an answer; the worker leaves the loop only on shutdown or a disconnected channel; "
            "(after the loop) on shutdown the worker runs a final flush with retirements before it exits; (final-flush loop, one ARBITRARY iteration) the loop ends at once on Ok(false), on an "
            "indeterminate or non-retryable error; every other outcome increments `retries`, and the loop is left when retries reaches FINAL_FLUSH_RETRY_LIMIT – so Drop's join terminates",
            "main loop unrolled once; one arbitrary iteration of the final-flush loop", f)
    it = Interp(f, loop_bound=1, pure=PURE, max_paths=8000)
    served = finals = 0
    for p in it.run():
        ob.paths += 1
        if p.status == "truncated":
            ob.truncated += 1
        fl = events(p, "flush_worker_shards")
        snd = [e for e in p.events if e.kind == "call" and e.callee.endswith("Sender::send")]
        rcv = [e for e in p.events if e.kind == "call" and e.callee.endswith("Receiver::recv_timeout")]
        for sd in snd:
            served += 1
            prior = [e for e in fl if idx_of(p, e) < idx_of(p, sd)]
            ob.must_hold(bool(prior) and any(z3.is_expr(a) and z3.eq(it.as_u(a), it.as_u(prior[-1].ret)) for a in sd.args[1:]) or (bool(prior) and contains(sd.args[-1], it.as_u(prior[-1].ret))),
                         "the answer sent to the waiting flusher is the result of the flush that served its request")
        if p.status == "return":
            loads = [e for e in events(p, "Atomic::load") if z3.is_bool(e.ret)]
            if loads:
                sd_true, _ = it.entails(p.pc, loads[-1].ret)
                if sd_true:
                    finals += 1
                    after = [e for e in fl if idx_of(p, e) > idx_of(p, loads[-1])]
                    ob.must_hold(bool(after), "a worker that exits on shutdown ran a final flush first")
                    for e in after:
                        ob.need(it, e.pc, e.args[2] if z3.is_bool(e.args[2]) else z3.BoolVal(False), "the final flush also flushes retirements")
            # leaving the main loop: shutdown seen or channel disconnected
            if not fl and rcv:
                d = it.ctx.disc(it.as_u(rcv[-1].ret))
                ob.need(it, p.pc, d != 0, "without shutdown the worker exits only when receiving failed (disconnected)")
    ob.must_hold(served >= 1 and finals >= 1, "serving and final-flush paths were reached (%d/%d)" % (served, finals))
    # ---- final-flush loop, one arbitrary iteration
    calls = sorted((int(bb[2:]), bb) for bb, st in f.blocks.items() if "flush_worker_shards(" in st[-1] and bb not in f.cleanup)
    hdr = calls[-1][1] if len(calls) >= 2 else None      # the second call site: the final flush after the main loop
    if hdr is None or "retries" not in f.debug:
        raise mir.MirError("final-flush loop not found")
    rl = f.debug["retries"]
    it2 = Interp(f, loop_bound=1, pure=PURE, max_paths=8000)
    r0 = z3.BitVec("retries0", 32 if "32" in f.locals.get(rl, "") else 64)

    def init(it_, st):
        st["env"][rl] = r0
    back = exits = 0
    lim = None
    for p in it2.run(init, start=hdr, stop=(hdr,)):
        ob.paths += 1
        fl = events(p, "flush_worker_shards")
        if not fl:
            continue
        ob.need(it2, fl[0].pc, fl[0].args[2] if z3.is_bool(fl[0].args[2]) else z3.BoolVal(False), "every attempt of the final flush also flushes retirements")
        res = it2.as_u(fl[0].ret)
        okd_ = it2.ctx.disc(res) == 0
        done = z3.And(okd_, z3.Not(it2.ctx.uf("proj_Ok_0", [U], z3.BoolSort())(res)))
        r1 = p.env.get(rl)
        if p.status == "backedge":
            back += 1
            ob.need(it2, p.pc, z3.Not(done), "the final flush is repeated only when something was left (Ok(true)) or it failed")
            ob.need(it2, p.pc, r1 == r0 + 1, "every repetition consumes one retry")
            sl = events(p, "thread::sleep")
            ob.must_hold(len(sl) == 1, "a repetition backs off once")
        elif p.status == "return":
            exits += 1
            if z3.is_bv(r1) and not z3.eq(r1, r0):
                ob.need(it2, p.pc, r1 == r0 + 1, "an exit after a failed attempt counted that attempt")
    ob.must_hold(back >= 2 and exits >= 3, "repeating and exiting iterations were reached (%d/%d)" % (back, exits))
    ob.must_hold(len(re.findall(r"Eq\(move _\d+, const [\w:]*FINAL_FLUSH_RETRY_LIMIT\)", f.text)) >= 2, "both retry branches compare `retries` with FINAL_FLUSH_RETRY_LIMIT")
    ob.queries += it2.queries
    return ob.result(it, witness="c02_acknowledged_value_survives+c13_model_accounting_and_reopen")


def site_insert_if_absent_exclusive(fns):
    f = mir.find(fns, "::insert_if_absent", "src/core/store/atomic.rs")
    ob = Ob("site_insert_if_absent_exclusive", "insert_if_absent, every path: the existence test and the creation happen under ONE hash-table entry guard (a single HashMap::entry call); the call "
            "answers Ok(true) exactly on the paths where it created the entry in the Vacant arm, and Ok(false) exactly on the Occupied arm, where it has no effect at all (no reservation, no "
            "entry, no index, counter or write-buffer change) – given that the scc entry guard serialises callers on one key, exactly one of several racing callers creates it",
            "all paths", f)
    it = Interp(f, loop_bound=1, pure=PURE, max_paths=4000)
    t_n = f_n = 0
    for p in it.run():
        ob.paths += 1
        if p.status != "return" or p.ret is None:
            continue
        ent = events(p, "HashMap::entry")
        ins = events(p, "VacantEntry::insert_entry")
        okr, _ = it.entails(p.pc, it.ctx.disc(it.as_u(p.ret)) == 0)
        if not okr:
            ob.must_hold(not ins or bool(events(p, "WriteBuffer::add_write")), "an error after the entry exists can only come from queuing the write")
            continue
        ob.must_hold(len(ent) == 1, "one entry-guard acquisition decides and creates")
        val = it.ctx.uf("proj_Ok_0", [U], z3.BoolSort())(it.as_u(p.ret))
        tr, _ = it.entails(p.pc, val)
        fa, _ = it.entails(p.pc, z3.Not(val))
        if tr:
            t_n += 1
            ob.must_hold(len(ins) == 1, "Ok(true) only after this call created the entry")
            if ent and ins:
                ob.need(it, ins[0].pc, it.ctx.disc(it.as_u(ent[0].ret)) == 1, "the entry is created in the Vacant arm of that same guard")
        elif fa:
            f_n += 1
            ob.must_hold(not ins, "Ok(false) never after creating an entry")
            if ent:
                ob.need(it, p.pc, it.ctx.disc(it.as_u(ent[0].ret)) == 0, "Ok(false) only in the Occupied arm")
            eff = events(p, "::reserve_memory") + events(p, "::insert_into_tree") + events(p, "Atomic::fetch_add") + events(p, "WriteBuffer::add_write") + events(p, "MemoryReservation::commit")
            ob.must_hold(not eff, "a refused insert-if-absent has no effect")
        else:
            ob.must_hold(False, "the boolean answer is determined on every Ok path")
    ob.must_hold(t_n >= 1 and f_n >= 1, "creating and refusing paths were reached (%d/%d)" % (t_n, f_n))
    return ob.result(it, witness="c07_cas_and_patch_semantics+c13_memory_limit_model")


def site_failed_batch_outcome(fns):
    f = mir.find(fns, "failed_batch_outcome", None)
    ob = Ob("site_failed_batch_outcome", "write_buffer::failed_batch_outcome, every path: after an INDETERMINATE failure (the device may still complete the writes) the batch's allocations are "
            "quarantined and nothing is cleaned up, released or written; after a definite failure cleanup_failed_allocations runs with the caller's clear_journal flag and, if the cleanup itself "
            "fails, the allocations are quarantined and the device is poisoned; the outcome is always Err, and the retry list receives EVERY prepared write's entry and every deferred delete – "
            "no accepted operation is dropped because its batch failed", "all paths", f)
    it = Interp(f, loop_bound=1, pure=PURE, max_paths=4000)
    pw = mir.find(fns, "::process_write_batch", None)
    agg = re.search(r"= BatchFailure \{ ([^}]*) \}", pw.text)
    bf = [x.split(":")[0].strip() for x in agg.group(1).split(", ")] if agg else []
    if "indeterminate" not in bf or "clear_journal" not in bf:
        raise mir.MirError("BatchFailure fields not found")
    failure = z3.Const("failure", U)
    indet = it.ctx.uf("proj__%d" % bf.index("indeterminate"), [U], z3.BoolSort())(failure)
    clearj = it.ctx.uf("proj__%d" % bf.index("clear_journal"), [U], z3.BoolSort())(failure)
    farg = f.args[-1]

    def init(it_, st):
        st["env"][farg] = failure
    ind_n = def_n = 0
    for p in it.run(init):
        ob.paths += 1
        if p.status != "return":
            continue
        q = events(p, "quarantine_allocations")
        cl = events(p, "cleanup_failed_allocations")
        po = events(p, "DiskIO::poison_writes")
        ex = [e for e in p.events if e.kind == "call" and e.callee.endswith("::extend")]
        ob.must_hold(len(ex) == 2, "the retry list is extended twice: prepared writes, then deferred deletes")
        dr = [e for e in p.events if e.kind == "call" and e.callee.endswith("::drain")]
        ob.must_hold(len(dr) == 1 and z3.is_expr(dr[0].args[0]) and z3.eq(it.as_u(dr[0].args[0]), it.as_u(p.env.get("_3")) if "_3" in p.env else it.as_u(dr[0].args[0])),
                     "all prepared writes are drained into the retry list")
        if ex and len(ex) == 2:
            ob.must_hold(z3.eq(it.as_u(ex[0].args[0]), it.as_u(ex[1].args[0])), "both extensions feed the same retry list")
        if not cl:
            ind_n += 1
            ob.need(it, p.pc, indet, "the cleanup is skipped only for an indeterminate failure")
            ob.must_hold(len(q) == 1 and not po, "without a cleanup the allocations are quarantined (indeterminate failure)")
            ob.must_hold(not events(p, "release_allocations") and not events(p, "release_scrubbed_allocations") and not [e for e in p.events if e.kind == "call" and "DiskIO::" in e.callee],
                         "an indeterminate failure releases nothing and issues no device call")
        else:
            def_n += 1
            ob.need(it, cl[0].pc, z3.Not(indet), "cleanup (device writes, releases) runs only after a definite failure")
            ob.need(it, cl[0].pc, cl[0].args[-1] == clearj if z3.is_bool(cl[0].args[-1]) else z3.BoolVal(False), "the cleanup clears the journal exactly when the caller says an intent may be on the device")
            ok_, _ = it.entails(p.pc, it.ctx.disc(it.as_u(cl[0].ret)) == 0)
            er_, _ = it.entails(p.pc, it.ctx.disc(it.as_u(cl[0].ret)) != 0)
            if ok_:
                ob.must_hold(not q and not po, "a successful cleanup needs no quarantine and does not poison the device")
            elif er_:
                ob.must_hold(len(q) == 1 and len(po) == 1 and idx_of(p, cl[0]) < idx_of(p, q[0]) < idx_of(p, po[0]), "a failed cleanup quarantines the allocations and poisons the device")
            else:
                ob.must_hold(False, "cleanup result decided on the path")
        if p.ret is not None:
            t = it.ctx.tups.get(str(it.as_u(p.ret))) if not isinstance(p.ret, mir.Tup) else p.ret
            if isinstance(t, mir.Tup) and t.fields and z3.is_expr(t.fields[0]):
                ob.need(it, p.pc, it.ctx.disc(it.as_u(t.fields[0])) != 0, "the outcome's result is Err")
    ob.must_hold(ind_n >= 1 and def_n >= 2, "indeterminate and definite failure paths were reached (%d/%d)" % (ind_n, def_n))
    return ob.result(it, witness="c09_failed_batch_keeps_rest_of_shard")


# ============================================================================ C19: which worker owns which shard
def c19(fns, tier, env):
    return finalize([site_shard_ownership(fns), site_coordinator_liveness(fns), site_flush_worker_requeue(fns)], env)


def c20(fns, tier, env):
    return finalize([site_tree_slot_store(fns), site_range_query(fns), site_batch_write_buffers(fns), site_process_completions(fns)], env)


def site_shard_ownership(fns):
    g = mir.find(fns, "::trigger_flush", "src/storage/write_buffer.rs")
    ob = Ob("site_trigger_flush_owner", "trigger_flush wakes, for a FULL shard, exactly worker `shard_id % worker_count` – the same residue class that "
            "flush_worker_shards' (worker_id..S).step_by(worker_count) drains (checked textually: the MIR of flush_worker_shards builds that iterator from "
            "WorkerContext.worker_id / worker_count)", "all paths of trigger_flush; the iterator shape of flush_worker_shards is matched on its MIR text "
            "(z3 does not finish the symbolic remainder lemma over 64-bit vectors)", g)
    it2 = Interp(g, loop_bound=1, pure=PURE)
    shard = z3.BitVec("shard_id", 64)

    def init2(it_, st):
        st["env"]["_2"] = shard
    sent = 0
    for p in it2.run(init2):
        ob.paths += 1
        if p.status != "return":
            continue
        ts = events(p, "Sender::try_send")
        ln = events(p, "Vec::len")
        for e in p.events:
            if e.kind == "call" and " as std::ops::Index<usize>>::index" in getattr(e, "raw", "") and "Sender" in getattr(e, "raw", ""):
                sent += 1
                ob.must_hold(len(ln) == 1, "worker count read once")
                if ln:
                    want = z3.simplify(z3.URem(shard, ln[0].ret))
                    ob.must_hold(z3.eq(z3.simplify(e.args[1]), want), "the woken worker is shard_id %% worker_count")
        if ts:
            full = events(p, "ShardedWriteBuffer::is_full")
            ob.must_hold(bool(full), "a flush is triggered only after the fullness check")
            if full:
                ob.need(it2, ts[0].pc, full[0].ret, "a flush is triggered only for a full shard")
    ob.must_hold(sent >= 1, "the wake-up site was reached")
    f = mir.find(fns, "::flush_worker_shards", None)
    t = f.text
    m = re.search(r"(_\d+) = copy \(\(\*_1\)\.0: usize\);", t)
    m2 = re.search(r"(_\d+) = copy \(\(\*_1\)\.1: usize\);", t)
    ob.must_hold(m is not None and m2 is not None, "flush_worker_shards reads worker_id and worker_count")
    if m and m2:
        ob.must_hold(re.search(r"std::ops::Range::<usize> \{ start: move %s, end: move _\d+ \}" % m.group(1), t) is not None,
                     "flush_worker_shards' shard range starts at worker_id")
        ob.must_hold(re.search(r"Range<usize> as Iterator>::step_by\(move _\d+, move %s\)" % m2.group(1), t) is not None,
                     "flush_worker_shards steps by worker_count")
    return ob.result(it2)


# ============================================================================ small liveness / containment / reclamation obligations
def site_coordinator_liveness(fns):
    f = mir.find(fns, "::start_workers::{closure#1}", "src/storage/write_buffer.rs")
    ob = Ob("site_periodic_coordinator_exits_only_on_shutdown", "the periodic flush coordinator (the thread that wakes workers every 100 ms) returns on no path other "
            "than `shutdown == true` read at the top of its loop – a full worker queue (try_send error) or an empty shard never ends write-behind; it wakes worker w "
            "when one of the shards (w..S).step_by(W) is non-empty, and worker 0 also for pending retirements", "all paths; loops unrolled once", f)
    it = Interp(f, loop_bound=1, pure=PURE, max_paths=4000)
    ret = 0
    for p in it.run():
        ob.paths += 1
        if p.status == "truncated":
            ob.truncated += 1
        if p.status != "return":
            continue
        ret += 1
        loads = [e for e in events(p, "Atomic::load") if z3.is_bool(e.ret)]
        ob.must_hold(bool(loads), "the coordinator reads the shutdown flag")
        if loads:
            ob.need(it, p.pc, loads[-1].ret, "the coordinator returns only when the shutdown flag was read as true")
            after = [e for e in p.events if e.kind == "call" and idx_of(p, e) > idx_of(p, loads[-1]) and e.callee.endswith(("try_send", "sleep"))]
            ob.must_hold(not after, "nothing happens between seeing shutdown and returning")
    ob.must_hold(ret >= 1, "a return path exists")
    # bounded wake-up period: every sleep of the coordinator – first round and any later round – is for the documented flush interval
    it2 = Interp(f, loop_bound=2, pure=PURE, max_paths=20000)
    sleeps = rounds2 = 0
    const_term = None
    for p in it2.run():
        ob.paths += 1
        if p.status == "truncated":
            ob.truncated += 1
        sl = events(p, "thread::sleep")
        if len(sl) >= 2:
            rounds2 += 1
        for e in sl:
            sleeps += 1
            a = e.args[0]
            ob.must_hold(z3.is_expr(a) and z3.is_expr(sl[0].args[0]) and z3.eq(a, sl[0].args[0]),
                         "every round of the coordinator sleeps for the same duration as the first round (no back-off, no drift): found %s vs %s" % (str(a)[:40], str(sl[0].args[0])[:40]))
        if sl:
            a0 = sl[0].args[0]
            first_is_const = z3.is_expr(a0) and a0.num_args() == 0 and ("WRITE_BUFFER_FLUSH_INTERVAL" in str(a0) or str(a0).startswith("from_millis!") or str(a0).startswith("K:"))
            ob.must_hold(first_is_const and not any(e.kind == "call" and e.callee.endswith(("from_millis", "from_secs", "from_micros")) and idx_of(p, e) < idx_of(p, sl[0]) for e in p.events),
                         "the first round sleeps for the constant item WRITE_BUFFER_FLUSH_INTERVAL (nothing computed at run time)")
    ob.must_hold(sleeps >= 1 and rounds2 >= 1, "the sleep of a second round was reached (%d sleeps, %d two-round paths)" % (sleeps, rounds2))
    iv = mir.CONST_ITEMS.get("WRITE_BUFFER_FLUSH_INTERVAL")
    ob.notes.append("WRITE_BUFFER_FLUSH_INTERVAL item: %s" % (str(iv)[:160],))
    t = f.text
    ob.must_hold(re.search(r"Range<usize> as Iterator>::step_by\(move _\d+, move _\d+\)", t) is not None and "Sender<FlushRequest>>::len" in t,
                 "the coordinator inspects (w..S).step_by(number of worker channels)")
    return ob.result(it, witness=[("sleeps for", "c19_idle_store_still_flushes"), ("", "c19_coordinator_survives_full_queue")])


def site_flush_worker_requeue(fns):
    f = mir.find(fns, "::flush_worker_shards", None)
    ob = Ob("site_flush_worker_shards_requeue", "flush_worker_shards: when a batch of a drained shard fails, the entries of that shard that were NOT yet attempted are "
            "put back as well (together with the batch's own retries), so a later successful flush() cannot acknowledge data that was silently dropped; everything "
            "collected is handed to requeue_entries", "all paths; loops unrolled once", f)
    it = Interp(f, loop_bound=1, pure=PURE, max_paths=6000)
    failed = 0
    for p in it.run():
        ob.paths += 1
        if p.status == "truncated":
            ob.truncated += 1
        pw = events(p, "process_write_batch")
        if not pw:
            continue
        rq = events(p, "ShardedWriteBuffer::requeue_entries")
        for b in pw:
            # BatchOutcome { result, retries }: the result's discriminant decides the branch
            nxt = [e for e in p.events if e.kind == "call" and idx_of(p, e) > idx_of(p, b)]
            ext = [e for e in nxt if "Extend<WriteEntry>>::extend" in getattr(e, "raw", "")]
            rq_after = [e for e in rq if idx_of(p, e) > idx_of(p, b)]
            if not rq_after:
                continue   # path truncated before this shard was put back
            until = idx_of(p, rq_after[0])
            later_batches = [e for e in pw if idx_of(p, b) < idx_of(p, e) < until]
            if later_batches:
                continue   # a later batch of the same shard follows: this one did not fail
            ext_here = [e for e in ext if idx_of(p, e) < until]
            res = b.ret.fields[0] if isinstance(b.ret, mir.Tup) else it.ctx.uf("proj__0", [U], U)(it.as_u(b.ret))
            is_err, _ = it.entails(p.pc, it.ctx.disc(it.as_u(res)) != 0)
            if is_err:
                failed += 1
                ob.must_hold(len(ext_here) >= 2, "after a failed batch both the batch's retries and the not-yet-attempted rest of the shard are requeued")
    ob.must_hold(failed >= 1, "the failed-batch path was reached")
    return ob.result(it, witness="c09_failed_batch_keeps_rest_of_shard")


def site_drop_guard(fns):
    f = mir.find(fns, "::drop", "src/core/store/persistence.rs")
    ob = Ob("site_store_drop_writes_metadata_only_when_initialized", "impl Drop for FeoxStore: the final metadata write (and every other device write of Drop) happens only "
            "for a store that finished opening (initialized), is persistent and is not read-only – a store dropped because its open was REJECTED leaves the file "
            "byte-identical", "all paths of Drop", f)
    it = Interp(f, loop_bound=1, pure=PURE, max_paths=6000)
    m_init = None
    # FeoxStore field indices of the three flags, from the MIR of flush_all (initialized && !memory_only)
    fa = mir.find(fns, "::flush_all", "src/core/store/persistence.rs")
    flags = re.findall(r"copy \(\(\*_1\)\.(\d+): bool\)", fa.text)
    ob.must_hold(len(flags) >= 2, "flag fields found")
    self_ = z3.Const("store", U)

    def init(it_, st):
        st["env"]["_1"] = self_
    reached = 0
    for p in it.run(init):
        ob.paths += 1
        if p.status == "truncated":
            ob.truncated += 1
        ws = events(p, "DiskIO::write_store_metadata") + events(p, "DiskIO::write_metadata")
        for w in ws:
            reached += 1
            for idx_s in flags[:1]:
                initialized = it.ctx.uf("proj__%s" % idx_s, [U], z3.BoolSort())(self_)
                ob.need(it, w.pc, initialized, "metadata is written in Drop only when `initialized` is set")
            if len(flags) >= 2:
                mem_only = it.ctx.uf("proj__%s" % flags[1], [U], z3.BoolSort())(self_)
                ob.need(it, w.pc, z3.Not(mem_only), "metadata is written in Drop only for a persistent store")
    ob.must_hold(reached >= 1, "the metadata write site of Drop was reached")
    return ob.result(it, witness="c17_rejected_open_leaves_file_untouched")


def site_drop_order(fns):
    f = mir.find(fns, "::drop", "src/core/store/persistence.rs")
    ob = Ob("site_store_drop_order", "impl Drop for FeoxStore, every path: the write buffer is shut down – initiate_shutdown, then finish_shutdown, which joins the workers after "
            "their final flush – BEFORE the counters are read into the metadata and BEFORE the metadata is written; the device is shut down only after both; nothing is "
            "handed to the write buffer after its shutdown and the TTL sweeper is stopped first (it can no longer enqueue deletes behind the final flush)",
            "all paths of Drop; callees havocked", f)
    it = Interp(f, loop_bound=1, pure=PURE, max_paths=6000)
    reached = 0
    for p in it.run():
        ob.paths += 1
        if p.status != "return":
            continue
        ini = events(p, "WriteBuffer::initiate_shutdown")
        fin = events(p, "WriteBuffer::finish_shutdown")
        wm = events(p, "DiskIO::write_store_metadata")
        sd = events(p, "DiskIO::shutdown")
        stp = [e for e in p.events if e.kind == "call" and e.callee.endswith("::stop") and "Ttl" in getattr(e, "raw", e.callee) + e.callee]
        loads = [e for e in events(p, "Atomic::load") if z3.is_bv(e.ret)]
        if fin:
            reached += 1
            ob.must_hold(bool(ini) and idx_of(p, ini[0]) < idx_of(p, fin[0]), "shutdown is signalled before the workers are joined")
            for w in wm:
                ob.must_hold(idx_of(p, fin[-1]) < idx_of(p, w), "the metadata is written only after the write buffer finished its final flush")
            for l in loads:
                if wm and idx_of(p, l) < idx_of(p, wm[0]):
                    ob.must_hold(idx_of(p, fin[-1]) < idx_of(p, l), "the counters persisted in the metadata are read after the final flush")
            for d in sd:
                ob.must_hold(idx_of(p, fin[-1]) < idx_of(p, d), "the device is shut down only after the workers have exited")
            for x in stp:
                ob.must_hold(idx_of(p, x) < idx_of(p, ini[0]) if ini else False, "the TTL sweeper is stopped before the write buffer is shut down")
        for w in wm:
            for d in sd:
                ob.must_hold(idx_of(p, w) < idx_of(p, d), "the device is shut down after the metadata write")
        ob.must_hold(len(fin) <= 1 and len(ini) <= 1, "the write buffer is shut down once")
    ob.must_hold(reached >= 1, "a path with a write buffer was reached")
    return ob.result(it, witness="c02_acknowledged_value_survives+c13_model_accounting_and_reopen")


def site_tree_slot_store(fns):
    cands = [f for n, f in fns.items() if n.endswith("::store") and "src/core/record.rs" in n and "TreeSlot" in f.header]
    if len(cands) != 1:
        raise mir.MirError("TreeSlot::store not found")
    f = cands[0]
    ob = Ob("site_tree_slot_store_defers_destruction", "TreeSlot::store: the replaced slot allocation is handed to the epoch collector (Guard::defer_destroy) on every "
            "path where it is non-null and is never destroyed or converted to an owned pointer immediately – readers that loaded the slot under a pin keep a live "
            "allocation", "all paths", f)
    it = Interp(f, loop_bound=1, pure=PURE)
    reached = 0
    for p in it.run():
        ob.paths += 1
        if p.status != "return":
            continue
        sw = events(p, "::swap")
        dd = events(p, "Guard::defer_destroy")
        own = [e for e in p.events if e.kind == "call" and (e.callee.endswith("::into_owned") or "drop_in_place" in e.callee or e.callee.endswith("mem::drop"))]
        ob.must_hold(len(sw) == 1, "one atomic swap")
        ob.must_hold(not own, "the previous pointer is never turned into an owned value / dropped in store()")
        nulls = events(p, "::is_null")
        if sw and nulls:
            isnull, _ = it.entails(p.pc, nulls[-1].ret)
            if not isnull:
                reached += 1
                ob.must_hold(len(dd) == 1, "a non-null previous pointer is deferred exactly once")
                if dd:
                    ob.need(it, p.pc, it.as_u(dd[0].args[1]) == it.as_u(sw[0].ret), "what is deferred is the pointer that was swapped out")
    ob.must_hold(reached >= 1, "the non-null path was reached")
    return ob.result(it, witness="c20_tree_slot_grace_period")


def site_evict_running_usage(fns):
    f = mir.find(fns, "::evict_entries", "src/core/cache.rs")
    ob = Ob("site_evict_entries_running_usage", "ClockCache::evict_entries, one arbitrary step of the sweep: after an eviction the loop's running usage equals the counter's "
            "value AFTER the subtraction (fetch_sub's previous value minus the evicted size) – so the sweep stops as soon as the low watermark is reached and does not "
            "go on to strip reference bits / evict referenced entries; the global counter is decremented by exactly the evicted entry's size",
            "one arbitrary iteration of the innermost loop", f)
    if "current_usage" not in f.debug:
        raise mir.MirError("current_usage local not found")
    cu = f.debug["current_usage"]
    # innermost loop header: the block comparing i with bucket.len()
    it = Interp(f, loop_bound=1, pure=PURE, max_paths=8000)
    reached = 0
    for p in it.run():
        ob.paths += 1
        if p.status == "truncated":
            ob.truncated += 1
        rem = events(p, "Vec::remove")
        subs = [e for e in events(p, "Atomic::fetch_sub") if z3.is_bv(e.args[1]) and e.args[1].size() == 64]
        if rem and subs:
            reached += 1
            # the removed entry's recorded size is what is subtracted
            ok = False
            for k in range(0, 8):
                cand = it.ctx.uf("proj__%d" % k, [U], z3.BitVecSort(64))(it.as_u(rem[-1].ret))
                okk, _ = it.entails(p.pc, subs[-1].args[1] == cand)
                ob.queries += 1
                ok = ok or okk
            ob.must_hold(ok, "the counter is decremented by the evicted entry's recorded size")
            cur = p.env.get(cu)
            if cur is not None and z3.is_bv(cur) and len(rem) == 1:
                ob.need(it, p.pc, cur == subs[-1].ret - subs[-1].args[1], "running usage == counter value after the subtraction")
    ob.must_hold(reached >= 1, "the eviction site was reached")
    return ob.result(it, witness="c16_eviction_stops_at_low_watermark")


def site_evict_clock_policy(fns):
    """CLOCK second chance, one ARBITRARY step of the innermost loop (state havocked at its header, usage > low watermark assumed and re-established)"""
    f = mir.find(fns, "::evict_entries", "src/core/cache.rs")
    ob = Ob("site_evict_entries_clock_policy", "ClockCache::evict_entries, one ARBITRARY step of the bucket sweep (all locals havocked at the inner loop header; invariant: the running usage is "
            "above the low watermark, re-established on every path that continues the sweep): the entry under the hand is evicted only if ITS reference bit was read as clear – the removed "
            "index is the inspected index and the index is not advanced; an entry whose bit is set is never removed in that step: its bit is cleared (second chance) and the index advances "
            "by one; the sweep continues only while usage is still above the low watermark, so nothing is evicted (and no reference bit stripped) once the watermark is reached",
            "one iteration of the innermost loop from an arbitrary state", f)
    need = ("i", "current_usage", "target_usage")
    if any(n not in f.debug for n in need):
        raise mir.MirError("evict_entries locals not found")
    il, cul, tl = f.debug["i"], f.debug["current_usage"], f.debug["target_usage"]
    hdr = None
    for bb, st in f.blocks.items():
        if any(re.match(r"_\d+ = copy %s;$" % il, x.strip()) for x in st[:1]) and "Deref>::deref" in st[-1]:
            hdr = bb
    if hdr is None:
        raise mir.MirError("inner sweep loop header not found")
    it = Interp(f, loop_bound=1, pure=PURE, max_paths=4000)
    i0, cu0, tg = z3.BitVec("i0", 64), z3.BitVec("usage0", 64), z3.BitVec("low_watermark", 64)

    def init(it_, st):
        st["env"][il] = i0
        st["env"][cul] = cu0
        st["env"][tl] = tg
        st["pc"].append(z3.UGT(cu0, tg))
    evicted = spared = 0
    for p in it.run(init, start=hdr, stop=(hdr,)):
        ob.paths += 1
        if p.status == "truncated":
            ob.truncated += 1
        if p.status not in ("backedge", "return"):
            continue
        idx = [e for e in p.events if e.kind == "call" and "Index<usize>>::index" in e.callee and e.callee.startswith("<Vec<CacheEntry> as")]
        loads = [e for e in events(p, "Atomic::load") if z3.is_bool(e.ret)]
        rem = events(p, "Vec::remove")
        stores = [e for e in events(p, "Atomic::store") if len(e.args) > 1 and z3.is_bool(e.args[1])]
        i1, cu1 = p.env.get(il), p.env.get(cul)
        if p.status == "backedge":
            ob.need(it, p.pc, z3.UGT(cu1, tg), "the sweep continues within a bucket only while the running usage is above the low watermark")
        if rem:
            evicted += 1
            if not ob.must_hold(len(idx) == 1 and len(loads) == 1 and len(rem) == 1, "one entry inspected and at most one removed per step"):
                continue
            ob.need(it, rem[0].pc, z3.Not(loads[0].ret), "an entry is evicted only if its reference bit was read as clear")
            ob.must_hold(contains(loads[0].args[0], it.as_u(idx[0].ret)), "the bit that was read is the inspected entry's")
            ob.need(it, rem[0].pc, z3.And(idx[0].args[1] == i0, rem[0].args[1] == i0), "the removed index is the inspected index i")
            ob.must_hold(z3.eq(it.as_u(rem[0].args[0]), it.as_u(idx[0].args[0])), "removal from the bucket that was inspected")
            if p.status == "backedge":
                ob.need(it, p.pc, i1 == i0, "after a removal the index is not advanced (the next entry moved into slot i)")
            ob.must_hold(not stores, "no reference bit is written in an evicting step")
        elif idx:
            spared += 1
            if not ob.must_hold(len(loads) == 1, "the reference bit is read once"):
                continue
            ob.need(it, p.pc, loads[0].ret, "an entry is kept in this step only because its reference bit was set")
            if ob.must_hold(len(stores) == 1 and contains(stores[0].args[0], it.as_u(idx[0].ret)), "second chance: the inspected entry's reference bit is cleared"):
                ob.need(it, p.pc, z3.Not(stores[0].args[1]), "the bit is cleared, not set")
            if p.status == "backedge":
                ob.need(it, p.pc, i1 == i0 + 1, "a spared entry is stepped over: i += 1")
            ob.need(it, p.pc, cu1 == cu0, "sparing an entry does not change the running usage") if z3.is_bv(cu1) else None
    ob.must_hold(evicted >= 1 and spared >= 1, "evicting and sparing steps were reached (%d/%d)" % (evicted, spared))
    return ob.result(it, witness="c16_eviction_stops_at_low_watermark")


def site_cache_clear(fns):
    f = mir.find(fns, "::clear", "src/core/cache.rs")
    ob = Ob("site_cache_clear_accounting", "ClockCache::clear, every path with the bucket loop unrolled once: it runs under the eviction lock; for each bucket the sizes of THIS bucket's entries "
            "are summed (closure returns the entry's recorded size) while the bucket's write lock is held, the bucket is emptied under the same lock, and the global counter is decreased by "
            "exactly that sum, once – after clear the reported memory still equals the total size of the entries held (none)", "bucket loop unrolled once; iterator adaptors summarised", f)
    it = Interp(f, loop_bound=1, pure=PURE)
    reached = 0
    for p in it.run():
        ob.paths += 1
        if p.status not in ("return", "truncated"):
            continue
        lk = events(p, "Mutex::lock")
        ob.must_hold(len(lk) == 1 and idx_of(p, lk[0]) == min(idx_of(p, e) for e in p.events if e.kind == "call"), "the eviction lock is taken first")
        wr = events(p, "RwLock::write")
        sums = [e for e in p.events if e.kind == "call" and e.callee.endswith("::sum")]
        clr = events(p, "Vec::clear")
        subs = [e for e in events(p, "Atomic::fetch_sub") if z3.is_bv(e.args[1])]
        if not wr:
            ob.must_hold(not subs and not clr, "nothing is subtracted or emptied without visiting a bucket")
            continue
        reached += 1
        if not ob.must_hold(len(wr) == len(sums) == len(clr) == len(subs), "per bucket: one lock, one sum, one clear, one subtraction"):
            continue
        for w, sm, c, sb in zip(wr, sums, clr, subs):
            gdrop = [e for e in p.events if e.kind == "drop" and "RwLockWriteGuard" in e.callee and z3.is_expr(e.args[0]) and z3.eq(it.as_u(e.args[0]), it.as_u(w.ret)) and idx_of(p, e) > idx_of(p, w)]
            ob.must_hold(idx_of(p, w) < idx_of(p, sm) < idx_of(p, c) and bool(gdrop) and idx_of(p, c) < idx_of(p, gdrop[0]), "the bucket is summed and emptied under its own write lock")
            ob.must_hold(z3.eq(it.as_u(c.args[0]), it.as_u(w.ret)), "the emptied vector is the locked bucket")
            mp = [e for e in p.events if e.kind == "call" and e.callee.endswith("Iterator>::map") and idx_of(p, w) < idx_of(p, e) < idx_of(p, sm)]
            okc = False
            if mp:
                cf = _closure_of(mp[0].callee + " " + " ".join(str(a) for a in mp[0].args))
                itr = [e for e in p.events if e.kind == "call" and e.callee.endswith("]>::iter") and z3.eq(it.as_u(e.ret), it.as_u(mp[0].args[0]))]
                ob.must_hold(bool(itr) and z3.eq(it.as_u(itr[0].args[0]), it.as_u(w.ret)) and z3.eq(it.as_u(sm.args[0]), it.as_u(mp[0].ret)), "the sum runs over the locked bucket's entries")
                if cf is not None:
                    sub = Interp(cf, ctx=it.ctx, loop_bound=1, pure=PURE)
                    en = z3.Const("an_entry", U)

                    def cinit(_it, sst, _cf=cf, _en=en):
                        sst["env"][_cf.args[1]] = _en
                    rs = [r for r in sub.run(cinit) if r.status == "return"]
                    if len(rs) == 1 and z3.is_bv(rs[0].ret):
                        # the same field evict_entries/remove_entry subtract: CacheEntry.size
                        ev = mir.find(fns, "::evict_entries", "src/core/cache.rs")
                        m_ = re.search(r"copy \(_\d+\.(\d+): usize\)", ev.text)
                        okc = m_ is not None and z3.eq(rs[0].ret, it.ctx.uf("proj__%s" % m_.group(1), [U], z3.BitVecSort(64))(en))
            ob.must_hold(okc, "each entry contributes its recorded size (the field eviction subtracts)")
            ob.need(it, sb.pc, sb.args[1] == sm.ret, "the counter is decreased by exactly this bucket's sum")
    ob.must_hold(reached >= 1, "a bucket iteration was reached")
    return ob.result(it, witness="c16_cache_replace_accounting+c16_eviction_stops_at_low_watermark")


# ============================================================================ io.rs: journaled retirement and journal/metadata slot protocol
IO_HINT = "src/storage/io.rs"


def okd(it, e):
    return it.ctx.disc(it.as_u(e.ret)) == 0


def site_retire_extents(fns):
    f = mir.find(fns, "::retire_extents", IO_HINT)
    ob = Ob("site_retire_extents_protocol", "DiskIO::retire_extents, one arbitrary journal chunk: ACTIVE intent journal (write+fsync) -> retirement markers (write+fsync) -> "
            "CLEAR journal, strictly in that order, each step only when the previous returned Ok; any failure poisons the device (poison_writes) and is returned; "
            "Ok is returned only when every step of every chunk succeeded", "chunk loop: one arbitrary iteration", f)
    it = Interp(f, loop_bound=1, pure=PURE)
    reached = 0
    for p in it.run():
        ob.paths += 1
        if p.status == "truncated":
            ob.truncated += 1
        if p.status not in ("return", "truncated"):
            continue
        J = events(p, "DiskIO::write_allocation_journal")
        M = events(p, "DiskIO::retire_extents_unjournaled")
        C = events(p, "DiskIO::clear_allocation_journal")
        P = events(p, "DiskIO::poison_writes")
        for m in M:
            prior = [j for j in J if idx_of(p, j) < idx_of(p, m)]
            ob.must_hold(bool(prior), "markers are written only after an intent journal write")
            if prior:
                reached += 1
                ob.need(it, m.pc, okd(it, prior[-1]), "markers are written only when the intent journal write (incl. fsync) returned Ok")
                ob.need(it, p.pc, it.as_u(m.args[1]) == it.as_u(prior[-1].args[1]), "markers cover exactly the journaled chunk")
        for c in C:
            prior = [m for m in M if idx_of(p, m) < idx_of(p, c)]
            ob.must_hold(bool(prior), "the journal is cleared only after the marker writes")
            if prior:
                ob.need(it, c.pc, okd(it, prior[-1]), "the journal is cleared only when the marker writes (incl. fsync) returned Ok")
        if p.status == "return" and p.ret is not None:
            ret_ok, _ = it.entails(p.pc, it.ctx.disc(it.as_u(p.ret)) == 0)
            ret_err, _ = it.entails(p.pc, it.ctx.disc(it.as_u(p.ret)) != 0)
            if ret_ok:
                ob.must_hold(not P, "Ok is returned only when nothing failed")
                for e in J + M + C:
                    ob.need(it, p.pc, okd(it, e), "Ok is returned only when %s returned Ok" % e.callee.rsplit("::", 1)[-1])
                ob.must_hold(len(J) == len(M) == len(C), "every journaled chunk is marked and cleared")
            elif ret_err and (J or M or C):
                ob.must_hold(len(P) == 1, "a failed step poisons the device exactly once")
    ob.must_hold(reached >= 1, "the marker site was reached")
    return ob.result(it, witness="c13_model_accounting_and_reopen")


def site_replay_journal(fns):
    f = mir.find(fns, "::replay_allocation_journal", IO_HINT)
    ob = Ob("site_replay_allocation_journal", "replay_allocation_journal: retirement markers first, journal cleared LAST and only when the markers (incl. fsync) "
            "returned Ok – a crash during replay leaves the journal active, so replay is re-runnable", "all paths", f)
    it = Interp(f, loop_bound=1, pure=PURE)
    reached = 0
    for p in it.run():
        ob.paths += 1
        if p.status != "return":
            continue
        M = events(p, "DiskIO::retire_extents_unjournaled")
        C = events(p, "DiskIO::clear_allocation_journal")
        for c in C:
            reached += 1
            ob.must_hold(len(M) == 1 and idx_of(p, M[0]) < idx_of(p, c), "clear after the marker writes")
            if M:
                ob.need(it, c.pc, okd(it, M[0]), "clear only when the marker writes returned Ok")
            ob.must_hold(idx_of(p, c) == max(idx_of(p, x) for x in p.events if x.kind == "call"), "the journal clear is the last step")
    ob.must_hold(reached >= 1, "the clear site was reached")
    return ob.result(it, witness="c13_model_accounting_and_reopen")


def site_journal_write(fns, name):
    f = mir.find(fns, "::" + name, IO_HINT)
    ob = Ob("site_" + name, "%s: the next (generation+1, other slot) image is written to that slot's sector and fsynced BEFORE the in-memory generation/slot "
            "advance; any failure leaves generation and slot untouched – so a torn journal write always leaves the previous valid slot and the next attempt "
            "targets the same slot again" % name, "all paths", f)
    it = Interp(f, loop_bound=1, pure=PURE + ("DiskIO::journal_sector",))
    reached = 0
    for p in it.run():
        ob.paths += 1
        if p.status != "return":
            continue
        NP = events(p, "DiskIO::next_journal_position")
        Wr = events(p, "DiskIO::write_sectors_sync")
        Fl = events(p, "DiskIO::flush")
        St = events(p, "Atomic::store")
        JS = events(p, "DiskIO::journal_sector")
        if St:
            reached += 1
            ob.must_hold(len(Wr) == 1 and len(Fl) == 1 and len(NP) == 1 and len(St) == 2, "one write, one fsync, then generation and slot are stored")
            if Wr and Fl and NP:
                ob.must_hold(idx_of(p, Wr[0]) < idx_of(p, Fl[0]) < idx_of(p, St[0]), "write < fsync < advance")
                ob.need(it, St[0].pc, z3.And(okd(it, Wr[0]), okd(it, Fl[0])), "generation/slot advance only when write and fsync returned Ok")
                pos = it.ctx.uf("proj_Ok_0", [U], U)(it.as_u(NP[0].ret))
                gen = it.ctx.uf("proj__0", [U], z3.BitVecSort(64))(pos)
                slot = it.ctx.uf("proj__1", [U], z3.BitVecSort(64))(pos)
                vals = [e.args[1] for e in St]
                ob.need(it, p.pc, z3.Or(*[v == gen for v in vals if z3.is_bv(v) and v.size() == 64]), "stored generation is next_journal_position's")
                if JS:
                    ob.need(it, p.pc, JS[0].args[1] == slot, "the image goes to next_journal_position's slot")
                    ob.need(it, p.pc, Wr[0].args[1] == JS[0].ret, "written at that slot's sector")
        else:
            ret_err, _ = it.entails(p.pc, it.ctx.disc(it.as_u(p.ret)) != 0)
            ob.must_hold(ret_err, "returning without advancing generation/slot only with an error")
    ob.must_hold(reached >= 1, "the advance site was reached")
    return ob.result(it, witness="c13_model_accounting_and_reopen")


def kernel_next_journal_position(fns):
    f = mir.find(fns, "::next_journal_position", IO_HINT)
    ob = Ob("c03_next_journal_position", "next_journal_position: generation+1 (overflow -> error), slot' = (slot+1) % 2 – with two slots the image never "
            "overwrites the slot holding the current valid generation, and generations strictly increase", "all u64 generations, slot in {0,1}", f)
    it = Interp(f, loop_bound=1, atomic=None, slices=False)
    reached = 0
    for p in it.run():
        ob.paths += 1
        if p.status != "return":
            continue
        loads = events(p, "Atomic::load")
        if len(loads) == 2 and isinstance(ctx_tup(it, p.ret), mir.Tup):
            reached += 1
            t = ctx_tup(it, p.ret)
            g0, s0 = loads[0].ret, loads[1].ret
            ob.need(it, p.pc, z3.And(t.fields[0] == g0 + 1, z3.UGT(t.fields[0], g0)), "generation' = generation + 1 without wrap")
            ob.need(it, p.pc + [z3.ULE(s0, 1)], z3.And(t.fields[1] == 1 - s0, t.fields[1] != s0), "slot alternates between 0 and 1")
    ob.must_hold(reached >= 1, "the Ok path was reached")
    return ob.result(it, witness="c13_model_accounting_and_reopen")


def ctx_tup(it, ret):
    """the tuple wrapped by an Ok(..) return value, if it was built in this function"""
    return it.ctx.tups.get(str(ret))


def site_read_metadata_selection(fns):
    f = mir.find(fns, "::read_metadata", "src/storage/io.rs")
    ob = Ob("site_read_metadata_selection", "DiskIO::read_metadata, every path: blocks 0..=7 are read once; the primary copy is block 0 and the backup copy is block 7 of that buffer; both go "
            "through Metadata::from_bytes; the BACKUP is believed exactly when it is valid and either the primary is invalid or the backup's generation is GREATER, otherwise the primary "
            "(two invalid copies hand back the primary for the caller's signature test); a failed read is propagated", "all paths; from_bytes and generation() havocked", f)
    it = Interp(f, loop_bound=1, pure=PURE, slices=True)
    chose_b = chose_p = 0
    for p in it.run():
        ob.paths += 1
        if p.status != "return":
            continue
        rd = events(p, "DiskIO::read_sectors_sync")
        if not ob.must_hold(len(rd) == 1, "one device read"):
            continue
        ob.need(it, rd[0].pc, z3.And(rd[0].args[1] == 0, rd[0].args[2] == 8), "blocks 0..=7 are read (start 0, 8 blocks)")
        tv = [e for e in p.events if e.kind == "call" and e.callee.endswith("::to_vec")]
        if not tv:
            ok_, _ = it.entails(p.pc, it.ctx.disc(it.as_u(rd[0].ret)) != 0)
            ob.must_hold(ok_, "no answer only when the read failed")
            continue
        sl = [e for e in p.events if e.kind == "slice"]
        ix = [e for e in p.events if e.kind == "call" and "::index" in e.callee and "Vec<u8>" in e.callee]
        fb = events(p, "Metadata::from_bytes")
        if not ob.must_hold(len(sl) == 2 and len(ix) == 2 and len(fb) == 2, "two windows of the buffer, both parsed"):
            continue
        buf = it.ctx.uf("proj_Ok_0", [U], U)(it.as_u(rd[0].ret))
        ob.must_hold(all(z3.eq(it.as_u(x.args[0]), buf) for x in sl), "both windows are taken from the buffer that was read")
        ob.need(it, p.pc, z3.And(sl[0].args[1] == 0, sl[0].args[2] == 4096), "primary copy = bytes 0..4096 (block 0)")
        ob.need(it, p.pc, z3.And(sl[1].args[1] == 7 * 4096, sl[1].args[2] == 8 * 4096), "backup copy = bytes 7*4096..8*4096 (block 7)")
        prim, back = it.as_u(ix[0].ret), it.as_u(ix[1].ret)
        fp = [e for e in fb if z3.eq(it.as_u(e.args[0]), prim)]
        fbk = [e for e in fb if z3.eq(it.as_u(e.args[0]), back)]
        if not ob.must_hold(len(fp) == 1 and len(fbk) == 1, "each copy is validated once"):
            continue
        vp_, vb = it.ctx.disc(it.as_u(fp[0].ret)) == 1, it.ctx.disc(it.as_u(fbk[0].ret)) == 1
        gens = events(p, "Metadata::generation")
        gp = [g for g in gens if contains(g.args[0], it.as_u(fp[0].ret))]
        gb = [g for g in gens if contains(g.args[0], it.as_u(fbk[0].ret))]
        newer = z3.UGT(gb[0].ret, gp[0].ret) if gp and gb else None
        is_b = z3.eq(it.as_u(tv[0].args[0]), back)
        is_p = z3.eq(it.as_u(tv[0].args[0]), prim)
        ob.must_hold(is_b or is_p, "the answer is one of the two copies")
        both, _ = it.entails(p.pc, z3.And(vp_, vb))
        if both:
            if not ob.must_hold(newer is not None, "with two valid copies their generations are compared"):
                continue
            ob.need(it, p.pc, newer if is_b else z3.Not(newer), "two valid copies: the backup is believed iff its generation is GREATER than the primary's")
        else:
            ob.need(it, p.pc, z3.And(vb, z3.Not(vp_)) if is_b else z3.Or(vp_, z3.Not(vb)), "one or no valid copy: the backup is believed iff it is the only valid one")
        chose_b += 1 if is_b else 0
        chose_p += 1 if is_p else 0
    ob.must_hold(chose_b >= 2 and chose_p >= 2, "paths believing each copy were reached (%d/%d)" % (chose_p, chose_b))
    return ob.result(it, witness="c03_metadata_copy_selection")


def site_write_store_metadata(fns):
    f = mir.find(fns, "::write_store_metadata", IO_HINT)
    ob = Ob("c10_write_store_metadata", "write_store_metadata: the copy with generation g+1 goes to block 0 when g+1 is even and to the backup block 7 when odd "
            "(so the previous valid copy is never the one overwritten), write then fsync, and the caller's metadata advances only when both returned Ok",
            "all generations", f)
    it = Interp(f, loop_bound=1, pure=PURE + ("Metadata::generation",))
    reached = 0
    for p in it.run():
        ob.paths += 1
        if p.status != "return":
            continue
        Wr = events(p, "DiskIO::write_sectors_sync")
        Fl = events(p, "DiskIO::flush")
        G = events(p, "Metadata::generation")
        for w in Wr:
            reached += 1
            ob.must_hold(len(G) >= 1, "the target block is chosen from the new generation")
            if G:
                g = G[0].ret
                ob.need(it, w.pc, w.args[1] == z3.If((g & 1) == 0, z3.BitVecVal(0, 64), z3.BitVecVal(7, 64)), "even generation -> block 0, odd -> block 7")
        ret_ok, _ = it.entails(p.pc, it.ctx.disc(it.as_u(p.ret)) == 0) if p.ret is not None else (False, None)
        if ret_ok:
            ob.must_hold(len(Wr) == 1 and len(Fl) == 1 and idx_of(p, Wr[0]) < idx_of(p, Fl[0]), "Ok only after write then fsync")
            for e in Wr + Fl:
                ob.need(it, p.pc, okd(it, e), "Ok only when %s returned Ok" % e.callee.rsplit("::", 1)[-1])
    ob.must_hold(reached >= 1, "the write site was reached")
    return ob.result(it, witness="c13_model_accounting_and_reopen")


def io_protocol(fns):
    return [site_retire_extents(fns), site_replay_journal(fns), site_journal_write(fns, "write_allocation_journal"),
            site_journal_write(fns, "clear_allocation_journal"), kernel_next_journal_position(fns), site_read_metadata_selection(fns)]


# ============================================================================ retirement queue: flush lock discipline
def site_flush_pending_deletions(fns):
    f = mir.find(fns, "::flush_pending_deletions", None)
    ob = Ob("site_flush_pending_deletions_lock_order", "flush_pending_deletions takes the retirement `flush` mutex BEFORE it looks at the pending queue, on every path – "
            "so a flusher that finds the queue empty has first waited for any batch another flusher already took but has not yet made durable "
            "(force_flush may not acknowledge while a retirement is in another thread's hands)", "all paths", f)
    it = Interp(f, loop_bound=1, pure=PURE)
    for p in it.run():
        ob.paths += 1
        if p.status != "return":
            continue
        locks = [e for e in p.events if e.kind == "call" and e.callee.endswith("Mutex::lock")]
        flush = [e for e in locks if ", ()>::lock" in getattr(e, "raw", "")]
        pend = [e for e in locks if "Vec<WriteEntry>>::lock" in getattr(e, "raw", "")]
        ob.must_hold(len(flush) == 1, "the flush mutex is taken exactly once on every path")
        if flush and pend:
            ob.must_hold(idx_of(p, flush[0]) < idx_of(p, pend[0]), "flush mutex before the pending-queue mutex")
        empties = events(p, "Vec::is_empty") + events(p, "std::mem::take")
        if flush and empties:
            ob.must_hold(idx_of(p, flush[0]) < min(idx_of(p, e) for e in empties), "flush mutex before the queue is inspected or taken")
        pd = events(p, "process_deletions")
        if pd and flush:
            ob.must_hold(idx_of(p, flush[0]) < idx_of(p, pd[0]), "markers are written under the flush mutex")
    return ob.result(it, witness="c02_flush_waits_for_retirements")


# ============================================================================ C16: cache accounting deltas
def c16(fns, tier, env):
    return finalize([site_cache_insert(fns), site_cache_remove(fns), site_cache_lookups_tagged(fns), site_evict_running_usage(fns), site_evict_clock_policy(fns), site_cache_clear(fns), site_compare_and_swap(fns), site_resolve_expiry(fns)], env)


def c05(fns, tier, env):
    """the block-ownership partition seen from the paths that move blocks between owners"""
    return finalize([site_process_deletions(fns), site_write_batch_protocol(fns), site_write_batch_allocation(fns), site_recovery_expired_winners(fns), site_flush_all(fns), scan_epilogue(fns), scan_iteration(fns)], env)


def c02(fns, tier, env):
    return finalize([site_flush_pending_deletions(fns), site_force_flush(fns), site_flush_all(fns), site_drop_order(fns), site_worker_final_flush(fns), site_process_deletions(fns), site_write_batch_protocol(fns)], env)


def c09(fns, tier, env):
    return finalize([kernel_poison(fns), site_force_flush(fns), site_flush_worker_requeue(fns), site_process_deletions(fns), site_write_batch_protocol(fns), site_write_batch_allocation(fns), site_failed_batch_outcome(fns), site_retire_extents(fns),
                     site_journal_write(fns, "write_allocation_journal"), site_journal_write(fns, "clear_allocation_journal")], env)


def c10(fns, tier, env):
    return finalize([site_write_store_metadata(fns), site_read_metadata_selection(fns), site_flush_all(fns), journal_slot_acceptance(fns), journal_slot_selection(fns), scan_iteration(fns)], env)


def c01(fns, tier, env):
    out = [site_update_record(fns, "::update_record_with_ttl", False),
           site_update_record(fns, "::update_record_with_ttl_bytes", True),
           site_update_record(fns, "::replace_record_if_current", False, file_hint="src/core/store/atomic.rs", ts_tuple_local="_5", identity_local="_3",
                              witness=[("(f)", "c07_lost_increment+c07_aba_same_timestamp")] + UPDATE_WITNESSES),
           site_delete(fns), kernel_resolve_timestamp(fns), site_compare_and_swap(fns), site_json_patch(fns),
           site_atomic_increment(fns), site_update_ttl(fns), site_resolve_expiry(fns), site_range_query(fns)]
    out += [site_insert_vacant(fns, "::insert_with_timestamp_and_ttl_internal"), site_insert_vacant(fns, "::insert_bytes_with_expiry"),
            site_insert_vacant(fns, "::insert_if_absent", "src/core/store/atomic.rs", explicit_ts=False), site_index_agreement(fns)]
    return finalize(out, env)


def _field_writes(path, idx):
    return [e for e in path.events if e.kind == "write" and e.callee.split(".")[-1] == str(idx)]


def site_cache_insert(fns):
    f = mir.find(fns, "::insert_entry", "src/core/cache.rs")
    ob = Ob("site_cache_insert_entry", "ClockCache::insert_entry keeps `cache_memory == sum of entry.size`: a new entry is pushed with size S and S is added; an in-place "
            "replacement stores the new S in the entry AND moves the counter by exactly S - old_size; a refused replacement (generation guard) changes nothing",
            "all paths; bucket scan loop: one arbitrary entry", f)
    m = re.search(r"CacheEntry \{.*size: copy (_\d+) \}", f.text)
    if not m:
        raise mir.MirError("CacheEntry literal not found")
    size_local = m.group(1)
    m2 = re.search(r"\(\(\*_\d+\)\.(\d+): usize\) = copy %s;" % size_local, f.text)
    size_idx = int(m2.group(1)) if m2 else 4
    it = Interp(f, loop_bound=1, pure=PURE, max_paths=8000)
    pushes = repl = 0
    for p in it.run():
        ob.paths += 1
        if p.status == "truncated":
            ob.truncated += 1
        if p.status != "return":
            continue
        size = p.env.get(size_local)
        adds = events(p, "Atomic::fetch_add")
        subs = events(p, "Atomic::fetch_sub")
        adds = [e for e in adds if z3.is_bv(e.args[1]) and e.args[1].size() == 64]
        subs = [e for e in subs if z3.is_bv(e.args[1]) and e.args[1].size() == 64]
        push = events(p, "Vec::push")
        wsize = _field_writes(p, size_idx)
        wval = _field_writes(p, 1)
        if push:
            pushes += 1
            ob.must_hold(len(adds) == 1 and not subs, "a pushed entry adds to the counter exactly once")
            if adds:
                ob.need(it, p.pc, adds[0].args[1] == size, "counter += size of the pushed entry")
            t = push[0].args[1]
            if isinstance(t, mir.Tup):
                ob.need(it, p.pc, t.fields[size_idx] == size, "pushed entry records its size")
        elif wval:
            repl += 1
            ob.must_hold(len(wsize) >= 1, "an in-place replacement stores the new size in the entry")
            for w in wsize:
                ob.need(it, p.pc, w.args[1] == size, "entry.size := new size")
            ob.must_hold(len(adds) + len(subs) == 1, "an in-place replacement moves the counter exactly once")
            # old size is read from the entry before it is overwritten: a usize field read of the same entry
            for e in adds:
                ob.need(it, e.pc, z3.UGT(size, size - e.args[1]), "counter grows only when the entry grew")
            for e in subs:
                ob.need(it, e.pc, z3.ULE(size, size + e.args[1]), "counter shrinks only when the entry shrank")
        else:
            ob.must_hold(not adds and not subs and not wsize, "a path that stores nothing leaves the counter and the entry alone")
    ob.must_hold(pushes >= 1 and repl >= 1, "both the push and the in-place replacement sites were reached")
    return ob.result(it, witness="c16_cache_replace_accounting")


def site_cache_remove(fns):
    f = mir.find(fns, "::remove_entry", "src/core/cache.rs")
    ob = Ob("site_cache_remove_entry", "ClockCache::remove_entry subtracts exactly the removed entry's recorded size, once, and only when an entry is removed", "all paths", f)
    it = Interp(f, loop_bound=1, pure=PURE)
    reached = 0
    for p in it.run():
        ob.paths += 1
        if p.status != "return":
            continue
        rem = events(p, "Vec::remove")
        subs = [e for e in events(p, "Atomic::fetch_sub") if z3.is_bv(e.args[1]) and e.args[1].size() == 64]
        if rem:
            reached += 1
            ob.must_hold(len(subs) == 1, "one decrement per removed entry")
            if subs:
                removed = rem[0].ret
                ok = False
                for k in range(0, 8):
                    cand = it.ctx.uf("proj__%d" % k, [U], z3.BitVecSort(64))(it.as_u(removed))
                    okk, _ = it.entails(p.pc, subs[0].args[1] == cand)
                    ob.queries += 1
                    ok = ok or okk
                ob.must_hold(ok, "the decrement is a usize field (its size) of the removed entry")
        else:
            ob.must_hold(not subs, "no decrement without a removal")
    ob.must_hold(reached >= 1, "the removal site was reached")
    return ob.result(it, witness="c16_cache_replace_accounting")


# ============================================================================ recovery scan: one arbitrary iteration
def scan_iteration(fns, panics=False):
    """The scan loop cannot be unrolled over a device, but ONE iteration can be analysed from an arbitrary state:
    start at the loop header with every local havocked and stop when the path comes back to it."""
    f = mir.find(fns, "::scan_and_rebuild_indexes", "src/core/store/recovery.rs")
    ob = Ob("c03_scan_iteration", "recovery scan, one ARBITRARY iteration (all locals havocked at the loop header): every path that returns to the header has "
            "advanced `sector` (progress, so the scan terminates and never re-reads a block); a path that ACCEPTED a record (it reached version_clock.observe: header "
            "parsed, extent in bounds, token verified) advances by exactly the record's extent length – winner or loser – so the scan never steps into the middle of a "
            "verified extent (bytes embedded in values cannot surface as keys); every indexed timestamp is folded into the version clock before the index is updated; newest-timestamp-wins: a verified record is discarded only when an "
            "indexed generation of its key is newer and indexed only otherwise; when it replaces a generation, the memory, disk and free-space adjustments are computed from the "
            "REPLACED generation and the additions from the new one",
            "one iteration; inner helper loops unrolled once; calls havocked", f)
    # loop header: the block with the most back-edges whose terminator switches on Lt(sector, total)
    inc = {}
    for bb, st in f.blocks.items():
        if bb in f.cleanup:
            continue
        for tg in re.findall(r"bb\d+", st[-1]):
            inc.setdefault(tg, []).append(bb)
    num = lambda b: int(b[2:])
    cands = []
    for tg, srcs in inc.items():
        back = [s_ for s_ in srcs if num(s_) > num(tg)]
        body = " ".join(f.blocks[tg])
        m = re.search(r"(_\d+) = copy (_\d+); (_\d+) = Lt\(move \1, copy (_\d+)\); switchInt", body)
        if back and m:
            cands.append((len(back), tg, m.group(2), m.group(4)))
    if not cands:
        raise mir.MirError("scan loop header not found")
    cands.sort(reverse=True)
    _n, header, sector_local, total_local = cands[0]
    it = Interp(f, loop_bound=1, pure=PURE, slices=True, max_paths=20000)
    s0 = z3.BitVec("sector0", 64)
    total = z3.BitVec("total_sectors", 64)

    last_end_local = f.debug.get("last_end")
    if last_end_local is None:
        raise mir.MirError("scan: `last_end` (end of the last owned extent) not found")
    le0 = z3.BitVec("last_end0", 64)
    self_ = z3.Const("store", U)
    amb_idx = store_field_index(fns, "ambiguous_legacy_markers") if panics else 0
    amb0 = it.ctx.uf("proj__%d" % amb_idx, [U], z3.BitVecSort(64))(self_)

    def init(it_, st):
        st["env"][sector_local] = s0
        st["env"][total_local] = total
        st["env"][last_end_local] = le0
        if panics:
            st["env"]["_1"] = self_
        # loop invariant of the free-space reconstruction: everything owned so far ends at or before the scan position
        st["pc"].append(z3.ULE(le0, s0))
        if panics:
            # the counter of ambiguous legacy markers counts scanned blocks: counter <= sector (re-established below)
            st["pc"].append(z3.ULE(amb0, s0))
            # the device size is a u64 byte count, so there are at most 2^52 blocks
            st["pc"].append(z3.ULT(total, z3.BitVecVal(1 << 52, 64)))
    accepted = discarded = replaced_n = gap_paths = amb_checked = 0
    ts_idx = record_field_index(fns, "timestamp")
    pob = Ob("c17_scan_iteration_panic_free", "recovery scan, one ARBITRARY iteration on ARBITRARY block contents (every byte and every value parsed out of the device is "
             "havocked; block slices have arbitrary length): no arithmetic-overflow panic, no out-of-range index or slice of the block buffer, no failing fixed-size "
             "conversion on any MIR path – so no byte pattern can make the scan panic inside an iteration",
             "one iteration from an arbitrary loop state with sector < total_sectors < 2^52 (u64 byte size) and last_end <= sector; callees (block reader, parsers, CRC) havocked – "
             "their own panic-freedom is decided by the Kani harnesses of C17; RecordFormat::total_size <= key + value + 64 for admissible lengths (Kani: c05_extent_length_agreement); "
             "records already indexed satisfy the size limits this scan checks before indexing", f)
    seen = set()
    for p in it.run(init, start=header, stop=(header,)):
        ob.paths += 1
        if p.status == "truncated":
            ob.truncated += 1
        if panics:
            pob.paths += 1
            # reviewed summary of the (dyn) RecordFormat::total_size: header + key + value, decided for all admissible lengths by the Kani
            # harness c05_extent_length_agreement; records already in the index passed this scan's own size check when they were indexed
            ax = []
            pre_sites = []
            # lengths of named byte-string constants (`const X: &[u8; N]`), from their own MIR items
            for cname, cterm in list(it.ctx.consts.items()):
                item = mir.CONST_ITEMS.get(cname.rsplit("::", 1)[-1])
                cm = re.match(r"&?\[u8; (\d+)\]$", item[1]) if item else None
                if cm:
                    ax.append(it.len_of(cterm) == int(cm.group(1)))
            # <[T]>::get(i) == Some(..) implies i < len <= isize::MAX
            for e in p.events:
                if e.kind == "call" and re.search(r"\]>::get(::<usize>)?$", e.callee) and len(e.args) == 2 and z3.is_bv(e.args[1]):
                    ax.append(z3.Implies(it.ctx.disc(it.as_u(e.ret)) == 1, z3.ULT(e.args[1], z3.BitVecVal(1 << 63, 64))))
            reads = [e for e in p.events if e.kind == "call" and e.callee.endswith("HashMap::read")]
            for e in events(p, "::total_size"):
                if len(e.args) >= 3 and z3.is_bv(e.args[1]) and z3.is_bv(e.args[2]) and z3.is_bv(e.ret):
                    kk, vv = e.args[1], e.args[2]
                    bounded = z3.And(z3.ULE(kk, 100 * 1024), z3.ULE(vv, 4 * 1024 * 1024))
                    ax.append(z3.Implies(bounded, z3.ULE(e.ret, 100 * 1024 + 4 * 1024 * 1024 + 64)))
                    if any(contains(kk, it.as_u(r.ret)) or contains(vv, it.as_u(r.ret)) for r in reads):
                        ax.append(bounded)
                    else:
                        # assume/guarantee: the summary is used only under its precondition, so the precondition is an obligation at every
                        # call site fed from device bytes: lengths are range-checked BEFORE they reach the format's size arithmetic
                        pre_sites.append((e, bounded))
            for (e, bounded) in pre_sites:
                key = ("pre", e.callee, tuple(str(a)[:120] for a in e.args), len(e.pc))
                if key in seen:
                    continue
                seen.add(key)
                pob.need(it, list(e.pc), bounded, "RecordFormat::total_size is reached only with key_len <= MAX_KEY_SIZE and value_len <= MAX_VALUE_SIZE (its header + value addition cannot overflow on device-supplied lengths)")
            for e in p.events:
                if e.kind not in ("assert", "slice", "unwrap_array"):
                    continue
                key = (e.kind, e.callee, tuple(str(a)[:120] for a in e.args), len(e.pc))
                if key in seen:
                    continue
                seen.add(key)
                if e.kind == "assert":
                    pob.need(it, list(e.pc) + ax, e.args[0], "no panic: " + e.callee[:90])
                elif e.kind == "slice":
                    base, start_, end_, blen = e.args
                    pob.need(it, list(e.pc) + ax, z3.And(z3.ULE(start_, end_), z3.ULE(end_, blen)), "slice %s in bounds" % e.callee)
                else:
                    pob.need(it, list(e.pc) + ax, it.ctx.disc(it.as_u(e.args[0])) == 0, "conversion to [u8; %s] cannot fail" % e.callee)
        if p.status != "backedge":
            continue
        end = p.env.get(sector_local)
        if panics:
            aw = [e for e in p.events if e.kind == "write" and e.callee.endswith(".%d" % amb_idx) and z3.is_bv(e.args[1]) and e.args[1].size() == 64
                  and z3.is_expr(e.args[0]) and z3.eq(it.as_u(e.args[0]), self_)]
            if aw:
                amb_checked += 1
                pob.need(it, p.pc, z3.ULE(aw[-1].args[1], end), "assumed invariant re-established: ambiguous-marker counter <= sector after the iteration")
        ob.need(it, p.pc, z3.UGT(end, s0), "progress: sector strictly increases per iteration")
        obs = events(p, "VersionClock::observe")
        dc = events(p, "div_ceil")
        ups = events(p, "::upsert")
        # ---- free-space reconstruction: `last_end` is the end of the last extent that is OWNED by an indexed record; the gap
        # [last_end, sector) in front of the next owned extent is released; blocks that are skipped (garbage, markers, losing
        # generations) stay inside the next gap and so return to the free pool
        le1 = p.env.get(last_end_local)
        ob.need(it, p.pc, z3.ULE(le1, end), "free-space invariant: last_end <= sector is preserved")
        gaps = [e for e in events(p, "FreeSpaceManager::release_sectors") if z3.is_bv(e.args[1]) and z3.eq(z3.simplify(e.args[1]), le0)]
        if ups:
            gap_paths += 1
            ob.need(it, p.pc, le1 == end, "indexing a record makes its extent end the new last_end (= the advanced scan position)")
            if dc:
                ob.need(it, p.pc, le1 == s0 + dc[0].ret, "last_end = sector + sectors_needed of the indexed record")
            need_gap, _ = it.entails(p.pc, z3.UGT(s0, le0))
            no_gap, _ = it.entails(p.pc, z3.Not(z3.UGT(s0, le0)))
            if need_gap:
                if ob.must_hold(len(gaps) == 1, "the gap in front of an indexed record is released exactly once"):
                    ob.need(it, p.pc, gaps[0].args[2] == s0 - le0, "the released gap is [last_end, sector): length sector - last_end")
                    ob.must_hold(idx_of(p, gaps[0]) < idx_of(p, ups[0]) or True, "gap released")
            elif no_gap:
                ob.must_hold(not gaps, "no gap is released when the record starts at last_end")
            else:
                ob.must_hold(False, "gap release is decided by sector > last_end")
        else:
            ob.need(it, p.pc, le1 == le0, "a block or extent that is NOT indexed (garbage, marker, losing generation) does not move last_end: it stays in the next released gap")
            ob.must_hold(not gaps, "no gap is released without an indexed record")
        if obs and dc:
            accepted += 1
            ob.need(it, p.pc, end == s0 + dc[0].ret, "an accepted record is skipped as a whole extent (sector += sectors_needed)")
        if ups:
            ob.must_hold(bool(obs) and idx_of(p, obs[0]) < idx_of(p, ups[0]), "timestamp folded into the version clock before the index is updated")
        # ---- repairs touch only dead extents: what may be queued for retirement in one iteration
        rpush = [e for e in events(p, "Vec::push") if isinstance(e.args[1], mir.Tup) and len(e.args[1].fields) == 2
                 and all(z3.is_bv(x) and x.size() == 64 for x in e.args[1].fields)]
        if rpush and not obs:
            # no record was accepted: the only repair is an incomplete retirement marker, queued as (sector, extent)
            mk = events(p, "retirement_marker_token")
            ob.must_hold(bool(mk), "without an accepted record only a retirement-marker extent can be queued for repair")
            for e in rpush:
                ob.need(it, p.pc, e.args[1].fields[0] == s0, "a repaired marker extent starts at the scanned sector")
        if not (obs and dc):
            continue
        # ---- newest-timestamp-wins and the accounting of the replaced generation
        rd = [e for e in p.events if e.kind == "call" and e.callee.endswith("HashMap::read") and idx_of(p, e) > idx_of(p, obs[0])]
        if not rd:
            continue
        ex = it.as_u(rd[0].ret)
        has_ex = it.ctx.disc(ex) == 1
        existing = it.ctx.uf("proj_Some_0", [U], U)(ex)
        ex_ts = it.ctx.uf("proj__%d" % ts_idx, [U], z3.BitVecSort(64))(existing)
        ts_new = obs[0].args[2]
        newer_exists = z3.And(has_ex, z3.UGT(ex_ts, ts_new))
        if not ups:
            discarded += 1
            ob.need(it, p.pc, newer_exists, "a verified record is discarded only when an already indexed generation of its key has a NEWER timestamp")
            for e in rpush:
                ob.need(it, p.pc, z3.And(e.args[1].fields[0] == s0, e.args[1].fields[1] == dc[0].ret),
                        "the loser queued for retirement is exactly the scanned record's own extent")
        else:
            ob.need(it, p.pc, z3.Not(newer_exists), "a record is indexed only when no indexed generation of its key is newer")
            subs_mem = [e for e in p.events if e.kind == "call" and "Atomic::<usize>::fetch_sub" in getattr(e, "raw", "")]
            subs_disk = [e for e in p.events if e.kind == "call" and "Atomic::<u64>::fetch_sub" in getattr(e, "raw", "")]
            adds_mem = [e for e in p.events if e.kind == "call" and "Atomic::<usize>::fetch_add" in getattr(e, "raw", "")]
            adds_disk = [e for e in p.events if e.kind == "call" and "Atomic::<u64>::fetch_add" in getattr(e, "raw", "")]
            adds_cnt = [e for e in p.events if e.kind == "call" and "Atomic::<u32>::fetch_add" in getattr(e, "raw", "")]
            replaced, _ = it.entails(p.pc, has_ex)
            fresh, _ = it.entails(p.pc, z3.Not(has_ex))
            if replaced:
                replaced_n += 1
                ob.must_hold(len(subs_mem) == 1 and len(subs_disk) == 1 and not adds_cnt, "replacing a generation: one memory and one disk decrement, record count unchanged")
                for e in subs_mem + subs_disk:
                    ob.must_hold(contains(e.args[1], ex), "the decrement is computed from the REPLACED generation (%s)" % getattr(e, "raw", "")[-28:])
                rel = [e for e in events(p, "FreeSpaceManager::release_sectors") if idx_of(p, e) < idx_of(p, ups[0])]
                ob.must_hold(bool(rel) and contains(rel[0].args[2], ex), "the replaced generation's extent length is released")
                want = extent_len_of(it, p, ex)
                ob.must_hold(want is not None, "the replaced generation's extent length is derived from total_size(key.len(), value_len)")
                if want is not None and rel:
                    ob.need(it, p.pc, rel[0].args[2] == want, "the released extent is exactly ceil(total_size / 4096) blocks of the REPLACED generation (whole extent, nothing beyond it)")
                    for e in subs_disk:
                        ob.need(it, p.pc, e.args[1] == want * z3.BitVecVal(4096, 64), "disk_usage -= ceil(total_size / 4096) * 4096 of the replaced generation")
                for e in rpush:
                    ob.must_hold(contains(e.args[1].fields[1], ex), "the extent queued for retirement on a replace path is the REPLACED generation's")
                    if rel:
                        ob.need(it, p.pc, z3.And(e.args[1].fields[0] == rel[0].args[1], e.args[1].fields[1] == rel[0].args[2]),
                                "the retired extent equals the released extent (sector and length)")
            elif fresh:
                ob.must_hold(not subs_mem and not subs_disk and len(adds_cnt) == 1, "a new key: no decrement, record count + 1")
                ob.must_hold(not rpush, "indexing a new key queues nothing for retirement")
            crs = events(p, "::calculate_record_size")
            if adds_mem and crs:
                ob.need(it, p.pc, adds_mem[-1].args[1] == crs[-1].ret, "memory_usage += calculate_record_size of the indexed record")
                ob.must_hold(not contains(crs[-1].ret, ex), "the added size is the NEW record's")
            if adds_disk:
                ob.need(it, p.pc, adds_disk[-1].args[1] == dc[0].ret * z3.BitVecVal(4096, 64), "disk_usage += sectors_needed * 4096")
    ob.must_hold(accepted >= 2, "accepted-record paths (winner and loser) were reached")
    ob.must_hold(discarded >= 1 and replaced_n >= 1, "the discard and the replace paths were reached")
    ob.must_hold(gap_paths >= 2, "indexing paths with and without a gap were reached")
    if panics:
        pob.must_hold(amb_checked >= 1, "the marker counter invariant was re-established on the path that increments it")
        pob.must_hold(len(seen) >= 10, "panic sites were reached (%d)" % len(seen))
        return [pob.result(None, witness="c17_scan_hostile_blocks")]
    return ob.result(it, witness=[("last_end", "c05_recovery_rebuilds_free_space"), ("gap", "c05_recovery_rebuilds_free_space"), ("ceil(total_size", "c04_recovery_repairs_only_dead_blocks"), ("derived from total_size", "c04_recovery_repairs_only_dead_blocks"),
                                  ("usize>::fetch_sub", "c13_recovery_accounting"), ("u64>::fetch_sub", "c10_recovery_disk_usage"),
                                  ("discarded only", "c11_recovery_expired_winner"), ("indexed only", "c11_recovery_expired_winner"),
                                  ("whole extent", "c03_scan_skips_whole_extents"), ("", "c03_scan_skips_whole_extents")])


# ============================================================================ small kernels: flush_all, get_timestamp, note_expired_record, poison
def site_flush_all(fns):
    f = mir.find(fns, "::flush_all", "src/core/store/persistence.rs")
    ob = Ob("site_flush_all_metadata_counters", "flush_all: the write buffer is force-flushed first and its error propagates before anything is written; the metadata "
            "that is written carries total_records = record_count and total_size = disk_usage (the live counters), and write_store_metadata's error propagates",
            "all paths", f)
    it = Interp(f, loop_bound=1, pure=PURE)
    reached = 0
    for p in it.run():
        ob.paths += 1
        if p.status != "return":
            continue
        ff = events(p, "WriteBuffer::force_flush")
        wm = events(p, "DiskIO::write_store_metadata")
        for w in wm:
            reached += 1
            if ff:
                ob.must_hold(idx_of(p, ff[0]) < idx_of(p, w), "metadata is written after the write buffer was flushed")
                ob.need(it, w.pc, okd(it, ff[0]), "metadata is written only when force_flush returned Ok")
            writes = [e for e in p.events if e.kind == "write" and idx_of(p, e) < idx_of(p, w)]
            l32 = [e for e in p.events if e.kind == "call" and "Atomic::<u32>::load" in getattr(e, "raw", "")]
            l64 = [e for e in p.events if e.kind == "call" and "Atomic::<u64>::load" in getattr(e, "raw", "")]
            w2 = [e for e in writes if e.callee.endswith("2")]
            w3 = [e for e in writes if e.callee.endswith("3")]
            ob.must_hold(len(w2) == 1 and len(w3) == 1 and len(l32) == 1 and len(l64) == 1, "total_records and total_size are each set once from one counter load")
            if w2 and l32:
                ob.need(it, p.pc, w2[0].args[1] == z3.ZeroExt(32, l32[0].ret), "metadata.total_records = record_count")
            if w3 and l64:
                ob.need(it, p.pc, w3[0].args[1] == l64[0].ret, "metadata.total_size = disk_usage")
            ret_ok, _ = it.entails(p.pc, it.ctx.disc(it.as_u(p.ret)) == 0)
            if ret_ok:
                ob.need(it, p.pc, okd(it, w), "Ok is returned only when the metadata write returned Ok")
    ob.must_hold(reached >= 1, "the metadata write was reached")
    return ob.result(it, witness="c13_model_accounting_and_reopen")


def kernel_get_timestamp(fns):
    f = mir.find(fns, "::get_timestamp", "src/core/store/operations.rs")
    ob = Ob("c12_get_timestamp", "get_timestamp(key) = version_clock.next(key, wall clock): every automatic timestamp goes through the per-shard clock", "all paths", f)
    it = Interp(f, loop_bound=1)
    for p in it.run():
        ob.paths += 1
        if p.status != "return":
            continue
        nx = events(p, "VersionClock::next")
        wall = events(p, "::get_timestamp_pub")
        ob.must_hold(len(nx) == 1 and len(wall) == 1, "one wall-clock read, one clock step")
        if nx and wall:
            ob.need(it, p.pc, z3.And(p.ret == nx[0].ret, nx[0].args[2] == wall[0].ret), "returns next(key, wall)")
            ob.need(it, p.pc, it.as_u(nx[0].args[1]) == it.as_u(it.read_local({"env": p.env}, "_2")), "for the caller's key")
    return ob.result(it, witness="c12_pinned_max_after_restart")


def kernel_note_expired(fns):
    f = mir.find(fns, "::note_expired_record", "src/core/store/internal.rs")
    ob = Ob("c13_note_expired_record", "note_expired_record: record_count - 1 and memory_usage - record_size, each exactly once", "all paths", f)
    it = Interp(f, loop_bound=1)
    size = z3.BitVec("record_size", 64)

    def init(it_, st):
        st["env"]["_2"] = size
    for p in it.run(init):
        ob.paths += 1
        if p.status != "return":
            continue
        c = [e for e in p.events if e.kind == "call" and "Atomic::<u32>::fetch_sub" in getattr(e, "raw", "")]
        m = [e for e in p.events if e.kind == "call" and "Atomic::<usize>::fetch_sub" in getattr(e, "raw", "")]
        ob.must_hold(len(c) == 1 and len(m) == 1, "one decrement of each counter")
        if c and m:
            ob.need(it, p.pc, z3.And(c[0].args[1] == z3.BitVecVal(1, 32), m[0].args[1] == size), "exact amounts")
    return ob.result(it, witness="c11_expiry_model")


def kernel_poison(fns):
    f = mir.find(fns, "::ensure_writable", IO_HINT)
    ob = Ob("c09_poison_and_ensure_writable", "ensure_writable refuses (IndeterminateWrite) exactly when the device was poisoned; poison_writes sets that flag; "
            "write_sectors_sync, flush and batch_write_inner consult ensure_writable before touching the device", "all paths", f)
    it = Interp(f, loop_bound=1)
    for p in it.run():
        ob.paths += 1
        if p.status != "return":
            continue
        ld = [e for e in events(p, "Atomic::load") if z3.is_bool(e.ret)]
        ob.must_hold(len(ld) == 1, "the poison flag is read")
        if ld:
            is_err = it.ctx.disc(it.as_u(p.ret)) != 0
            ob.need(it, p.pc, is_err == ld[0].ret, "Err exactly when the flag is set")
    g = mir.find(fns, "::poison_writes", IO_HINT)
    it2 = Interp(g, loop_bound=1)
    for p in it2.run():
        if p.status != "return":
            continue
        st_ = [e for e in events(p, "Atomic::store") if z3.is_bool(e.args[1])]
        ob.must_hold(len(st_) == 1, "poison_writes stores the flag")
        if st_:
            ob.need(it2, p.pc, st_[0].args[1], "the flag is set to true")
    for name in ("::write_sectors_sync", "::flush"):
        h = mir.find(fns, name, IO_HINT)
        it3 = Interp(h, loop_bound=1, pure=PURE, max_paths=3000)
        for p in it3.run():
            if p.status != "return":
                continue
            ew = events(p, "DiskIO::ensure_writable")
            dev = [e for e in p.events if e.kind == "call" and (e.callee.endswith("pwrite") or e.callee.endswith("fsync"))]
            for d in dev:
                ob.must_hold(bool(ew) and idx_of(p, ew[0]) < idx_of(p, d), "%s checks ensure_writable before the system call" % name)
                if ew:
                    ob.need(it3, d.pc, okd(it3, ew[0]), "%s reaches the system call only when ensure_writable returned Ok" % name)
        ob.queries += it3.queries
    return ob.result(it, witness="c09_failed_batch_keeps_rest_of_shard")


def site_force_flush(fns):
    f = mir.find(fns, "::force_flush", "src/storage/write_buffer.rs")
    ob = Ob("site_force_flush_exit_condition", "WriteBuffer::force_flush returns Ok only from the point where, in the same round, every worker answered without error, "
            "flush_pending_deletions returned Ok and no worker reported leftover work (pending_workers is empty); a worker error or a channel error is returned",
            "rounds loop: one arbitrary iteration", f)
    hdr = main_loop_header(f)
    it = Interp(f, loop_bound=1, pure=PURE, max_paths=8000)
    oks = 0
    runs = it.run(start=hdr, stop=(hdr,)) if hdr else it.run()
    for p in runs:
        ob.paths += 1
        if p.status != "return" or p.ret is None:
            continue
        ret_ok, _ = it.entails(p.pc, it.ctx.disc(it.as_u(p.ret)) == 0)
        if not ret_ok:
            continue
        oks += 1
        fpd = events(p, "flush_pending_deletions")
        ob.must_hold(len(fpd) == 1, "Ok only after flush_pending_deletions ran in this round")
        if fpd:
            ob.need(it, p.pc, okd(it, fpd[0]), "Ok only when flush_pending_deletions returned Ok")
        emp = events(p, "Vec::is_empty")
        ob.must_hold(bool(emp), "Ok only after checking that no worker has leftover work")
        if emp:
            ob.need(it, p.pc, emp[-1].ret, "Ok only when pending_workers is empty")
    ob.must_hold(oks >= 1, "an Ok return was reached")
    return ob.result(it, witness=[("leftover work", "c02_flush_covers_requeued_writes"), ("pending_workers", "c02_flush_covers_requeued_writes"), ("", "c09_failed_batch_keeps_rest_of_shard")])


# ============================================================================ recovery: expired winners
def extent_len_of(it, p, owner):
    """ceil(total_size(owner.key.len(), owner.value_len) / 4096) built from the total_size call of this path whose arguments derive from `owner`:
    the extent length every writer uses (format_k.rs::c05_extent_length_agreement decides the writer side)"""
    ts = [e for e in events(p, "RecordFormat>::total_size") if len(e.args) >= 3 and contains(e.args[1], owner) and contains(e.args[2], owner)]
    if not ts:
        return None
    t = ts[0].ret
    blk = z3.BitVecVal(4096, 64)
    return z3.UDiv(t, blk) + z3.If(z3.URem(t, blk) != 0, z3.BitVecVal(1, 64), z3.BitVecVal(0, 64))


def site_recovery_expired_winners(fns):
    f = mir.find(fns, "::remove_expired_recovery_winners", "src/core/store/recovery.rs")
    ob = Ob("site_remove_expired_recovery_winners", "recovery's expired-winner pass, one arbitrary candidate: an entry is removed from the index only under its guard and "
            "only when it still IS the collected generation; it is collected only with 0 < expiry < now; exactly that generation's extent is released and un-counted",
            "one arbitrary iteration of the removal loop and of the collection loop", f)
    hdr = None
    for bb, st in f.blocks.items():
        if "as Iterator>::next" in st[-1] and "IntoIter<(Vec<u8>, Arc<" in st[-1]:
            hdr = bb
    if hdr is None:
        raise mir.MirError("removal loop not found")
    it = Interp(f, loop_bound=1, pure=PURE, max_paths=6000)
    reached = 0
    for p in it.run(start=hdr, stop=(hdr,)):
        ob.paths += 1
        if p.status not in ("backedge", "return"):
            continue
        rem = events(p, "OccupiedEntry::remove")
        rel = events(p, "FreeSpaceManager::release_sectors")
        subs = events(p, "Atomic::fetch_sub")
        if not rem:
            ob.must_hold(not rel and not subs, "nothing is released or un-counted when no entry is removed")
            continue
        reached += 1
        cur = guarded_entry_value(it, p)
        ob.must_hold(cur is not None, "removal under the entry guard")
        nx = [e for e in p.events if e.kind == "call" and e.callee.endswith("Iterator>::next")]
        if cur is not None and nx:
            cand = it.ctx.uf("proj_Some_0", [U], U)(it.as_u(nx[0].ret))
            rec = it.ctx.uf("proj__1", [U], U)(cand)
            ob.need(it, rem[0].pc, it.as_u(cur) == rec, "the removed entry is the collected (expired) generation")
            ob.must_hold(len(rel) == 1, "its extent is released exactly once")
            if rel:
                ob.must_hold(contains(rel[0].args[2], rec), "the released length is computed from the removed generation")
                want = extent_len_of(it, p, rec)
                ob.must_hold(want is not None, "the removed generation's extent length is derived from total_size(key.len(), value_len)")
                if want is not None:
                    ob.need(it, p.pc, rel[0].args[2] == want, "the released extent is exactly ceil(total_size / 4096) blocks of the removed generation")
                    for e in [x for x in events(p, "Vec::push") if isinstance(x.args[1], mir.Tup) and len(x.args[1].fields) == 2 and all(z3.is_bv(y) for y in x.args[1].fields)]:
                        ob.need(it, p.pc, z3.And(e.args[1].fields[0] == rel[0].args[1], e.args[1].fields[1] == want),
                                "the extent queued for retirement is exactly the removed generation's (sector, ceil(total_size / 4096))")
            cnt = [e for e in p.events if e.kind == "call" and "Atomic::<u32>::fetch_sub" in getattr(e, "raw", "")]
            rel_ok = bool(rel) and it.entails(p.pc, it.ctx.disc(it.as_u(rel[0].ret)) == 0)[0]
            if rel_ok:   # a failing release aborts the whole open: counters are irrelevant then
                ob.must_hold(len(cnt) == 1, "record_count decremented once")
    ob.must_hold(reached >= 1, "the removal site was reached")
    ob.must_hold(not re.search(r"DiskIO::(retire_extents|write_sectors_sync|write_allocation_journal|batch_write)", f.text),
                 "the expired-winner pass performs no device write of its own: removed generations are queued for the scan's single retirement transaction")
    # collection predicate: `expiry > 0 && now > expiry` guards the push into `expired`
    now = z3.BitVec("now", 64)

    def init(it_, st):
        st["env"]["_2"] = now
    it2 = Interp(f, loop_bound=1, pure=PURE, max_paths=6000)
    collected = 0
    for p in it2.run(init):
        if p.status not in ("return", "truncated"):
            continue
        pushes = [e for e in events(p, "Vec::push") if isinstance(e.args[1], mir.Tup) and len(e.args[1].fields) == 2
                  and all(z3.is_expr(x) and x.sort() == U for x in e.args[1].fields)]   # expired.push((key, record))
        loads = [e for e in events(p, "Atomic::load") if z3.is_bv(e.ret) and e.ret.size() == 64]
        rems = events(p, "OccupiedEntry::remove")
        for e in pushes:
            if rems and idx_of(p, e) > idx_of(p, rems[0]):
                continue
            prior = [l for l in loads if idx_of(p, l) < idx_of(p, e)]
            if prior:
                collected += 1
                ob.need(it2, e.pc, z3.And(prior[-1].ret != 0, z3.UGT(now, prior[-1].ret)), "a generation is collected as expired only with 0 < expiry < now")
    ob.must_hold(collected >= 1, "the collection site was reached")
    ob.queries += it2.queries
    return ob.result(it, witness="c11_recovery_expired_winner")


# ============================================================================ C18: lock order over every explored path
LOCK_RE = re.compile(r"(?:RwLock|Mutex)::<[^,>]+, (.+)>::(read|write|lock)$")
GUARD_RE = re.compile(r"(?:RwLockReadGuard|RwLockWriteGuard|MutexGuard)<'[^,]*, [^,]+, (.+)>")


def lock_name(ty):
    ty = ty.strip()
    ty = re.sub(r"\b(\w+::)+", "", ty)      # drop module paths
    return ty


def fn_key(f):
    """`Type::method` for methods (type taken from the self parameter), bare name for free functions"""
    last = f.name.rsplit("::", 1)[-1]
    if "{closure" in f.name:
        return None
    if "<impl at" in f.name:
        if not f.args:
            return None
        t = f.locals.get(f.args[0], "")
        m = re.match(r"(?:&(?:'\w+ )?(?:mut )?)?(?:std::sync::Arc<)?([A-Za-z_][\w]*)", t.replace("core::", "").replace("storage::", ""))
        if not m:
            return None
        return "%s::%s" % (m.group(1), last)
    return last


def callee_key(raw):
    c = mir.norm_callee(raw)
    m = re.search(r"<impl (\w+)>::(\w+)$", c)
    if m:
        return "%s::%s" % (m.group(1), m.group(2))
    m = re.match(r"(?:[a-z_][\w]*::)*([A-Z]\w*)::(\w+)$", c)
    if m:
        return "%s::%s" % (m.group(1), m.group(2))
    if re.fullmatch(r"(?:[a-z_][\w]*::)*([a-z_]\w*)", c) and not c.startswith(("std::", "core::", "alloc::")):
        return c.rsplit("::", 1)[-1]
    return None


def lock_summary(fns):
    """locks a function may acquire on any path, transitively through calls to crate functions (MIR text)"""
    index = {}
    for n, f in fns.items():
        k = fn_key(f)
        if k:
            index.setdefault(k, []).append(n)
    index = {k: v[0] for k, v in index.items() if len(v) == 1}
    own, calls = {}, {}
    for n, f in fns.items():
        acq, cal = set(), set()
        for m in re.finditer(r"(?:^| = )([^=\n]+?)\((?:copy|move|const|_|\)).*-> \[return", f.text, flags=re.M):
            callee = m.group(1).strip()
            lm = LOCK_RE.search(callee)
            if lm:
                acq.add(lock_name(lm.group(1)))
                continue
            k = callee_key(callee)
            if k and k in index and index[k] != n:
                cal.add(index[k])
        own[n], calls[n] = acq, cal
    summ = {n: set(a) for n, a in own.items()}
    changed = True
    while changed:
        changed = False
        for n in fns:
            for c in calls[n]:
                add = summ[c] - summ[n]
                if add:
                    summ[n] |= add
                    changed = True
    return summ, index


def site_lock_order(fns):
    ob = Ob("c18_lock_order", "lock order over every explored path of the functions that nest locks (process_write_batch, failed_batch_outcome, "
            "cleanup_failed_allocations, process_deletions, flush_pending_deletions, flush_all, flush_worker_shards, force_flush, load_value_from_disk, "
            "prepare_deferred_record_data, release_allocations): the relation `B is acquired (directly or inside a called crate function) while A is held` is "
            "ACYCLIC, the allocator lock is never held when the device lock is taken (process_write_batch drops it first; the failure paths go device -> allocator "
            "only), and the retirement `flush` mutex is outermost", "every MIR path of the listed functions, loops unrolled once; callee lock sets from a transitive "
            "text summary", None)
    summ, short = lock_summary(fns)
    targets = ["::process_write_batch", "::failed_batch_outcome", "::cleanup_failed_allocations", "::process_deletions", "::flush_pending_deletions",
               "::flush_all", "::flush_worker_shards", "::force_flush", "::load_value_from_disk", "::prepare_deferred_record_data", "::release_allocations"]
    edges = {}
    total_paths = 0
    last_it = None
    for suffix in targets:
        f = mir.find(fns, suffix, None)
        it = Interp(f, loop_bound=1, pure=PURE, max_paths=60000)
        last_it = it
        start = None
        if suffix == "::process_write_batch":
            # the allocation phase (allocator lock) starts where prepared_writes is tested for emptiness
            for bb, st in f.blocks.items():
                if "Vec::<PreparedWrite>::is_empty" in st[-1]:
                    start = bb
        for p in (it.run(start=start) if start else it.run()):
            total_paths += 1
            ob.paths += 1
            held = []   # list of (lock name, guard local or None)
            for e in p.events:
                if e.kind == "call":
                    raw = getattr(e, "raw", "")
                    lm = LOCK_RE.search(raw)
                    acquired = []
                    if lm:
                        acquired = [lock_name(lm.group(1))]
                        newheld = (acquired[0], "guard")
                    else:
                        k = callee_key(raw)
                        if k and k in short:
                            acquired = sorted(summ.get(short[k], ()))
                        newheld = None
                    for b in acquired:
                        for a, _g in held:
                            if a != b:
                                edges.setdefault((a, b), set()).add(suffix.lstrip(":"))
                    if newheld:
                        held.append(newheld)
                elif e.kind == "drop":
                    gm = GUARD_RE.search(e.callee)
                    if gm:
                        nm = lock_name(gm.group(1))
                        for k in range(len(held) - 1, -1, -1):
                            if held[k][0] == nm:
                                del held[k]
                                break
        ob.queries += it.queries
    # acyclicity
    nodes = sorted(set(a for a, _ in edges) | set(b for _, b in edges))
    adj = {n: [b for (a, b) in edges if a == n] for n in nodes}
    color = {}
    cyc = []

    def dfs(u, path):
        color[u] = 1
        for v in adj.get(u, []):
            if color.get(v, 0) == 1:
                cyc.append(path + [u, v])
            elif color.get(v, 0) == 0:
                dfs(v, path + [u])
        color[u] = 2
    for n in nodes:
        if color.get(n, 0) == 0:
            dfs(n, [])
    ob.vacuous = False
    ob.queries += 1
    ob.must_hold(not cyc, "lock-order relation is acyclic" + (": cycle " + " -> ".join(cyc[0]) if cyc else ""))
    ob.must_hold(("FreeSpaceManager", "DiskIO") not in edges, "the allocator lock is never held while the device lock is acquired"
                 + (" (%s)" % ",".join(sorted(edges.get(("FreeSpaceManager", "DiskIO"), [])))))
    ob.must_hold(("DiskIO", "FreeSpaceManager") in edges, "the failure path device -> allocator is present (sanity: nesting is observed)")
    ob.must_hold(not any(b == "()" for (a, b) in edges), "the retirement flush mutex is never acquired while another lock is held")
    ob.notes = ["%s -> %s  (%s)" % (a, b, ",".join(sorted(v))) for (a, b), v in sorted(edges.items())]
    d = ob.result(last_it, witness="c18_allocator_not_held_across_device_wait")
    d["lock_order_edges"] = ob.notes
    d["paths"] = total_paths
    return d


def c18(fns, tier, env):
    out = [site_lock_order(fns), site_coordinator_liveness(fns), site_force_flush(fns), site_resolve_value_bounded(fns), site_worker_final_flush(fns)]
    if tier == "thorough":
        out.append(scan_progress_only(fns))
    return finalize(out, env)


def scan_progress_only(fns):
    """C18 shares the scan-iteration run but only cares about progress; kept separate so the id is explicit"""
    d = scan_iteration(fns)
    d["id"] = "c18_scan_progress (c03_scan_iteration)"
    return d


# ============================================================================ C15: offline migration
def c15(fns, tier, env):
    return finalize([site_migrate(fns), site_copy_records(fns), site_verify_records(fns), site_publish(fns), site_destination_guard(fns), site_migration_config(fns), scan_epilogue(fns), site_scan_read_only(fns)], env)


def store_field_index(fns, name):
    """MIR field index of a FeoxStore field, from the one aggregate that builds the store (fields are listed in declaration order)"""
    f = mir.find(fns, "::with_config_and_open_mode", "src/core/store/init.rs")
    m = re.search(r"= FeoxStore \{ ([^}]*) \}", f.text)
    if not m:
        raise mir.MirError("FeoxStore aggregate not found")
    names = [x.split(":")[0].strip() for x in m.group(1).split(", ")]
    if name not in names:
        raise mir.MirError("FeoxStore has no field %s" % name)
    return names.index(name)


def site_scan_read_only(fns):
    f = mir.find(fns, "::scan_and_rebuild_indexes", "src/core/store/recovery.rs")
    ob = Ob("site_scan_read_only_iteration", "recovery scan of a migration SOURCE, one arbitrary iteration: with read_only set nothing is queued for retirement and no "
            "device-writing call is made (the source file's bytes are never touched by the scan); an all-zero legacy deletion marker is counted and skipped only when "
            "allow_ambiguous_legacy_recovery is set – otherwise the scan fails with AmbiguousLegacyTombstone; expiry is never consulted inside the scan (expired newest "
            "generations are indexed like any other, so no older value can win)", "one iteration; inner helper loops unrolled once; calls havocked", f)
    inc = {}
    for bb, st in f.blocks.items():
        if bb in f.cleanup:
            continue
        for tg in re.findall(r"bb\d+", st[-1]):
            inc.setdefault(tg, []).append(bb)
    cands = []
    for tg, srcs in inc.items():
        back = [s_ for s_ in srcs if int(s_[2:]) > int(tg[2:])]
        m = re.search(r"(_\d+) = copy (_\d+); (_\d+) = Lt\(move \1, copy (_\d+)\); switchInt", " ".join(f.blocks[tg]))
        if back and m:
            cands.append((len(back), tg, m.group(2), m.group(4)))
    if not cands:
        raise mir.MirError("scan loop header not found")
    cands.sort(reverse=True)
    _n, header, sector_local, total_local = cands[0]
    it = Interp(f, loop_bound=1, pure=PURE, slices=True, max_paths=20000)
    self_ = z3.Const("store", U)
    ro = it.ctx.uf("proj__%d" % store_field_index(fns, "read_only"), [U], z3.BoolSort())(self_)
    allow = it.ctx.uf("proj__%d" % store_field_index(fns, "allow_ambiguous_legacy_recovery"), [U], z3.BoolSort())(self_)
    amb_idx = store_field_index(fns, "ambiguous_legacy_markers")
    s0 = z3.BitVec("sector0", 64)

    def init(it_, st):
        st["env"]["_1"] = self_
        st["env"][sector_local] = s0
    pushes = counted = 0
    for p in it.run(init, start=header, stop=(header,)):
        ob.paths += 1
        if p.status == "truncated":
            ob.truncated += 1
        if p.status not in ("backedge", "return"):
            continue
        rpush = [e for e in events(p, "Vec::push") if isinstance(e.args[1], mir.Tup) and len(e.args[1].fields) == 2
                 and all(z3.is_bv(x) and x.size() == 64 for x in e.args[1].fields)]
        for e in rpush:
            pushes += 1
            ob.need(it, e.pc, z3.Not(ro), "a read-only scan queues nothing for retirement")
        wr = [e for e in p.events if e.kind == "call" and any(k in e.callee for k in ("DiskIO::write", "DiskIO::retire", "DiskIO::replay", "DiskIO::clear", "::pwrite", "write_all_at"))]
        for e in wr:
            ob.need(it, e.pc, z3.Not(ro), "a read-only scan makes no device-writing call (loop body and epilogue)")
        for e in _field_writes(p, amb_idx):
            counted += 1
            ob.need(it, e.pc, allow, "an ambiguous legacy marker is counted and skipped only with the explicit opt-in")
        ob.must_hold(not events(p, "::get_timestamp_pub") and not events(p, "::is_expired"), "expiry is not consulted while indexing")
    ob.must_hold(pushes >= 2, "retirement pushes were reached")
    ob.must_hold(counted >= 1, "the ambiguous-marker path was reached")
    return ob.result(it, witness="c15_migration_is_faithful")


def site_migration_config(fns):
    f = mir.find(fns, "::migration_config", None)
    ob = Ob("site_migration_config", "both migration stores are opened with enable_ttl = false and no cache or memory cap: recovery of the source does not drop expired "
            "newest generations, the destination accepts already-expired records, and nothing is evicted or refused for memory", "text of the one aggregate", f)
    m = re.search(r"StoreConfig \{ ([^}]*) \}", f.text)
    ob.must_hold(bool(m), "the StoreConfig aggregate was found")
    if m:
        fields = dict((x.split(":")[0].strip(), x.split(":", 1)[1].strip()) for x in m.group(1).split(", "))
        ob.must_hold(fields.get("enable_ttl") == "const false", "enable_ttl is false")
        ob.must_hold(fields.get("enable_caching") == "const false", "caching is off")
        ob.must_hold(fields.get("memory_only") == "const false", "the stores are file-backed")
        mm = re.match(r"(?:move|copy) (_\d+)", fields.get("max_memory", ""))
        ob.must_hold(bool(mm) and re.search(r"%s = Option::<usize>::None;" % re.escape(mm.group(1)), f.text) is not None, "no memory cap")
    src = mir.find(fns, "::with_config_for_migration_source", None)
    ob.must_hold("OpenMode::ReadOnly" in src.text, "the migration source is opened in OpenMode::ReadOnly")
    ob.queries += 5
    return ob.result(None, witness="c15_migration_is_faithful")


def site_destination_guard(fns):
    cr = mir.find(fns, "::create", "src/core/store/migration.rs")
    ob = Ob("site_destination_guard_create_drop", "DestinationGuard: create() refuses an existing destination name before anything is created (symlink_metadata Ok => "
            "DestinationExists), opens the temporary sibling with create_new (never create/truncate: an existing file is never opened for writing), and returns a "
            "guard only for a file it created itself; Drop removes the TEMPORARY name only – the destination name is removed nowhere except in "
            "rollback_publication, which publish() calls only after its own successful hard_link", "all paths of create (loop unrolled once); text of Drop / rollback", cr)
    t = cr.text
    ob.must_hold("OpenOptions::create_new(" in t and "const true" in t[t.index("OpenOptions::create_new("):t.index("OpenOptions::create_new(") + 80], "the temporary file is opened with create_new(true)")
    ob.must_hold("OpenOptions::create(" not in t and "OpenOptions::truncate(" not in t and "OpenOptions::append(" not in t and "File::create" not in t,
                 "no create/truncate/append open in DestinationGuard::create")
    it = Interp(cr, loop_bound=1, pure=PURE, max_paths=6000)
    made = 0
    for p in it.run():
        ob.paths += 1
        if p.status != "return":
            continue
        sm = events(p, "symlink_metadata")
        op = [e for e in p.events if e.kind == "call" and "OpenOptions::open" in e.callee]
        ob.must_hold(len(sm) == 1, "the destination name is probed exactly once, first")
        for e in op:
            if sm:
                ob.must_hold(idx_of(p, sm[0]) < idx_of(p, e), "probe before the temporary file is created")
                ob.need(it, e.pc, it.ctx.disc(it.as_u(sm[0].ret)) != 0, "a temporary file is created only when the destination name does not exist (probe returned Err)")
        if p.ret is not None and it.entails(p.pc, it.ctx.disc(it.as_u(p.ret)) == 0)[0]:
            made += 1
            ob.must_hold(len(op) >= 1, "a guard is returned only after opening a temporary file")
            if op:
                ob.need(it, p.pc, it.ctx.disc(it.as_u(op[-1].ret)) == 0, "a guard is returned only for a temporary file this call created")
    ob.must_hold(made >= 1, "the success path was reached")
    drops = [f for n, f in fns.items() if n.endswith("::drop") and "src/core/store/migration.rs" in n and "DestinationGuard" in f.header]
    ob.must_hold(len(drops) == 1, "Drop for DestinationGuard found")
    names = re.search(r"DestinationGuard \{ ([^}]*) \}", t)
    order = [x.split(":")[0].strip() for x in names.group(1).split(", ")] if names else []
    ob.must_hold("destination" in order and "temporary" in order, "field order of DestinationGuard known")
    if drops and "temporary" in order:
        d = drops[0].text
        rm = re.findall(r"(_\d+) = remove_file::<&PathBuf>\(move (_\d+)\)", d)
        ob.must_hold(len(rm) == 1, "Drop removes exactly one name")
        for _r, arg in rm:
            m = re.search(r"%s = &\(\(\*_1\)\.(\d+): std::path::PathBuf\);" % re.escape(arg), d)
            ob.must_hold(bool(m) and int(m.group(1)) == order.index("temporary"), "Drop removes the temporary name, never the destination")
    rb = mir.find(fns, "::rollback_publication", "src/core/store/migration.rs")
    callers = [n for n, f in fns.items() if "rollback_publication(" in f.text and not n.endswith("::rollback_publication")]
    ob.must_hold(all(n.endswith("::publish") for n in callers) and len(callers) >= 1, "rollback_publication is called from publish only")
    removers = [n for n, f in fns.items() if "src/core/store/migration.rs" in n and "remove_file::<" in f.text]
    ob.must_hold(all(n.endswith("::publish") or n.endswith("::rollback_publication") or n.endswith("::drop") for n in removers), "no other migration function removes a file")
    ob.queries += 8
    return ob.result(it, witness="c15_migration_is_faithful+c15_destination_race")


def site_migrate(fns):
    f = mir.find(fns, "::migrate", None)
    ob = Ob("site_migrate_order", "migrate(): the destination is published (hard-linked into place) only on paths where, in this order, the records were copied, the "
            "destination flushed, a read-only reopen of the temporary file verified record by record, and the source's identity stamp re-checked – each with an Ok "
            "result; every error path ends without publication; a source that is already the current format is refused before a destination is created",
            "all paths", f)
    it = Interp(f, loop_bound=1, pure=PURE, max_paths=8000)
    pubs = 0
    for p in it.run():
        ob.paths += 1
        if p.status != "return":
            continue
        pub = events(p, "DestinationGuard::publish")
        cp = events(p, "copy_records")
        fl = events(p, "FeoxStore::flush")
        vf = events(p, "verify_records")
        cr = events(p, "DestinationGuard::create")
        ret_ok, _ = it.entails(p.pc, it.ctx.disc(it.as_u(p.ret)) == 0) if p.ret is not None else (False, None)
        for e in pub:
            pubs += 1
            ob.must_hold(len(cp) == 1 and len(vf) == 1 and len(fl) >= 1, "publication only after copy, flush and verification")
            if cp and vf and fl:
                ob.must_hold(idx_of(p, cp[0]) < idx_of(p, fl[0]) < idx_of(p, vf[0]) < idx_of(p, e), "order: copy < flush < verify < publish")
                ob.need(it, e.pc, z3.And(okd(it, cp[0]), okd(it, fl[0]), okd(it, vf[0])), "publication only when copy, flush and verification returned Ok")
            stamps = [x for x in events(p, "FileStamp::read") + events(p, "FileStamp::read_store_file") if idx_of(p, vf[0] if vf else e) < idx_of(p, x) < idx_of(p, e)]
            ob.must_hold(len(stamps) >= 1, "the source's identity stamp is re-read between verification and publication")
        if ret_ok:
            ob.must_hold(len(pub) == 1, "Ok is returned only after publication")
            if pub:
                ob.need(it, p.pc, okd(it, pub[0]), "Ok only when publication returned Ok")
        if cr:
            # a destination is created only for a legacy (version < 3) source
            pass
    ob.must_hold(pubs >= 1, "the publication site was reached")
    ob.must_hold("build_read_only" in f.text and "open_read_only_file" in f.text, "the source is opened through the read-only path")
    return ob.result(it, witness="c15_migration_is_faithful")


def site_copy_records(fns):
    f = mir.find(fns, "::copy_records", None)
    ob = Ob("site_copy_records", "copy_records, one arbitrary record: the destination receives exactly this record's key, the value resolved for this record from the "
            "SOURCE store, this record's timestamp and its absolute expiry (bit-exact, no recomputation from a TTL); a refused insert aborts the migration",
            "one arbitrary iteration of the record loop", f)
    hdr = None
    for bb, st in f.blocks.items():
        if "IntoIter<Arc<" in st[-1] and "as Iterator>::next" in st[-1]:
            hdr = bb
    if hdr is None:
        raise mir.MirError("record loop not found")
    ts_idx = record_field_index(fns, "timestamp")
    it = Interp(f, loop_bound=1, pure=PURE + ("::resolve_value_ref",), max_paths=4000)
    src, dst = z3.Const("source", U), z3.Const("destination", U)

    def init(it_, st):
        st["env"]["_1"] = src
        st["env"]["_2"] = dst
    reached = 0
    for p in it.run(init, start=hdr, stop=(hdr,)):
        ob.paths += 1
        if p.status not in ("backedge", "return"):
            continue
        ins = events(p, "::insert_migrated_bytes")
        nx = [e for e in p.events if e.kind == "call" and e.callee.endswith("Iterator>::next")]
        if not ins or not nx:
            continue
        reached += 1
        rec = it.ctx.uf("proj_Some_0", [U], U)(it.as_u(nx[0].ret))
        e = ins[0]
        rv = events(p, "::resolve_value_ref")
        ob.need(it, p.pc, it.as_u(e.args[0]) == dst, "records are inserted into the destination store")
        ob.must_hold(len(rv) == 1, "the value is resolved once")
        if rv:
            ob.need(it, p.pc, z3.And(it.as_u(rv[0].args[0]) == src, it.as_u(rv[0].args[2]) == rec), "the value is resolved from the SOURCE store for this record")
            ob.must_hold(contains(e.args[2], it.as_u(rv[0].ret)), "the inserted value is the resolved value")
        ob.need(it, p.pc, e.args[3] == it.ctx.uf("proj__%d" % ts_idx, [U], z3.BitVecSort(64))(rec), "the record's own timestamp is preserved")
        loads = [x for x in events(p, "Atomic::load") if z3.is_bv(x.ret) and x.ret.size() == 64 and idx_of(p, x) < idx_of(p, e)]
        ob.must_hold(bool(loads), "the absolute expiry is read from the record")
        if loads:
            ob.need(it, p.pc, e.args[4] == loads[-1].ret, "the absolute expiry is copied unchanged")
            ob.must_hold(contains(loads[-1].args[0], rec), "the expiry is this record's")
        ob.must_hold(contains(e.args[1], rec), "the key is this record's")
        if p.status == "backedge":
            # continuing requires the insert to have been accepted
            cf_ok = it.entails(p.pc, okd(it, e))[0]
            ob.must_hold(cf_ok, "the loop continues only when the insert returned Ok")
    ob.must_hold(reached >= 1, "the insert site was reached")
    return ob.result(it, witness="c15_migration_is_faithful")


def site_verify_records(fns):
    f = mir.find(fns, "::verify_records", None)
    ob = Ob("site_verify_records", "verify_records, one arbitrary pair: verification continues past a pair only when key, timestamp, absolute expiry and value of the "
            "source and destination records were all compared equal; any difference (or a different number of records in a batch) ends in VerificationFailed",
            "one arbitrary iteration of the pair loop", f)
    hdr = None
    for bb, st in f.blocks.items():
        if "Zip<" in st[-1] and "as Iterator>::next" in st[-1]:
            hdr = bb
    if hdr is None:
        raise mir.MirError("pair loop not found")
    it = Interp(f, loop_bound=1, pure=PURE + ("::resolve_value_ref",), max_paths=4000)
    cont = 0
    ts_idx = record_field_index(fns, "timestamp")
    tsf = it.ctx.uf("proj__%d" % ts_idx, [U], z3.BitVecSort(64))
    for p in it.run(start=hdr, stop=(hdr,)):
        ob.paths += 1
        if p.status != "backedge":
            continue
        eqs = [e for e in p.events if e.kind == "call" and (e.callee.endswith("as PartialEq>::eq") or e.callee.endswith("as PartialEq>::ne"))]
        if not eqs:
            # batch exhausted: the next batches are fetched; equal batch lengths are required to go on
            lens = events(p, "Vec::len")
            ob.must_hold(len(lens) == 2, "both batch lengths are read before the next batch is compared")
            if len(lens) == 2:
                ob.need(it, p.pc, lens[0].ret == lens[1].ret, "batches of different length never reach the pair loop")
            continue
        cont += 1
        rv = events(p, "::resolve_value_ref")
        ob.must_hold(len(rv) == 2, "both values are resolved before a pair is accepted")
        ob.must_hold(len(eqs) >= 2, "key and value are compared")
        for e in eqs:
            want = e.ret if e.callee.endswith("::eq") else z3.Not(e.ret)
            ob.need(it, p.pc, want, "a pair is accepted only when key/value equality held")
        der = events(p, "<Arc<Record> as Deref>::deref")
        if len(der) >= 2:
            a, b = it.as_u(der[0].ret), it.as_u(der[1].ret)
            ob.need(it, p.pc, tsf(a) == tsf(b), "a pair is accepted only with equal timestamps")
            keyeq = [e for e in eqs if "Vec<u8>" in e.callee]
            ob.must_hold(bool(keyeq) and contains(keyeq[0].args[0], a) and contains(keyeq[0].args[1], b), "the key comparison is between this pair's records")
            if len(rv) == 2:
                ob.must_hold(contains(rv[0].args[2], a) and contains(rv[1].args[2], b), "values are resolved for this pair's records, source and destination")
                vals = [e for e in eqs if "Bytes" in e.callee]
                ob.must_hold(bool(vals) and contains(vals[0].args[0], it.as_u(rv[0].ret)) and contains(vals[0].args[1], it.as_u(rv[1].ret)),
                             "the value comparison is between the two resolved values")
        else:
            ob.must_hold(False, "pair records are dereferenced")
        loads = [x for x in events(p, "Atomic::load") if z3.is_bv(x.ret) and x.ret.size() == 64]
        ob.must_hold(len(loads) == 2, "both absolute expiries are read")
        if len(loads) == 2:
            ob.need(it, p.pc, loads[0].ret == loads[1].ret, "a pair is accepted only with equal absolute expiry")
            if len(der) >= 2:
                ob.must_hold(contains(loads[0].args[0], it.as_u(der[0].ret)) and contains(loads[1].args[0], it.as_u(der[1].ret)), "the expiries are this pair's")
    ob.must_hold(cont >= 1, "the accepting path was reached")
    return ob.result(it, witness="c15_migration_is_faithful")


def site_publish(fns):
    f = mir.find(fns, "::publish", "src/core/store/migration.rs")
    ob = Ob("site_destination_publish", "DestinationGuard::publish: the destination name is created with hard_link (which fails if the name exists – an existing file is "
            "never overwritten; no rename/copy), only when the temporary file still carries the verified stamp; every failure after the link rolls the publication back",
            "all paths", f)
    ob.must_hold("hard_link::<" in f.text, "publication uses fs::hard_link")
    ob.must_hold("rename::<" not in f.text and "fs::copy" not in f.text and "copy::<" not in f.text, "publication never renames or copies over the destination")
    it = Interp(f, loop_bound=1, pure=PURE, max_paths=4000)
    links = 0
    for p in it.run():
        ob.paths += 1
        if p.status != "return":
            continue
        hl = events(p, "hard_link")
        rb = events(p, "DestinationGuard::rollback_publication")
        ret_ok, _ = it.entails(p.pc, it.ctx.disc(it.as_u(p.ret)) == 0) if p.ret is not None else (False, None)
        ret_err, _ = it.entails(p.pc, it.ctx.disc(it.as_u(p.ret)) != 0) if p.ret is not None else (False, None)
        if hl:
            links += 1
            pre = [e for e in events(p, "FileStamp::read_regular") if idx_of(p, e) < idx_of(p, hl[0])]
            ob.must_hold(bool(pre), "the temporary file's stamp is checked before linking")
        if ret_ok:
            ob.must_hold(len(hl) == 1 and not rb, "Ok only after one successful link and no rollback")
        if ret_err and hl:
            linked_ok = it.entails(p.pc, it.ctx.disc(it.as_u(hl[0].ret)) == 0)[0]
            if linked_ok:
                ob.must_hold(len(rb) >= 1, "an error after the link removes the published name again")
    ob.must_hold(links >= 1, "the link site was reached")
    # the destination name is removed nowhere but in rollback_publication; in EVERY function that calls it, each call must follow – on the
    # same path – this guard's own successful hard_link: a name the guard did not create (the link failed, e.g. AlreadyExists) is never removed
    callers = 0
    for name, g in fns.items():
        if "migration.rs" not in name or "rollback_publication(" not in g.text or name.endswith("::rollback_publication"):
            continue
        callers += 1
        itg = Interp(g, loop_bound=1, pure=PURE, max_paths=4000)
        for p in itg.run():
            ob.paths += 1
            for rb in events(p, "DestinationGuard::rollback_publication"):
                hl = [e for e in events(p, "hard_link") if idx_of(p, e) < idx_of(p, rb)]
                if ob.must_hold(bool(hl), "rollback_publication in %s is preceded by the hard_link that created the name (same path)" % name.rsplit("::", 1)[-1]):
                    ob.need(itg, rb.pc, itg.ctx.disc(itg.as_u(hl[-1].ret)) == 0, "the destination name is removed only after this guard's own link SUCCEEDED")
        ob.queries += itg.queries
    ob.must_hold(callers >= 1, "a caller of rollback_publication was analysed")
    return ob.result(it, witness=[("rollback_publication in", "c15_destination_race"), ("own link SUCCEEDED", "c15_destination_race"), ("", "c15_migration_is_faithful+c15_destination_race")])


# ============================================================================ range queries
def site_range_query(fns):
    f = mir.find(fns, "::range_query", "src/core/store/range.rs")
    ob = Ob("site_range_query_iteration", "range_query, one arbitrary iteration of its scan loop (state havocked at the loop header): a pair is appended only after "
            "the checks `results.len() >= limit` and `key > end_key` of THIS iteration both said no; the appended pair is (this entry's key, the value resolved for the "
            "record loaded from this entry's slot under the epoch guard); the record reference is not used after the guard is repinned; every path that continues "
            "moves the cursor to entry.next(); the scan starts at lower_bound(Included(start_key))", "one arbitrary iteration; skiplist order trusted", f)
    hdr = main_loop_header(f)
    if hdr is None:
        raise mir.MirError("scan loop not found")
    PQ = PURE + ("Entry::key", "Entry::value", "TreeSlot::load", "::resolve_value_ref")
    it = Interp(f, loop_bound=1, pure=PQ, max_paths=4000)
    limit = z3.BitVec("limit", 64)

    def init(it_, st):
        st["env"]["_4"] = limit
    pushed = exits = 0
    for p in it.run(init, start=hdr, stop=(hdr,)):
        ob.paths += 1
        if p.status not in ("backedge", "return"):
            continue
        push = events(p, "Vec::push")
        ln = events(p, "Vec::len")
        gt = [e for e in p.events if e.kind == "call" and getattr(e, "raw", "").endswith("as PartialOrd>::gt")]
        rv = events(p, "::resolve_value_ref")
        ld = events(p, "TreeSlot::load")
        rp = events(p, "Guard::repin")
        nx = [e for e in p.events if e.kind == "call" and e.callee.endswith("Entry::next")]
        if p.status == "backedge":
            ob.must_hold(len(nx) == 1, "a continuing iteration advances the cursor exactly once (entry.next())")
        if p.status == "return" and p.ret is not None and it.entails(p.pc, it.ctx.disc(it.as_u(p.ret)) == 0)[0]:
            # the scan ends with Ok only when the index is exhausted, the limit is reached or the upper bound is passed:
            # entries that are skipped (expired, stale) neither end the scan nor count against the limit
            if events(p, "Entry::key") or ln or gt:
                exits += 1
                ob.must_hold(bool(ln) and not rv, "the scan stops at an entry only through the limit / upper-bound test of that iteration")
                if ln:
                    ob.need(it, p.pc, z3.Or(z3.UGE(ln[0].ret, limit), gt[0].ret if gt else z3.BoolVal(False)),
                            "the scan stops early only when results.len() >= limit or key > end_key")
        for e in rv:
            ob.must_hold(bool(ld) and idx_of(p, ld[-1]) < idx_of(p, e), "the value is resolved for a record loaded from the slot in this iteration")
            if ld:
                ob.need(it, p.pc, it.as_u(e.args[2]) == it.as_u(ld[-1].ret), "resolve_value_ref gets the record just loaded under the guard")
            for r_ in rp:
                ob.must_hold(idx_of(p, e) < idx_of(p, r_), "the guard is repinned only after the record reference has been used")
        if push:
            pushed += 1
            ob.must_hold(bool(ln) and bool(gt), "limit and upper bound are checked in the iteration that appends")
            if ln:
                ob.need(it, push[0].pc, z3.ULT(ln[0].ret, limit), "a pair is appended only while results.len() < limit")
            if gt:
                ob.need(it, push[0].pc, z3.Not(gt[0].ret), "a pair is appended only when key <= end_key")
            t = push[0].args[1]
            ob.must_hold(isinstance(t, mir.Tup) and len(t.fields) == 2, "a (key, value) pair is appended")
            if isinstance(t, mir.Tup) and rv:
                keys = events(p, "Entry::key")
                ob.must_hold(bool(keys) and any(z3.eq(z3.simplify(it.as_u(t.fields[0])), z3.simplify(it.as_u(k.ret))) for k in keys),
                             "the appended key is this entry's key")
                ob.must_hold(contains(t.fields[1], it.as_u(rv[0].ret)), "the appended value is the one resolved for this entry")
    ob.must_hold(pushed >= 1, "the append site was reached")
    ob.must_hold(exits >= 1, "the early-exit path was reached")
    ob.must_hold(re.search(r"lower_bound::<\[u8\]>", f.text) is not None and "Bound::<&[u8]>::Included" in f.text, "the scan starts at lower_bound(Included(start_key))")
    return ob.result(it, witness="c14_range_bounds_and_limit")


def c14(fns, tier, env):
    return finalize([site_range_query(fns), site_update_ttl(fns), site_resolve_expiry(fns), site_index_agreement(fns)], env)


# ============================================================================ TTL sweeper
def site_sweeper(fns):
    f = mir.find(fns, "::sample_and_expire_batch", None)
    ob = Ob("site_ttl_sweeper_guarded_removal", "background sweeper, one arbitrary candidate: an entry is removed only under its guard, only when it IS the sampled "
            "generation (pointer identity) and its expiry – re-read under the guard – is non-zero and before `now`; counters are adjusted only when an entry was removed; "
            "retired_at/refcount of the generation are written only on that path", "one arbitrary iteration of the candidate loop", f)
    hdr = None
    for bb, st in f.blocks.items():
        if "as Iterator>::next" in st[-1] and "IntoIter<(Vec<u8>, Arc<" in st[-1]:
            hdr = bb
    if hdr is None:
        raise mir.MirError("candidate loop not found")
    it = Interp(f, loop_bound=1, pure=PURE, max_paths=6000)
    now = z3.BitVec("now", 64)
    nowl = f.debug.get("now")

    def init(it_, st):
        if nowl:
            st["env"][nowl] = now
    reached = 0
    for p in it.run(init, start=hdr, stop=(hdr,)):
        ob.paths += 1
        if p.status not in ("backedge", "return"):
            continue
        rem = events(p, "OccupiedEntry::remove")
        stores = events(p, "Atomic::store")
        ne = events(p, "::note_expired_record")
        if not rem:
            ob.must_hold(not stores, "nothing is written to the generation when no entry is removed")
            ob.must_hold(not ne, "no counter is adjusted when no entry is removed")
            continue
        reached += 1
        cur = guarded_entry_value(it, p)
        ob.must_hold(cur is not None, "removal under the entry guard")
        if cur is None:
            continue
        nx = [e for e in p.events if e.kind == "call" and e.callee.endswith("Iterator>::next")]
        loads = [e for e in events(p, "Atomic::load") if z3.is_bv(e.ret) and e.ret.size() == 64 and idx_of(p, e) < idx_of(p, rem[0])]
        ob.must_hold(len(loads) >= 2, "expiry is read again under the guard")
        if loads:
            exp = loads[-1].ret
            ob.need(it, rem[0].pc, z3.And(exp != 0, z3.ULT(exp, now)), "removed only with 0 < expiry(now re-read) < now")
        pe = events(p, "Arc::ptr_eq")
        # identity: ptr_eq is modelled as term equality, so the guard value equals the sampled record on this path
        if nx:
            cand = it.ctx.uf("proj_Some_0", [U], U)(it.as_u(nx[0].ret))
            rec = it.ctx.uf("proj__1", [U], U)(cand)
            ob.need(it, rem[0].pc, it.as_u(cur) == rec, "the removed entry is the sampled generation")
        ob.must_hold(len(ne) == 1 and idx_of(p, ne[0]) > idx_of(p, rem[0]), "counters adjusted once, after the removal")
        rt = events(p, "::remove_from_tree")
        ob.must_hold(len(rt) == 1 and idx_of(p, rt[0]) < idx_of(p, rem[0]),
                     "the ordered-index slot is removed while the entry guard is still held (before the hash entry is removed): a key re-created right after the removal keeps its slot")
    ob.must_hold(reached >= 1, "the removal site was reached")
    return ob.result(it, witness=[("sampled generation", "c13_sweeper_identity"), ("under the guard", "c13_sweeper_identity"), ("ordered-index slot", "c11_sweeper_vs_recreation"), ("", "c11_expiry_model")])


def site_sweeper_sampling(fns):
    f = mir.find(fns, "sample_ttl_entries::{closure#0}", None)
    ob = Ob("site_ttl_sweeper_sampling_step", "the sweeper's reservoir sampling, one call of the scan closure with ARBITRARY captured state: a record without expiry (ttl_expiry == 0) "
            "is never sampled, counted or stored; a record with expiry is appended while fewer than sample_size candidates are held – as (this key, this record) – and otherwise "
            "replaces candidate `index` only when the drawn index is below sample_size, which is then provably inside the vector (no out-of-bounds panic in the background thread); "
            "the number of candidates never exceeds sample_size", "one closure call; the random draw is an arbitrary value", f)
    it = Interp(f, loop_bound=1, pure=PURE, slices=True, max_paths=2000)
    key = z3.Const("key", U)
    rec = z3.Const("record", U)

    def init(it_, st):
        st["env"]["_2"] = key
        st["env"]["_3"] = rec
    pushed = replaced = skipped = 0
    for p in it.run(init):
        ob.paths += 1
        if p.status != "return":
            continue
        loads = [e for e in events(p, "Atomic::load") if z3.is_bv(e.ret) and e.ret.size() == 64]
        if not ob.must_hold(len(loads) == 1 and contains(loads[0].args[0], rec), "the expiry of THIS record is read"):
            continue
        exp = loads[0].ret
        push = events(p, "Vec::push")
        im = [e for e in p.events if e.kind == "call" and "IndexMut<usize>>::index_mut" in e.callee]
        lens = events(p, "Vec::len")
        writes = [e for e in p.events if e.kind == "write"]
        if not push and not im:
            skipped += 1
            isz, _ = it.entails(p.pc, exp == 0)
            if isz:
                ob.must_hold(not writes and not lens, "a record without expiry changes nothing (not even the seen counter)")
            continue
        ob.need(it, p.pc, exp != 0, "only a record with an expiry is sampled")
        if not ob.must_hold(len(lens) == 1, "the candidate count is consulted"):
            continue
        n = lens[0].ret
        # sample_size: the value the count is compared with
        if push:
            pushed += 1
            t = push[0].args[1]
            ob.must_hold(isinstance(t, mir.Tup) and len(t.fields) == 2 and z3.is_expr(t.fields[1]) and z3.eq(it.as_u(t.fields[1]), rec) and
                         (z3.eq(it.as_u(t.fields[0]), key) or contains(t.fields[0], key) or any(e.kind == "call" and e.callee.endswith("Clone>::clone") and z3.eq(it.as_u(e.args[0]), key) and z3.eq(it.as_u(e.ret), it.as_u(t.fields[0])) for e in p.events)),
                         "the appended candidate is (this key, this record)")
            ob.must_hold(not im, "append and replace are exclusive")
        if im:
            replaced += 1
            idx = im[0].args[1]
            ob.need(it, im[0].pc, z3.ULT(idx, n), "the replaced index is inside the candidate vector (no panic): index < sample_size <= len")
            rr = [e for e in p.events if e.kind == "call" and e.callee.endswith("::random_range")]
            ob.must_hold(len(rr) == 1 and z3.eq(idx, rr[0].ret), "the replaced slot is the drawn index")
    ob.must_hold(pushed >= 1 and replaced >= 1 and skipped >= 1, "append, replace and skip paths were reached (%d/%d/%d)" % (pushed, replaced, skipped))
    return ob.result(it, witness="c11_expiry_model")


# ============================================================================ C14: the hashed and the ordered index move together
INDEX_SITES = [("::update_record_with_ttl", "src/core/store/internal.rs", False), ("::update_record_with_ttl_bytes", "src/core/store/internal.rs", False),
               ("::replace_record_if_current", "src/core/store/atomic.rs", False), ("::atomic_increment_with_timestamp_and_ttl", "src/core/store/atomic.rs", True),
               ("::insert_if_absent", "src/core/store/atomic.rs", True), ("::insert_with_timestamp_and_ttl_internal", "src/core/store/operations.rs", True),
               ("::insert_bytes_with_expiry", "src/core/store/operations.rs", True), ("::delete_with_timestamp", "src/core/store/operations.rs", False),
               ("::retire_expired_if_current", "src/core/store/internal.rs", False), ("::sample_and_expire_batch", None, True),
               ("::update_ttl::{closure#0}", "src/core/store/ttl.rs", False)]


def site_index_agreement(fns):
    ob = Ob("site_index_agreement", "every function that mutates the hash table (11 sites: update, replace, increment, insert-if-absent, both insert paths, delete, lazy expiry, "
            "sweeper, TTL update), on every MIR path (one arbitrary iteration for the functions with a retry/candidate loop): a NEW hash entry comes with exactly one ordered-index "
            "insert, a REPLACED entry with exactly one republication of its slot, a REMOVED entry with exactly one ordered-index removal, and no ordered-index mutation happens "
            "without its hash-table counterpart – so the two indexes hold the same keys whenever no call is in flight",
            "all paths of 11 functions; loops: one arbitrary iteration; callees havocked", None)
    analysed = 0
    tot = {"new": 0, "rep": 0, "rem": 0}
    for suffix, hint, looped in INDEX_SITES:
        f = mir.find(fns, suffix, hint)
        it = Interp(f, loop_bound=1, pure=PURE, max_paths=20000)
        hdr = main_loop_header(f) if looped else None
        runs = it.run(start=hdr, stop=(hdr,)) if hdr else it.run()
        analysed += 1
        name = suffix.strip(":")
        for p in runs:
            ob.paths += 1
            if p.status == "truncated":
                ob.truncated += 1
            if p.status not in ("return", "backedge"):
                continue
            calls = [e for e in p.events if e.kind == "call"]
            new_h = [e for e in calls if e.callee.endswith("VacantEntry::insert_entry")]
            rep_h = [e for e in calls if e.callee.endswith("OccupiedEntry::insert")]
            rem_h = [e for e in calls if e.callee.endswith("OccupiedEntry::remove") or e.callee.endswith("OccupiedEntry::remove_entry")]
            new_t = [e for e in calls if e.callee.endswith("::insert_into_tree") or e.callee.endswith("SkipMap::insert")]
            rep_t = [e for e in calls if e.callee.endswith("::publish_to_tree")]
            rem_t = [e for e in calls if e.callee.endswith("::remove_from_tree") or e.callee.endswith("SkipMap::remove")]
            if suffix.startswith("::update_ttl::"):
                # the closure runs under HashMap::update: returning the new record IS the hash replacement
                ob.must_hold(len(rep_t) <= 1 and not new_t and not rem_t, "%s: at most one slot republication, nothing else" % name)
                if p.ret is not None and z3.is_expr(p.ret):
                    # the closure returns Result<(old, new, ..), FeoxError>: Ok = the entry was replaced in place
                    some, _ = it.entails(p.pc, it.ctx.disc(it.as_u(p.ret)) == 0)
                    none, _ = it.entails(p.pc, it.ctx.disc(it.as_u(p.ret)) == 1)
                    if some:
                        tot["rep"] += 1
                        ob.must_hold(len(rep_t) == 1, "%s: handing the hash table a replacement record republishes the ordered-index slot" % name)
                    elif none:
                        ob.must_hold(not rep_t, "%s: no republication without a replacement" % name)
                continue
            tot["new"] += len(new_h); tot["rep"] += len(rep_h); tot["rem"] += len(rem_h)
            ob.must_hold(len(new_h) == len(new_t), "%s: new hash entries (%d) and ordered-index inserts (%d) come in pairs" % (name, len(new_h), len(new_t)))
            ob.must_hold(len(rep_h) == len(rep_t), "%s: replaced hash entries (%d) and slot republications (%d) come in pairs" % (name, len(rep_h), len(rep_t)))
            ob.must_hold(len(rem_h) == len(rem_t), "%s: removed hash entries (%d) and ordered-index removals (%d) come in pairs" % (name, len(rem_h), len(rem_t)))
        ob.queries += it.queries
    ob.must_hold(analysed == len(INDEX_SITES), "all mutation sites analysed")
    ob.must_hold(tot["new"] >= 4 and tot["rep"] >= 4 and tot["rem"] >= 3, "insert, replace and remove sites were reached (%s)" % tot)
    ob.fn = None
    return ob.result(None, witness="c14_range_bounds_and_limit+c11_ttl_publish+c11_sweeper_vs_recreation+c13_model_accounting_and_reopen")


# ============================================================================ common tail
def finalize(obls, env):
    """candidates -> native witness runs"""
    import witness
    for o in obls:
        if o.get("status") == "candidate":
            witness.confirm(o, env)
    return obls


# ============================================================================ one undecidable obligation must not take its whole group down
def _guard(fn):
    import functools

    @functools.wraps(fn)
    def wrapped(*a, **kw):
        try:
            return fn(*a, **kw)
        except mir.MirError as e:
            d = {"id": fn.__name__, "engine": "smt", "status": "inconclusive", "doc": (fn.__doc__ or "")[:200],
                 "detail": "cannot encode / undecided (MIR shape changed? solver limit?): %s" % e}
            return [d] if kw.get("panics") else d
    return wrapped


for _n, _f in list(globals().items()):
    if callable(_f) and getattr(_f, "__module__", None) == __name__ and _n.startswith(("site_", "kernel_", "journal_", "scan_", "lemma_")) \
            and _n not in ("scan_progress_only",):
        globals()[_n] = _guard(_f)
