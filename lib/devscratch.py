#!/usr/bin/env python3
"""dev helper: make an instrumented scratch copy at a fixed place: devscratch.py <dir>"""
import os, sys
sys.path.insert(0, os.path.dirname(os.path.abspath(__file__)))
import common, kanirun
d = sys.argv[1]
common.copy_repo(d)
print(kanirun.instrument(d))
