#!/bin/bash
# dev helper: lib/dev.sh <harness-substring> [timeout_s]  – runs one harness in a persistent dev scratch
h="$1"; t="${2:-300}"
mkdir -p /var/tmp/fx
python3 /verif/lib/devscratch.py /var/tmp/fx/s1 >/dev/null || exit 2
cd /var/tmp/fx/s1
log=/var/tmp/fx/dev.$h.log
ulimit -v 25000000; /usr/bin/time -f "wall %es maxrss %MKB" timeout $t cargo kani --no-default-features --features system-alloc -Z stubbing -Z unstable-options --harness "$h" --no-assertion-reach-checks --target-dir /var/tmp/fx/t1 > $log 2>&1
rc=$?; echo "rc=$rc"
grep -E "^error|panicked at|Runtime (Symex|Solver|decision)|variables|VERIFICATION|Verification Time|cover properties|of [0-9]+ failed|Failed Checks|out of memory|timed out|wall " $log | tail -25
grep -B2 -A5 "Status: FAILURE" $log | head -60
[ "$rc" = 124 ] && pkill -x cbmc 2>/dev/null
true
