"""Registry: which solver obligations decide which property (see DESIGN.md §1)."""

FS = "src/storage/free_space.rs"


def H(file, name, doc, bounds="", tier="quick", timeout=600, **kw):
    d = {"file": file, "name": name, "doc": doc, "bounds": bounds, "tier": tier, "timeout": timeout}
    d.update(kw)
    return d


PROPS = {}

PROPS["C06"] = {
    "technique": "bounded model checking of the real FreeSpaceManager with Kani/CBMC: one inductive step from an arbitrary invariant-satisfying state, pointwise block-set oracle over a symbolic block",
    "level_text": "SAT-decided (CBMC/CaDiCaL) for ALL u64 arguments, all devices up to MAX_DEVICE_SIZE and all invariant-satisfying pre-states with <=2 (quick) / <=3 (thorough) free runs: allocate/release return values, exact free-set change for an arbitrary block, reject-changes-nothing, merged/consistent maps and reported totals after the call. Inductive: covers call sequences of any length whose states stay within the run bound.",
    "level_note": "Trusted: std BTreeMap is replaced by a bounded model (kani/verif_btree.rs, capacity 4) of the 8 methods free_space.rs uses; Kani/CBMC/CaDiCaL; more than 3 free runs are outside the bound.",
    "functions": [FS + "::allocate_sectors", FS + "::release_sectors", FS + "::try_merge_spaces",
                  FS + "::insert_free_space", FS + "::is_valid_free_space", FS + "::is_valid_sector_range",
                  FS + "::initialize", FS + "::update_fragmentation", FS + "::get_total_free",
                  FS + "::get_free_chunks_count", FS + "::get_largest_free_chunk"],
    "jobs": 6,
    "kani": [
        H(FS, "c06_alloc_step_n1", "allocate_sectors(any u64) from any valid state with <=1 free run vs block-set oracle", "device 17..2^28 blocks, <=1 run"),
        H(FS, "c06_release_step_n1", "release_sectors(any u64, any u64) from any valid state with <=1 free run vs block-set oracle", "device 17..2^28 blocks, <=1 run"),
        H(FS, "c06_alloc_step_n2", "allocate_sectors(any u64) from any valid state with <=2 free runs", "device 17..2^28 blocks, <=2 runs", timeout=900),
        H(FS, "c06_release_step_n2", "release_sectors(any,any) from any valid state with <=2 free runs", "device 17..2^28 blocks, <=2 runs", timeout=900),
        H(FS, "c06_initialize", "initialize(any u64 device size): Ok iff a data area exists, then exactly one run [16,total)", "all u64 sizes"),
        H(FS, "c06_fragmentation", "update_fragmentation = floor(100*(total-largest)/total), 0 for <=1 run", "<=2 runs, device <=4096 blocks"),
        H(FS, "c06_alloc_step_n3", "allocate_sectors from any valid state with <=3 free runs", "<=3 runs", tier="thorough", timeout=3600),
        H(FS, "c06_release_step_n3", "release_sectors from any valid state with <=3 free runs (post-state <=4 runs)", "<=3 runs", tier="thorough", timeout=3600),
        H(FS, "c06_alloc_then_release_n2", "alloc then release of the returned range restores the exact state; second release rejected", "<=2 runs", tier="thorough", timeout=3600),
        H(FS, "c06_release_then_alloc_n2", "after an accepted release an allocation of that length succeeds; totals return", "<=2 runs", tier="thorough", timeout=3600),
    ],
    "bounds": "device of 17..2^28 blocks (symbolic; 2^28 blocks = MAX_DEVICE_SIZE), <=2 free runs quick / <=3 thorough in the pre-state, all call arguments full u64; one call (two in the *_then_* harnesses) from an ARBITRARY invariant-satisfying state, so call histories of any length whose states stay within the run bound are covered inductively",
    "stubs": ["std::collections::BTreeMap -> /verif/kani/verif_btree.rs (bounded sorted-array model, capacity 4)",
              "FreeSpaceManager::update_fragmentation -> no-op in the step harnesses (checked alone in c06_fragmentation)"],
    "assumptions": ["std BTreeMap behaves like the sorted-array model for the 8 methods used (insert/remove/contains_key/len/iter/range/next/next_back)",
                    "device_size > 0 (every FeoxStore path sets it before use)",
                    "states with more than 3 free runs are outside the bound"],
    "outside": "more than 3 free runs in the pre-state; std's B-tree itself; device_size == 0 (bounds checks disabled)",
}

FMT = "src/storage/format.rs"
SEQ = "src/storage/seq_token.rs"
META = "src/storage/metadata.rs"
JRN = "src/storage/allocation_journal.rs"
IO = "src/storage/io.rs"
REC = "src/core/store/recovery.rs"
WB = "src/storage/write_buffer.rs"
RECORD = "src/core/record.rs"

PROPS["T"] = {  # scratch group for development
    "technique": "dev", "level_text": "dev", "level_note": "dev",
    "kani": [
        H(META, "c10_metadata_from_bytes_total", ""), H(META, "c17_metadata_short_input", ""), H(META, "c10_metadata_advance_generation", ""),
        H(JRN, "c10_journal_encode_active_layout", ""), H(JRN, "c10_journal_encode_clear_layout", ""), H(JRN, "c10_journal_geometry", ""),
        H(JRN, "c17_journal_decode_slot_count0", ""), H(JRN, "c17_journal_decode_slot_count1", ""), H(JRN, "c17_journal_decode_slot_count2", ""),
        H(JRN, "c17_journal_decode_slot_count3", ""), H(JRN, "c17_journal_decode_slot_huge_count", ""),
        H(JRN, "c03_journal_decode_selects_newest_valid", ""), H(JRN, "c17_journal_decode_wrong_length", ""),
    ],
}
