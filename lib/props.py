"""Registry: which solver obligations decide which property (see DESIGN.md §1)."""

FS = "src/storage/free_space.rs"


def H(file, name, doc, bounds="", tier="quick", timeout=600, **kw):
    d = {"file": file, "name": name, "doc": doc, "bounds": bounds, "tier": tier, "timeout": timeout}
    d.update(kw)
    return d


PROPS = {}

PROPS["C06"] = {
    "technique": "bounded model checking of the real FreeSpaceManager with Kani/CBMC: one inductive step from an arbitrary invariant-satisfying state, pointwise block-set oracle over a symbolic block",
    "level_text": "SAT-decided (CBMC/CaDiCaL) for ALL u64 arguments, all devices up to MAX_DEVICE_SIZE and all invariant-satisfying pre-states with <=2 (quick) / <=3 (thorough) free runs: allocate/release return values, exact free-set change for an arbitrary block, reject-changes-nothing, merged/consistent maps and reported totals after the call. Inductive: covers call sequences of any length whose states stay within the run bound.",
    "level_note": "Trusted: std BTreeMap is replaced by a bounded model (kani/verif_btree.rs, capacity 4) of the 8 methods free_space.rs uses; Kani/CBMC/CaDiCaL; more than 3 free runs are outside the bound.",
    "functions": [FS + "::allocate_sectors", FS + "::release_sectors", FS + "::try_merge_spaces",
                  FS + "::insert_free_space", FS + "::is_valid_free_space", FS + "::is_valid_sector_range",
                  FS + "::initialize", FS + "::update_fragmentation", FS + "::get_total_free",
                  FS + "::get_free_chunks_count", FS + "::get_largest_free_chunk"],
    "jobs": 6,
    "kani": [
        H(FS, "c06_alloc_step_n1", "allocate_sectors(any u64) from any valid state with <=1 free run vs block-set oracle", "device 17..2^28 blocks, <=1 run"),
        H(FS, "c06_release_step_n1", "release_sectors(any u64, any u64) from any valid state with <=1 free run vs block-set oracle", "device 17..2^28 blocks, <=1 run"),
        H(FS, "c06_alloc_step_n2", "allocate_sectors(any u64) from any valid state with <=2 free runs", "device 17..2^28 blocks, <=2 runs", timeout=900),
        H(FS, "c06_release_step_n2", "release_sectors(any,any) from any valid state with <=2 free runs", "device 17..2^28 blocks, <=2 runs", timeout=900),
        H(FS, "c06_initialize", "initialize(any u64 device size): Ok iff a data area exists, then exactly one run [16,total)", "all u64 sizes"),
        H(FS, "c06_fragmentation", "update_fragmentation = floor(100*(total-largest)/total), 0 for <=1 run", "<=2 runs, device <=4096 blocks"),
        H(FS, "c06_alloc_step_n3", "allocate_sectors from any valid state with <=3 free runs", "<=3 runs", tier="thorough", timeout=3600),
        H(FS, "c06_release_step_n3", "release_sectors from any valid state with <=3 free runs (post-state <=4 runs)", "<=3 runs", tier="thorough", timeout=3600),
        H(FS, "c06_alloc_then_release_n2", "alloc then release of the returned range restores the exact state; second release rejected", "<=2 runs", tier="thorough", timeout=3600),
        H(FS, "c06_release_then_alloc_n2", "after an accepted release an allocation of that length succeeds; totals return", "<=2 runs", tier="thorough", timeout=3600),
    ],
    "bounds": "device of 17..2^28 blocks (symbolic; 2^28 blocks = MAX_DEVICE_SIZE), <=2 free runs quick / <=3 thorough in the pre-state, all call arguments full u64; one call (two in the *_then_* harnesses) from an ARBITRARY invariant-satisfying state, so call histories of any length whose states stay within the run bound are covered inductively",
    "stubs": ["std::collections::BTreeMap -> /verif/kani/verif_btree.rs (bounded sorted-array model, capacity 4)",
              "FreeSpaceManager::update_fragmentation -> no-op in the step harnesses (checked alone in c06_fragmentation)"],
    "assumptions": ["std BTreeMap behaves like the sorted-array model for the 8 methods used (insert/remove/contains_key/len/iter/range/next/next_back)",
                    "device_size > 0 (every FeoxStore path sets it before use)",
                    "states with more than 3 free runs are outside the bound"],
    "outside": "more than 3 free runs in the pre-state; std's B-tree itself; device_size == 0 (bounds checks disabled)",
}

FMT = "src/storage/format.rs"
SEQ = "src/storage/seq_token.rs"
META = "src/storage/metadata.rs"
JRN = "src/storage/allocation_journal.rs"
IO = "src/storage/io.rs"
REC = "src/core/store/recovery.rs"
WB = "src/storage/write_buffer.rs"
RECORD = "src/core/record.rs"


LOCKS = "parking_lot RawRwLock/RawMutex *_slow paths -> assume(false) (sequential harnesses: locks always uncontended; Kani 0.68 ICEs on the real slow paths)"
CRCSEL = "seq_token::select_crc32c gets a cfg(kani) line asking the harness module for the CRC implementation: the crate's own crc32c_sw (default; cpuid/SSE4.2/ARM paths are not encodable), a RECORDER that logs exactly which bytes are fed in which order and checks seed chaining, a havoc (arbitrary u32) or a constant"
DROPSLOW = "std::sync::Arc::drop_slow -> no-op (Record drop glue: Bytes vtable dispatch + recursive successor chain explodes; harnesses never let a count reach zero)"
SORT = "X.sort_unstable_by_key(F) statements get a cfg(kani) twin calling an insertion-sort model (kani/sort_stub.rs): std's pdqsort is unexplorable under lengths CBMC cannot constant-propagate"
BTREE = "std::collections::BTreeMap -> kani/verif_btree.rs (bounded model, capacity 4) inside free_space.rs"

PROPS["C10"] = {
    "technique": "bounded model checking (Kani/CBMC) of the real encoders/decoders against an independent reference of the documented layout; CRC coverage via a recording CRC, CRC kernel against a bitwise reference",
    "level_text": "SAT-decided for all inputs in bound: record header bytes (v1/v2, 3-byte symbolic key, all u64 fields) equal the documented layout and round-trip; the record token covers exactly sector_le||extent-with-bytes-2..4-zeroed (all extents <=48 bytes) and folds to a non-zero u16; retirement markers (1 and 2 blocks) are byte-exact and bind sector+state; journal images (0..2 extents) have the documented offsets/size/checksum coverage; Metadata::from_bytes on ALL 136-byte inputs accepts exactly the documented validator's set with the documented CRC message and field offsets; generation advance keeps the image valid; crc32c_sw equals the bitwise Castagnoli reference per byte step from any state, is streaming (<=6 bytes) and matches the known answer.",
    "level_note": "Decides the byte-level layout kernels only: no file is written or reopened (FeoxStore is not constructible under Kani), so 'after flush() an independent reader finds exactly the live keys', golden files and v1/v2 write-compatibility are outside the claim. CRC hardware paths excluded; equality of long-message CRCs rests on byte-step + streaming induction.",
    "jobs": 8,
    "functions": [FMT + "::serialize_record_into", FMT + "::parse_record", FMT + "::write_retirement_marker", FMT + "::fill_retirement_markers", FMT + "::retirement_marker_token",
                  SEQ + "::crc32c_sw", SEQ + "::record_seq_token", SEQ + "::seq_token", SEQ + "::stamp_seq_token", SEQ + "::nonzero_token",
                  META + "::from_bytes", META + "::validate", META + "::encode", META + "::checksum", META + "::advance_generation",
                  JRN + "::encode_active", JRN + "::encode_clear", JRN + "::journal_header", JRN + "::journal_checksum", JRN + "::journal_image_size", IO + "::metadata_block",
                  REC + "::record_crc_head", REC + "::record_token", REC + "::is_complete_retirement_block"],
    "kani": [
        H(SEQ, "c10_crc32c_byte_step", "crc32c_sw one byte from ANY state == 8 bitwise reflected-0x82F63B78 steps", "all (u32 state, u8)"),
        H(SEQ, "c10_crc32c_known_answer", "crc32c(0,'123456789') == 0xE3069283 through the public entry point", "concrete"),
        H(SEQ, "c10_crc32c_sw_matches_bitwise_3", "crc32c_sw == bitwise reference", "<=3 symbolic bytes, any seed"),
        H(SEQ, "c10_crc32c_streaming", "crc(crc(s,a),b) == crc(s,a||b)", "|a|+|b| <= 6", tier="thorough"),
        H(SEQ, "c10_record_token_coverage", "record_seq_token feeds sector_le||data[0..2]||0000||data[4..] chained, folds to non-zero u16", "extent image 4..48 bytes, any sector"),
        H(SEQ, "c10_record_token_ignores_seq_field", "real kernel: token != 0 and independent of bytes 2..4", "8-byte image", tier="thorough"),
        H(SEQ, "c10_seq_token_coverage", "seq_token feeds sector_le||bytes", "17 bytes"),
        H(SEQ, "c10_stamp_seq_token", "stamp_seq_token changes only bytes 2..4, to the reference token, iff the head has a parsable header", "40-byte head, v1/v2"),
        H(FMT, "c10_serialize_header_v2", "FormatV2 header bytes == documented layout", "3-byte symbolic key, all u64 fields"),
        H(FMT, "c10_serialize_header_v1", "FormatV1 header bytes == documented layout (no expiry field)", "3-byte symbolic key"),
        H(FMT, "c10_roundtrip_v2", "serialize -> parse returns key, value_len, timestamp, expiry bit-exactly", "3-byte key"),
        H(FMT, "c10_retirement_marker_layout", "19-byte marker: tag|remaining|token|state=1; token message sector_le||tag||remaining||state", "any sector/remaining"),
        H(FMT, "c10_retirement_markers_two_blocks", "block j gets marker(sector+j, remaining-j); nothing else written", "2 blocks"),
        H(FMT, "c10_marker_token_binds_sector_and_state", "retirement_marker_token covers sector, bytes 0..16 and the state byte", "any 19 bytes"),
        H(FMT, "c10_format_selection", "version 1 -> v1 layout, everything else -> v2 layout", "all u32 versions"),
        H(META, "c10_metadata_from_bytes_total", "from_bytes accepts exactly the documented validator's set; CRC message = bytes 0..12,16..64,76..132; fields at documented offsets", "ALL 136-byte inputs"),
        H(META, "c10_metadata_advance_generation", "generation+1, image still valid, fields unchanged; u64::MAX rejected unmodified", "all valid images", tier="thorough", timeout=900),
        H(JRN, "c10_journal_encode_active_layout_n1", "ACTIVE image: offsets, size, zero padding, checksum coverage (both checksum fields zeroed), complement", "1 extent, all u64/usize values"),
        H(JRN, "c10_journal_encode_active_layout_n2", "same with two extents", "2 extents"),
        H(JRN, "c10_journal_encode_clear_layout", "CLEAR image layout and checksum coverage", "all generations"),
        H(JRN, "c10_journal_geometry", "2 slots x 3 blocks in blocks 1..7; a 1024-entry image fits a slot; image size formula", "all counts <= 1024"),
        H(IO, "c10_metadata_block_padding", "metadata image is zero-padded to one block", "all 136-byte images"),
        H(REC, "c10_complete_retirement_block_acceptance", "recovery accepts a tail marker block iff tag, remaining, state=1 and sector-bound token match", "<=24 bytes"),
        H(SEQ, "c17_header_range_block", "writer (token stamping) and recovery accept a head block iff 1 <= key_len <= the documented recoverable maximum (4066 v2/v3, 4074 v1): a record whose header exactly fills the block is stamped and recoverable", "all u16 key lengths"),
        H(REC, "c03_reader_token_equals_writer_token", "recovery's head+tail CRC folding feeds the same message as the writer's token", "40-byte extent, any head/tail split", tier="thorough"),
    ],
    "bounds": "see per-harness bounds; keys 3 bytes (symbolic content), extents <= 48 bytes for token coverage, 1-2 blocks for markers, 0-2 journal extents",
    "stubs": [CRCSEL, LOCKS],
    "assumptions": ["the reference layout in kani/*_k.rs is the documented one (README / constants) – it is written independently of the encoder, so a symmetric encoder+decoder change disagrees with it",
                    "CRC equality for long messages rests on the byte-step lemma + streaming (bounded) + known answer, not on one monolithic query"],
    "outside": "whole-file contents after flush, golden files, v1/v2 stores keeping their format when written to, hardware CRC, journal DECODING (12 KiB slot arrays exceed CBMC's array post-processing budget), records > 48 bytes",
}

PROPS["C17"] = {
    "technique": "bounded model checking (Kani/CBMC): panic/overflow/out-of-bounds freedom and exact accept/reject behaviour of each parser applied to device bytes, over all inputs in bound",
    "level_text": "SAT-decided absence of panics, arithmetic overflow and out-of-bounds access (Kani's automatic checks) plus exact accept/reject oracles for: parse_record v1/v2 and header_range on ANY <=64-byte buffer, header_range on a full block (key-length cap), Metadata::from_bytes on ALL 136-byte inputs with the real CRC kernel and on short inputs, coalesce_extents on any 3 extents, journal length check, journal_overlaps.",
    "level_note": "Per-function totality only. The scan loop as a whole (FeoxStore method: not constructible under Kani), termination, 'rejected open leaves the file byte-identical' and the allocation-journal slot decoder (12 KiB arrays: CBMC array post-processing does not finish) are outside the claim.",
    "jobs": 8,
    "functions": [FMT + "::parse_record", SEQ + "::header_range", META + "::from_bytes", META + "::validate", IO + "::coalesce_extents", JRN + "::decode", REC + "::journal_overlaps"],
    "kani": [
        H(SEQ, "c17_header_range_total", "header_range: Some(4..end) iff key_len>=1 and header fits min(4096,len)", "any <=64 bytes, v1/v2"),
        H(SEQ, "c17_header_range_block", "key-length cap on a full block: v1 <= 4074, v2/v3 <= 4066", "all u16 key lengths"),
        H(FMT, "c17_parse_record_v2_total", "parse_record v2 never panics; returns the documented fields or None iff too short", "any <=64 bytes, any length"),
        H(FMT, "c17_parse_record_v1_total", "parse_record v1 likewise", "any <=64 bytes"),
        H(META, "c17_metadata_from_bytes_real_crc", "from_bytes with the real software CRC never panics; accepted images are in range", "ALL 136-byte inputs"),
        H(META, "c17_metadata_short_input", "inputs shorter than 136 bytes are rejected without panic", "all lengths < 136"),
        H(IO, "c17_coalesce_extents_three", "Err iff empty extent/overflow/overlap; Ok => sorted, disjoint, non-adjacent, same block set", "any 3 (u64,usize) extents", timeout=900),
        H(JRN, "c17_journal_decode_wrong_length", "decode rejects any buffer that is not 6 blocks long", "lengths <= 64"),
        H(REC, "c17_journal_overlaps_total", "journal_overlaps never indexes out of range", "<=2 entries, any index"),
    ],
    "bounds": "buffers <= 64 bytes (parse_record/header_range), exactly 136 bytes (metadata), 3 extents (coalesce)",
    "stubs": [CRCSEL, LOCKS, SORT],
    "assumptions": ["each parser is analysed in isolation on arbitrary bytes (an over-approximation of what the scan can pass it)"],
    "outside": "scan_and_rebuild_indexes as a whole, termination, file left unmodified on a rejected open, behaviour of a store that did open, allocation_journal::decode_slot",
}

PROPS["C05"] = {
    "technique": "bounded model checking (Kani/CBMC): extent-length agreement across all sites for every admissible key/value length, and exact-block-set oracles for the release paths over the real FreeSpaceManager",
    "level_text": "SAT-decided: (i) writer, reader, retirement and recovery derive the same extent length for EVERY key length <= 100 KiB, value length <= 4 MiB and version, and the value fits; (ii) the write path's roll-back and scrub-release paths give back exactly the union of the eligible allocations' blocks (arbitrary block b), clear exactly those reservations and move disk_usage by the same amount, on a 64-block device with 2 allocations of symbolic position/size; (iii) the allocator step obligations of C06 (no double allocation, overlap-rejecting release).",
    "level_note": "Step obligations on which the partition invariant rests; the invariant itself at quiescent points of whole executions, recovery's gap reconstruction and leak-freedom over long runs need the store and are outside the claim.",
    "jobs": 6,
    "functions": [FMT + "::total_size", FMT + "::value_offset", RECORD + "::calculate_disk_size", WB + "::release_allocations", WB + "::release_scrubbed_allocations",
                  WB + "::reserve_sector", WB + "::clear_reserved_sector", WB + "::mark_reservation_clean", IO + "::coalesce_extents", FS + "::allocate_sectors", FS + "::release_sectors"],
    "kani": [
        H(FMT, "c05_extent_length_agreement", "header size / value offset / total size / div_ceil agree; value fits the extent", "all key<=100KiB, value<=4MiB, versions 1..3"),
        H(FMT, "c05_record_disk_size_agrees_v2", "Record::calculate_disk_size == blocks*4096", "3-byte key, all value lengths"),
        H(WB, "c05_reservation_word", "reservation word life cycle: sector | DIRTY | QUARANTINED", "all sectors < 2^30"),
        H(WB, "c05_release_allocations_rollback", "roll-back releases clean allocations AND forgets their reservation; dirty ones untouched", "2 allocations, symbolic sectors, 64-block device"),
        H(WB, "c09_release_scrubbed_exact_union", "scrub-release frees exactly the union of non-quarantined extents (adjacent, different sizes)", "2 allocations of 1..3 blocks", timeout=900),
        H(FS, "c06_alloc_step_n1", "allocator step: only free blocks are handed out", "<=1 run"),
        H(FS, "c06_release_step_n1", "allocator step: overlapping/out-of-range release rejected unchanged", "<=1 run"),
        H(FS, "c06_alloc_step_n2", "allocator step, 2 runs", "<=2 runs", tier="thorough", timeout=1800),
        H(FS, "c06_release_step_n2", "allocator step, 2 runs", "<=2 runs", tier="thorough", timeout=1800),
        H(IO, "c17_coalesce_extents_three", "retirement coalescing preserves the block set", "3 extents", tier="thorough", timeout=900),
    ],
    "bounds": "2 allocations per batch, extents 1..3 blocks, device 64 blocks for the release paths; all lengths for (i)",
    "stubs": [BTREE, LOCKS, SORT, "FreeSpaceManager::update_fragmentation -> no-op", "std::io::_eprint -> no-op"],
    "assumptions": ["batches of two prepared writes are representative for the pairwise grouping logic (group merge needs >= 2)"],
    "outside": "recovery's reconstruction of free space and counters, the partition at whole-store quiescent points, process_write_batch as a whole",
}

PROPS["C08"] = {
    "technique": "bounded model checking (Kani/CBMC) of the post-read identity check and of the extent pin/retire word",
    "level_text": "SAT-decided: sector_holds_record(buf, rec) is true exactly when marker, key length, key bytes, value length and timestamp in ANY <=64-byte buffer equal the record's (key 1..4 symbolic bytes) – so another key's block, a retirement-marker block or zero padding is never accepted; the extent word from ANY state: acquire succeeds iff RETIRED is clear and adds one reader, retire only sets bit 31, after it no acquire succeeds, guard drop removes exactly one reader.",
    "level_note": "Sequential step semantics of the two mechanisms the property's anchors name. Interleavings (readers vs retirement vs reuse), range scans and the cache are not explored: Kani has no threads and the read path lives in FeoxStore (not constructible).",
    "functions": [FMT + "::sector_holds_record", RECORD + "::acquire_extent", RECORD + "::retire_extent", RECORD + "::extent_has_readers"],
    "kani": [
        H(FMT, "c08_sector_holds_record_sound", "identity check accepts iff the head really is this generation's", "any <=64 bytes; key 1..4 bytes"),
        H(RECORD, "c08_extent_word_sequential", "acquire/retire/drop/has_readers from any extent word", "all u32 states with < 2^31-1 readers"),
    ],
    "bounds": "buffers <= 64 bytes, keys <= 4 bytes; CAS loop unwound 2x",
    "stubs": [LOCKS],
    "assumptions": [],
    "outside": "all interleavings; load_value_from_disk / prepare_deferred_record_data ordering; range scans; cache",
}

PROPS["C02"] = {
    "technique": "bounded model checking (Kani/CBMC) of the successor-durability walk that gates retirement of an acknowledged generation",
    "level_text": "SAT-decided on chains of up to two successors with symbolic sectors and refcounts: successor_is_durable_or_deleted() is true iff there is no successor, or the walk reaches a durable (sector>0) generation, or ends at a deleted (refcount 0) tail – a superseded-but-never-written middle generation with a live non-durable successor is NOT safe.",
    "level_note": "One necessary condition of the property (an acknowledged value is never retired before its replacement is durable). force_flush, Drop ordering, the device trace and recovery are outside the claim.",
    "functions": [RECORD + "::successor_is_durable_or_deleted"],
    "kani": [
        H(RECORD, "c02_successor_durability_walk_chain2", "two-successor chain", "symbolic sectors/refcounts", timeout=900),
        H(RECORD, "c02_successor_durability_walk", "0..2 successors", "symbolic sectors/refcounts", tier="thorough", timeout=1800),
    ],
    "mem_gb": 40,
    "bounds": "successor chains of length <= 2",
    "stubs": [LOCKS, DROPSLOW],
    "assumptions": [],
    "outside": "flush acknowledgement protocol, crash images, recovery",
}

PROPS["C03"] = {
    "technique": "bounded model checking (Kani/CBMC) of the token/marker kernels recovery relies on",
    "level_text": "SAT-decided: the reader's token computation (record_crc_head + per-block CRC + record_token) feeds the CRC exactly the writer's message (sector_le || extent with bytes 2..4 zeroed) and folds identically, for any head/tail split of a 40-byte extent – so a record image copied to another sector or embedded in another key's value does not verify; complete-retirement-block acceptance is exact.",
    "level_note": "Kernel obligations only. Crash images, the scan's winner selection and journal slot selection (decoder out of CBMC's reach, see C17) are outside the claim.",
    "functions": [REC + "::record_crc_head", REC + "::record_token", REC + "::is_complete_retirement_block", SEQ + "::record_seq_token"],
    "kani": [
        H(REC, "c03_reader_token_equals_writer_token", "reader token == writer token, same CRC message", "40-byte extent", timeout=900),
        H(REC, "c03_record_token_fold", "fold never yields 0", "all u32"),
        H(REC, "c10_complete_retirement_block_acceptance", "tail marker acceptance is exact", "<=24 bytes"),
        H(SEQ, "c10_record_token_coverage", "writer's token covers sector and content", "<=48 bytes"),
    ],
    "bounds": "extent images <= 48 bytes",
    "stubs": [CRCSEL],
    "assumptions": [],
    "outside": "crash images, scan loop, journal replay order, slot selection",
}

PROPS["C09"] = {
    "technique": "bounded model checking (Kani/CBMC) of the failed-batch release path over the real FreeSpaceManager",
    "level_text": "SAT-decided: after a failed batch is scrubbed, release_scrubbed_allocations frees exactly the union of the non-quarantined allocations (arbitrary block b; adjacent allocations of different sizes merged into one release), clears exactly those reservations and leaves quarantined ones owned – so a contained write failure can never hand a live neighbour's blocks to the allocator.",
    "level_note": "One containment obligation. Error propagation to flush(), poisoning, retry loops and recovery after faults are outside the claim.",
    "functions": [WB + "::release_scrubbed_allocations", WB + "::quarantine_reservation", WB + "::mark_reservation_clean", WB + "::clear_reserved_sector"],
    "kani": [
        H(WB, "c09_release_scrubbed_exact_union", "exact union released; quarantined kept", "2 allocations of 1..3 blocks, symbolic sectors", timeout=900),
        H(WB, "c05_reservation_word", "dirty/quarantined bits never alter the reserved sector", "all sectors < 2^30"),
    ],
    "bounds": "2 allocations, 64-block device",
    "stubs": [BTREE, SORT, "FreeSpaceManager::update_fragmentation -> no-op", "std::io::_eprint -> no-op"],
    "assumptions": [],
    "outside": "fault injection into real I/O, poisoning, flush error propagation",
}

PROPS["C16"] = {
    "technique": "bounded model checking (Kani/CBMC) of the cache's generation guard",
    "level_text": "SAT-decided over every combination of cached tag {none, dead, live} x incoming {untagged, same, other} with symbolic timestamps/refcounts: a retired generation is never cached and an incoming generation never displaces a live cached generation that is not older.",
    "level_note": "The guard function only; cache-on/off equivalence, accounting and eviction need ClockCache as a whole.",
    "functions": ["src/core/cache.rs::can_replace_generation"],
    "kani": [H("src/core/cache.rs", "c16_can_replace_generation", "generation guard truth table", "all u64 timestamps, u32 refcounts")],
    "bounds": "one cached and one incoming generation",
    "stubs": [DROPSLOW],
    "assumptions": [],
    "outside": "ClockCache insert/get/remove/evict sequences, accounting, concurrency",
}

PROPS["C19"] = {
    "technique": "bounded model checking (Kani/CBMC) of the shard queue accounting the periodic coordinator reads",
    "level_text": "SAT-decided: entries a failed flush puts back are counted again in the shard's count/size (the coordinator only wakes workers whose shards have count > 0) and return to the front in order, also when a new write arrived meanwhile.",
    "level_note": "A necessary condition for bounded write-behind; timing, channels and the ownership map are outside.",
    "functions": [WB + "::requeue_entries", WB + "::drain_entries", WB + "::add_entries"],
    "kani": [H(WB, "c19_requeue_restores_count_and_order", "drain -> add -> requeue: count 3, order, size", "2+1 entries")],
    "bounds": "3 entries",
    "stubs": [LOCKS, DROPSLOW, "std::io::_eprint -> no-op"],
    "assumptions": [],
    "outside": "timing, try_send drops, worker scheduling",
}

PROPS["C20"] = {
    "technique": "bounded model checking (Kani/CBMC, pointer checks on) of the in-flight buffer ownership rule",
    "level_text": "SAT-decided for 3 buffers and any 4 mark_* calls: at drop a buffer whose in-flight bit is set is leaked (never freed while the kernel may still read it), every other buffer is freed exactly once, none twice. AlignedBuffer::new(n) for every 1 <= n <= 8192: capacity is the block-rounded size and the full-capacity slice lies inside the posix_memalign allocation (CBMC pointer checks).",
    "level_note": "One sequential unit. Epoch reclamation, io_uring and every interleaving are outside the claim.",
    "functions": [IO + "::mark_in_flight", IO + "::mark_unqueued", IO + "::mark_complete", "src/utils/allocator.rs::new", "src/utils/allocator.rs::set_len", "src/utils/allocator.rs::allocate_aligned"],
    "kani": [H(IO, "c20_inflight_buffers_drop_exactly_once", "drop-exactly-once / leak-if-in-flight", "3 buffers, 4 operations"),
             H("src/utils/allocator.rs", "c20_aligned_buffer_capacity_is_allocated", "AlignedBuffer::new(n): the advertised capacity is really allocated (first and last byte of the full-capacity slice are in bounds)", "1 <= n <= 8192")],
    "bounds": "3 buffers, 4 operations",
    "stubs": [],
    "assumptions": [],
    "outside": "TreeSlot epoch reclamation, io_uring submissions, concurrency",
}

E2NOTE = "E2: functions are encoded from `cargo +nightly rustc -Zunpretty=mir` of /repo's working tree by lib/mir.py; references are identified with referents; struct fields / enum payloads are uninterpreted functions; calls outside the reviewed table return havocked values; the scc entry guard is trusted to serialise mutations of one key"
OPS = "src/core/store/operations.rs"
INTERNAL = "src/core/store/internal.rs"
TTL = "src/core/store/ttl.rs"
STOREMOD = "src/core/store/mod.rs"
PERSIST = "src/core/store/persistence.rs"

PROPS["C12"] = {
    "engine_name": "E2-mir-smt",
    "technique": "SMT (z3) over a bit-vector encoding of the MIR of VersionClock::next/observe with rely/guarantee interference steps, plus path-condition entailment at the TTL-update site",
    "level_text": "z3-decided over all u64 values, for any number of concurrent threads (rely: the shard never decreases; guarantee re-proved for the functions' own writes) and up to 3 (quick) / 5 (thorough) CAS retries: next() returns max(wall, last+1), strictly above the shard value it replaced unless that was u64::MAX, and leaves the shard there; observe() never lowers the shard, ends >= ts and ignores u64::MAX; hence successive versions on a shard strictly increase and exceed every observed timestamp (composition lemma). resolve_timestamp flags exactly the caller-supplied non-zero timestamps as explicit; observe_published_timestamp folds in exactly the explicit ones; update_ttl's guarded closure draws the new generation's timestamp from the clock.",
    "level_note": E2NOTE + ". Not decided: that two writers of one key hash to the same shard (ahash, trusted), wall-clock behaviour, what reaches the disk, recovery's observe calls (scan loop).",
    "functions": [STOREMOD + "::next", STOREMOD + "::observe", OPS + "::resolve_timestamp", OPS + "::observe_published_timestamp", OPS + "::get_timestamp", TTL + "::update_ttl"],
    "smt": "c12",
    "bounds": "CAS retries <= 3 quick / 5 thorough (paths needing more are counted as truncated, not as passes); all u64 inputs; any number of interfering threads",
    "stubs": ["atomic shard: rely/guarantee model with an arbitrary monotone environment step before every atomic operation; compare_exchange_weak may fail spuriously"],
    "assumptions": ["all accesses to a clock shard go through next/observe (checked: they are the only functions touching VersionClock.shards)"],
    "outside": "more CAS retries than the bound; shard selection (ahash); wall clock; persistence/recovery of timestamps",
}

PROPS["C13"] = {
    "engine_name": "E2-mir-smt",
    "technique": "SMT (z3) over the MIR of reserve_memory / MemoryReservation / release_memory with rely/guarantee interference, and path-condition entailment of the accounting deltas at the replace/delete sites; one Kani harness for the size formula",
    "level_text": "z3-decided for all usize amounts/limits and any number of threads (rely: other threads' successful reservations keep usage <= max(old,limit), releases only lower it), <= 3/5 CAS retries: an admitted reservation linearises with usage' = usage + amount <= limit (no overflow); a refused one wrote nothing; without a limit exactly one fetch_add; drop gives back exactly the uncommitted amount. At every path of update_record_with_ttl(_bytes) that replaces the entry: reserved = saturating(new - size(CURRENT entry under the guard)), released = size(CURRENT) - new when shrinking, reservation committed after publication, and no accounting effect on paths that publish nothing; delete subtracts exactly size(current) and one record.",
    "level_note": E2NOTE + ". Whole-run equality of memory_usage() with the sum over live keys, recovery's rebuild of the counters and the sweeper's decrements are not decided.",
    "functions": [OPS + "::reserve_memory", OPS + "::release_memory", OPS + "::calculate_record_size", STOREMOD + "::commit", STOREMOD + "::drop",
                  INTERNAL + "::update_record_with_ttl", INTERNAL + "::update_record_with_ttl_bytes", OPS + "::delete_with_timestamp", RECORD + "::calculate_size"],
    "smt": "c13",
    "kani": [H(RECORD, "c13_record_size_formula", "Record::calculate_size = size_of::<Record>() + key capacity + value_len", "all value lengths")],
    "bounds": "CAS retries <= 3/5; every MIR path of the site functions with loops unrolled twice",
    "stubs": ["memory_usage atomic: rely/guarantee model", "calls other than the reviewed pure ones are havocked (fresh result, logged as events)"],
    "assumptions": ["key.capacity() == key.len() for stored keys (all come from to_vec/clone)"],
    "outside": "insert (vacant) path sizes, atomic_increment/CAS/json_patch sites, TTL sweeper, recovery",
}

PROPS["C11"] = {
    "engine_name": "E2-mir-smt",
    "technique": "SMT (z3) over MIR: expiry arithmetic, guard entailment at the lazy-expiry removal site, trace obligations of the TTL-update closure; Kani round-trip of the on-disk expiry field",
    "level_text": "z3-decided for all u64 inputs: the absolute expiry handed to the insert path is 0 iff no TTL, else min(u64::MAX, ts + ttl*10^9) (both steps saturating), with the resolved (timestamp, explicit) pair passed through; retire_expired_if_current removes an entry only under its guard when it is pointer-identical to the generation the caller saw and 0 < expiry < now, un-counting exactly size(current); a successful TTL update republishes the ordered-index slot with the new generation (so range queries judge expiry by the new generation). CBMC-decided: the expiry field round-trips bit-exactly through serialize/parse. resolve_record_value (the one function every value-reading call goes through): with TTL on, 0 < expiry < now yields KeyNotFound before memory, cache or disk is consulted; a generation without expiry or unexpired (or TTL off) is never refused on expiry grounds.",
    "level_note": E2NOTE + ". Wall-clock reads, sweeper/renewal races as executions, recovery's expired-winner handling (scan loop) and deferred-value rewrites on disk are not decided.",
    "functions": ["src/core/store/operations.rs::resolve_record_value", OPS + "::insert_bytes_with_timestamp_and_ttl_internal", INTERNAL + "::retire_expired_if_current", TTL + "::update_ttl", FMT + "::parse_record"],
    "smt": "c11",
    "kani": [H(FMT, "c10_roundtrip_v2", "expiry (and all header fields) survive serialize -> parse bit-exactly", "3-byte key, all u64 expiries")],
    "bounds": "all u64 values; every MIR path, loops unrolled twice",
    "stubs": [LOCKS],
    "assumptions": [],
    "outside": "time, sweeper interleavings, recovery, insert_with_ttl's non-Bytes twin (same expression, not separately encoded)",
}

PROPS["C16"]["smt"] = "c16"
PROPS["C16"]["engine_name"] = "E1-kani + E2-mir-smt"
PROPS["C16"]["technique"] += "; SMT (z3) over the MIR of ClockCache::insert_entry / remove_entry for the accounting deltas"
PROPS["C16"]["level_text"] += " z3-decided over MIR, every path: insert_entry pushes a new entry recording size S and adds exactly S; an in-place replacement stores the new S in the entry and moves the counter exactly once in the direction of the size change; a refused replacement changes nothing; remove_entry subtracts exactly the removed entry's recorded size, once, only when an entry is removed – the step invariants behind `reported memory == sum of entry sizes`."
PROPS["C16"]["level_note"] = "Guard function and accounting step obligations; " + E2NOTE + ". Cache-on/off equivalence of workloads, eviction to the low watermark and concurrency are outside the claim."
PROPS["C16"]["functions"] += ["src/core/cache.rs::insert_entry", "src/core/cache.rs::remove_entry"]
PROPS["C16"]["outside"] = "eviction (CLOCK sweep), clear(), cache-on/off equivalence, concurrency"
PROPS["C03"]["smt"] = "c03"
PROPS["C03"]["engine_name"] = "E1-kani + E2-mir-smt"
PROPS["C03"]["technique"] += "; SMT (z3) over the MIR of one arbitrary iteration of the recovery scan loop"
PROPS["C03"]["level_text"] += " z3-decided over MIR: one ARBITRARY iteration of scan_and_rebuild_indexes (all locals havocked at the loop header, ~670 paths): every path back to the header advanced `sector`; a path that accepted a record (header parsed, extent in bounds, token verified) advances by exactly the record's extent length, winner or loser, so the scan never steps into the middle of a verified extent; timestamps are folded into the version clock before the index is updated."
PROPS["C03"]["level_note"] = "Kernel obligations plus a one-iteration (inductive-step) analysis of the scan loop; " + E2NOTE + ". Crash images, winner selection across iterations, journal replay order and slot selection are outside the claim."
PROPS["C03"]["functions"] += [REC + "::scan_and_rebuild_indexes"]
PROPS["C17"]["smt"] = "c17"
PROPS["C17"]["engine_name"] = "E1-kani + E2-mir-smt"
PROPS["C17"]["technique"] += "; SMT (z3) over the MIR of allocation_journal::decode_slot: every explicit panic site unreachable for arbitrary slot contents"
PROPS["C17"]["level_text"] += " z3-decided over MIR: in allocation_journal::decode_slot, for ANY slot contents (all parsed values havocked), no overflow assert, no out-of-range slice of the 3-block slot (including the checksum image data[..checksum_len] whose length depends on the forged entry count), no failing fixed-size conversion and no out-of-bounds pair access is reachable (one arbitrary iteration per loop)."
PROPS["C17"]["level_note"] = PROPS["C17"]["level_note"].replace(" and the allocation-journal slot decoder (12 KiB arrays: CBMC array post-processing does not finish) are outside the claim.", " are outside the claim; the journal slot decoder is covered by the MIR/SMT engine for its explicit panic sites only (callee-internal panics of std are not modelled).")
PROPS["C17"]["functions"] += [JRN + "::decode_slot", JRN + "::journal_image_size"]
PROPS["C08"]["smt"] = "c08"
PROPS["C08"]["engine_name"] = "E1-kani + E2-mir-smt"
PROPS["C08"]["technique"] = "bounded model checking (Kani/CBMC) of the post-read identity check and the extent word; SMT (z3) over MIR for acquire_extent under interference and for pinned-record == read-record identity in the two disk-read paths"
PROPS["C08"]["level_text"] += " z3-decided over MIR: acquire_extent under interference (other threads acquire/release/retire, RETIRED never cleared) hands out a guard only from a CAS that linearises with RETIRED clear and adds exactly one reader; in load_value_from_disk and prepare_deferred_record_data, on every path, the record whose extent is pinned IS the record whose sector is loaded (after the pin) and against which the bytes are identity-checked – including TTL-only generations that borrow a predecessor's extent (value_source chain followed twice)."
PROPS["C08"]["level_note"] += " " + E2NOTE
PROPS["C08"]["functions"] += [PERSIST + "::load_value_from_disk", WB + "::prepare_deferred_record_data"]

PROPS["C07"] = {
    "engine_name": "E2-mir-smt + E1-kani",
    "technique": "SMT (z3) path-condition entailment over the MIR of the guarded replace/delete steps; Kani for the retirement-timestamp chain",
    "level_text": "Reduced claim – the guarded-step obligations the property rests on, given that an scc entry guard serialises all mutations of one key (trusted): on EVERY MIR path of replace_record_if_current (the commit step of compare-and-swap / atomic increment), update_record_with_ttl and delete_with_timestamp that mutates the entry, z3 shows the path condition entails (a) the mutation happens under the Occupied entry guard, (b) ts_new > current.timestamp, (c) for CAS/increment: the entry still IS (pointer identity) the generation whose value was read – so no update is lost and exactly one of several racing CAS on the same expected generation can win, (d) the successor is linked on the current entry; Err paths before the mutation have no effect. Kani: retirement_timestamp() = max(retired_at) over the successor chain (<= 2 successors), which is what lets a writer that raced with a delete be refused. Also: compare_and_swap attempts its replacement only after the value resolved for the key compared equal to `expected`, conditional on exactly the generation that value was resolved from; json_patch (one arbitrary retry iteration) patches the value resolved in that iteration, validates the result, replaces conditionally on that generation, and returns Ok only when the replacement succeeded.",
    "level_note": E2NOTE + ". Histories, real-time order, the retry loops around the guarded step, JSON patch and insert-if-absent sites are NOT decided; this is a necessary-condition check, not a linearizability result.",
    "functions": ["src/core/store/atomic.rs::compare_and_swap_with_timestamp_and_ttl", "src/core/store/json_patch.rs::json_patch_with_timestamp", "src/core/store/atomic.rs::replace_record_if_current", INTERNAL + "::update_record_with_ttl", OPS + "::delete_with_timestamp", RECORD + "::retirement_timestamp"],
    "smt": "c07",
    "kani": [H(RECORD, "c07_retirement_timestamp_is_chain_max", "retirement_timestamp = max over the record and its successor chain", "<= 2 successors, all u64")],
    "bounds": "every MIR path, loops unrolled twice; successor chains <= 2",
    "stubs": [DROPSLOW],
    "assumptions": ["scc entry guard gives mutual exclusion per key"],
    "outside": "interleavings as executions, linearizability checking of histories, json_patch / insert_if_absent sites",
}

PROPS["C02"]["smt"] = "c02"
PROPS["C02"]["engine_name"] = "E1-kani + E2-mir-smt"
PROPS["C02"]["technique"] += "; SMT/trace obligations over the MIR of flush_pending_deletions (flush-mutex discipline)"
PROPS["C02"]["level_text"] += " E2 over MIR, every path of flush_pending_deletions: the retirement `flush` mutex is taken before the pending queue is inspected or taken and held while markers are written – so a flusher that finds the queue empty has first waited for a batch another flusher already took (flush() cannot acknowledge while an acknowledged delete is only in another thread's hands)."
PROPS["C02"]["functions"] += [WB + "::flush_pending_deletions"]

PROPS["C01"] = {
    "engine_name": "E2-mir-smt",
    "technique": "SMT (z3) path-condition entailment and trace obligations over the MIR of the hash-table mutation steps (per-call step semantics only)",
    "level_text": "Reduced claim – the per-call step semantics on which the last-writer-wins equivalence rests, not the equivalence over call sequences: on EVERY MIR path of update_record_with_ttl(_bytes), replace_record_if_current and delete_with_timestamp z3 shows (i) the entry is changed only with ts_new > CURRENT.timestamp under the entry guard (a write/delete takes effect only if its timestamp is greater), (ii) validate -> reserve -> publish: every modification of shared state (refcount/retired_at stores, successor link, index, clock, counters) happens after the last fallible step, and a path that returns Err before publication has no effect at all (a failing call leaves the logical contents unchanged), (iii) the publication is complete (hash table, ordered index, clock observation, accounting). resolve_timestamp treats exactly Some(non-zero) as explicit. The new-key paths of insert_with_timestamp_and_ttl_internal, insert_bytes_with_expiry and insert_if_absent are analysed as one arbitrary iteration of their retry loop: the whole record size is reserved before the entry is created in the Vacant arm, then index, clock, commit and record_count+1; nothing on paths that create nothing. Also compare_and_swap and json_patch: conditional on the generation whose value was compared / patched; refused calls publish nothing.",
    "level_note": E2NOTE + ". NOT decided: call sequences, reads (tier fall-through memory/cache/disk), flush/reopen placement, JSON patch, range queries, configuration matrix – i.e. the equivalence itself. Claimed because these step obligations are the property's first and third anchored mechanisms and catch realistic slips in them; everything sequence- or tier-dependent is outside.",
    "functions": ["src/core/store/atomic.rs::compare_and_swap_with_timestamp_and_ttl", "src/core/store/json_patch.rs::json_patch_with_timestamp", INTERNAL + "::update_record_with_ttl", INTERNAL + "::update_record_with_ttl_bytes", "src/core/store/atomic.rs::replace_record_if_current", OPS + "::delete_with_timestamp", OPS + "::resolve_timestamp"],
    "smt": "c01",
    "bounds": "every MIR path, loops unrolled twice",
    "stubs": [],
    "assumptions": ["scc entry guard gives mutual exclusion per key"],
    "outside": "sequences of calls, storage tiers, flush/reopen, JSON patch, range queries, TTL calls",
}
PROPS["C05"]["kani"].append(H(WB, "c05_format_extent_size_agrees", "the retirement path's extent length (format_extent_size) equals the format's total_size.div_ceil(4096) for v1 AND v2/v3 – release side agrees with the allocate side", "3-byte key, all value lengths <= 4 MiB, versions 1..3"))
PROPS["C05"]["functions"].append(WB + "::format_extent_size")

PD_TEXT = " E2 over MIR, every path of write_buffer::process_deletions (each loop: one arbitrary iteration, ~1100 paths): a generation is queued for a retirement marker only if successor_is_durable_or_deleted() held, only after retire_extent() set RETIRED and the subsequent extent_has_readers() returned false; DELETE_MARKER_DURABLE is stored only after retire_extents() returned Ok; a failing retire_extents() releases nothing, marks nothing and is reported; an extent reaches the release step only after a second reader check said no."
PROPS["C02"]["level_text"] += PD_TEXT
PROPS["C08"]["level_text"] += PD_TEXT
PROPS["C09"]["smt"] = "c09"
PROPS["C09"]["engine_name"] = "E1-kani + E2-mir-smt"
PROPS["C09"]["technique"] += "; SMT/trace obligations over the MIR of process_deletions"
PROPS["C09"]["level_text"] += PD_TEXT
PROPS["C09"]["level_note"] += " " + E2NOTE
for _p in ("C02", "C08", "C09"):
    PROPS[_p]["functions"].append(WB + "::process_deletions")

PWB_TEXT = " E2 over MIR, every path of write_buffer::process_write_batch from the write phase on: record.sector is stored and the in-memory value dropped only where the allocation-intent journal write, then the record write (which fsyncs), then the journal clear each returned Ok, in that order; reservations are marked dirty before the first device call; where a device call failed the function returns failed_batch_outcome(..) and publishes no sector."
IOP_TEXT = " E2 over MIR of io.rs: retire_extents does ACTIVE journal -> markers -> CLEAR per chunk, each step only after the previous returned Ok, poisons the device on any failure and returns Ok only if everything succeeded; replay_allocation_journal clears the journal last; write/clear_allocation_journal fsync the new image before generation/slot advance and leave both untouched on failure; next_journal_position yields generation+1 and the other slot."
PROPS["C02"]["level_text"] += PWB_TEXT
PROPS["C03"]["level_text"] += PWB_TEXT + IOP_TEXT
PROPS["C09"]["level_text"] += PWB_TEXT + IOP_TEXT
for _p in ("C02", "C03", "C09"):
    PROPS[_p]["functions"].append(WB + "::process_write_batch")
for _p in ("C03", "C09"):
    PROPS[_p]["functions"] += [IO + "::retire_extents", IO + "::replay_allocation_journal", IO + "::write_allocation_journal", IO + "::clear_allocation_journal", IO + "::next_journal_position"]
PROPS["C10"]["smt"] = "c10"
PROPS["C10"]["engine_name"] = "E1-kani + E2-mir-smt"
PROPS["C10"]["level_text"] += " E2 over MIR: write_store_metadata writes generation g+1 to block 0 when even / block 7 when odd, write then fsync, caller's copy advances only on Ok."
PROPS["C10"]["functions"].append(IO + "::write_store_metadata")
PROPS["C10"]["outside"] = PROPS["C10"]["outside"].replace("journal DECODING (12 KiB slot arrays exceed CBMC's array post-processing budget), ", "journal decoding beyond panic-freedom and per-entry acceptance (C17/C03), ")

SCAN_TEXT = " E2 over MIR, one ARBITRARY iteration of the recovery scan (~670 paths): newest-timestamp-wins (a verified record is discarded only when an indexed generation of its key is newer, indexed only otherwise); when a generation is replaced, the memory_usage, disk_usage and free-space adjustments are computed from the REPLACED generation and the additions from the new record; record_count grows only for a new key; every path back to the loop header advanced `sector`, an accepted record by exactly its extent length."
for _p in ("C10", "C11", "C13"):
    PROPS[_p]["level_text"] += SCAN_TEXT
    PROPS[_p]["functions"].append(REC + "::scan_and_rebuild_indexes")
PROPS["C19"]["smt"] = "c19"
PROPS["C19"]["engine_name"] = "E1-kani + E2-mir-smt"
PROPS["C19"]["technique"] += "; SMT/trace obligations over the MIR of the periodic coordinator closure and trigger_flush"
PROPS["C19"]["level_text"] += " E2 over MIR: the periodic coordinator returns on no path other than shutdown==true read at the top of its loop (a full worker queue never ends write-behind) and inspects (w..S).step_by(W); trigger_flush wakes exactly worker shard_id % W, and only for a full shard; flush_worker_shards builds its shard iterator from worker_id/worker_count (matched on MIR text)."
PROPS["C19"]["level_note"] += " " + E2NOTE + " StepBy's element contract is trusted (z3 does not finish the 64-bit symbolic remainder lemma)."
PROPS["C19"]["functions"] += [WB + "::start_workers", WB + "::trigger_flush", WB + "::flush_worker_shards"]
PROPS["C20"]["smt"] = "c20"
PROPS["C20"]["engine_name"] = "E1-kani + E2-mir-smt"
PROPS["C20"]["technique"] += "; trace obligation over the MIR of TreeSlot::store (epoch-deferred destruction)"
PROPS["C20"]["level_text"] += " E2 over MIR, every path of TreeSlot::store: a non-null swapped-out slot pointer is handed to Guard::defer_destroy exactly once and is never converted to an owned value or dropped immediately."
PROPS["C20"]["functions"].append(RECORD + "::store")
PROPS["C09"]["level_text"] += " E2: when a batch of a drained shard fails, flush_worker_shards also requeues the entries of that shard that were not yet attempted."
PROPS["C09"]["functions"].append(WB + "::flush_worker_shards")
PROPS["C16"]["level_text"] += " E2, one arbitrary step of the CLOCK sweep: the counter is decremented by the evicted entry's recorded size and the loop's running usage equals the counter's value after the subtraction (the sweep stops at the low watermark)."
PROPS["C16"]["functions"].append("src/core/cache.rs::evict_entries")
PROPS["C17"]["level_text"] += " E2, every path of `impl Drop for FeoxStore`: the final metadata write happens only for an initialized, persistent store – a store dropped because its open was rejected writes nothing."
PROPS["C17"]["functions"].append(PERSIST + "::drop")

# memory-heavy harness groups: fewer concurrent CBMC processes in the thorough tier (each up to ~16 GB)
for _p in ("C06", "C05", "C09", "C02"):
    PROPS[_p]["jobs_thorough"] = 3
    PROPS[_p]["mem_gb"] = 40

PROPS["C02"]["level_text"] += " force_flush returns Ok only from a round in which flush_pending_deletions returned Ok and no worker reported leftover work; flush_all writes metadata only after force_flush returned Ok."
PROPS["C02"]["functions"] += [WB + "::force_flush", PERSIST + "::flush_all"]
PROPS["C10"]["level_text"] += " flush_all stores total_records = record_count and total_size = disk_usage in the metadata it writes, after a successful force_flush."
PROPS["C10"]["functions"].append(PERSIST + "::flush_all")
PROPS["C12"]["level_text"] += " get_timestamp(key) = version_clock.next(key, wall clock)."
PROPS["C13"]["level_text"] += " note_expired_record subtracts exactly one record and record_size."
PROPS["C09"]["level_text"] += " ensure_writable refuses exactly when the poison flag is set, poison_writes sets it, and write_sectors_sync / flush reach their system call only after ensure_writable returned Ok."
PROPS["C09"]["functions"] += [IO + "::ensure_writable", IO + "::poison_writes", IO + "::write_sectors_sync", IO + "::flush"]
PROPS["C11"]["level_text"] += " The background sweeper (one arbitrary candidate) and recovery's expired-winner pass remove an entry only under its guard when it is the sampled/collected generation with 0 < expiry < now, and adjust counters only then."
PROPS["C11"]["functions"] += ["src/core/ttl_sweep.rs::sample_and_expire_batch", REC + "::remove_expired_recovery_winners"]

PROPS["C04"] = {
    "engine_name": "E2-mir-smt",
    "technique": "SMT (z3) path-condition entailment and trace obligations over the MIR of the recovery scan (one arbitrary loop iteration + prologue/epilogue), of journal replay and of the journaled retirement path",
    "level_text": "Reduced claim – the step obligations behind 're-runnable repairs that only touch dead blocks', not idempotence over crash images: (i) replay_allocation_journal writes the markers first and clears the journal last, only after the markers are durable, so a crash during replay leaves the journal active (re-runnable); (ii) the scan replays the journal before the first block is read and never for a read-only open; (iii) ONE ARBITRARY iteration of the scan loop: an extent is queued for retirement only if it is (a) the scanned record's own extent when an already indexed generation of its key is NEWER, (b) the REPLACED generation's extent (same sector and length as what is released) when the scanned record wins, or (c) an incomplete retirement-marker extent starting at the scanned sector; indexing a new key queues nothing; a verified record is never discarded unless a newer generation is indexed; (iv) after the loop the queued extents go only through the journaled DiskIO::retire_extents (ACTIVE journal -> markers -> CLEAR, each step after the previous returned Ok), never raw writes, never for a read-only open, and the scan reports success only if they were made durable. Extent lengths: the extent released, un-counted and queued for retirement for a replaced generation (scan) and for an expired winner equals ceil(total_size(key.len(), value_len) / 4096) of that generation – a whole extent and nothing beyond it; a read-only open sorts the decoded journal by start sector before the single forward masking pass.",
    "level_note": E2NOTE + ". Equality of contents across repeated recoveries of a crash image, nested crashes inside recovery, and expiry between opens are NOT decided (no engine here can run a whole scan over a device image).",
    "functions": [REC + "::scan_and_rebuild_indexes", IO + "::replay_allocation_journal", IO + "::retire_extents"],
    "smt": "c04",
    "bounds": "one arbitrary scan iteration (~670 paths), prologue and epilogue paths; journal chunk loop: one arbitrary iteration",
    "stubs": [],
    "assumptions": ["winner selection depends only on on-disk timestamps and positions (what the iteration analysis havocs)"],
    "outside": "whole-image idempotence, crash points inside recovery, remove_expired_recovery_winners' interplay with time",
}

PROPS["C14"] = {
    "engine_name": "E2-mir-smt",
    "technique": "SMT (z3) path-condition entailment and trace obligations over the MIR of one arbitrary iteration of range_query's scan loop",
    "level_text": "Reduced claim – the loop's own logic, with the skiplist's ordered iteration trusted: in ONE ARBITRARY iteration a pair is appended only while results.len() < limit and only when the entry's key is <= end_key (both checked in that iteration); the pair is (this entry's key, the value resolved for the record loaded from this entry's slot under the epoch guard); the record reference is never used after the guard is repinned; a continuing iteration advances the cursor exactly once; the scan starts at lower_bound(Included(start_key)). With ascending iteration this gives: within the inclusive bounds, at most limit, the smallest such keys, each with its own value. TTL updates republish the ordered-index slot (so scans see the current generation). The scan stops at an entry only through the limit / upper-bound test of that iteration: skipped entries (expired, stale) neither end the scan nor count against the limit.",
    "level_note": E2NOTE + ". NOT decided: ordered iteration of crossbeam-skiplist under concurrent mutation, absence/duplication of keys under writers, agreement of the two indexes at quiescence, expiry filtering inside resolve_value_ref.",
    "functions": ["src/core/store/range.rs::range_query", TTL + "::update_ttl"],
    "smt": "c14",
    "bounds": "one arbitrary loop iteration (state havocked at the loop header)",
    "stubs": [],
    "assumptions": ["crossbeam-skiplist iterates keys in ascending byte order and lower_bound is correct"],
    "outside": "concurrency, index agreement, skiplist internals",
}

PROPS["C15"] = {
    "engine_name": "E2-mir-smt",
    "technique": "SMT (z3) path-condition entailment and trace obligations over the MIR of migrate(), copy_records, verify_records, DestinationGuard::publish and one arbitrary iteration of the read-only recovery scan; candidates confirmed by a native migration witness",
    "level_text": "Reduced claim – the migration's own control and data flow, with the two store instances' insert/flush/recovery taken from the other properties (C02, C03, C04, C08): (i) over every MIR path of migrate(), DestinationGuard::publish is reached only after copy_records, destination.flush, a read-only reopen + verify_records and a re-read of the source's identity stamp, each with an Ok result, and Ok is returned only after publish returned Ok; (ii) in ONE ARBITRARY iteration of copy_records the destination receives this record's key, the value resolved for this record from the SOURCE, its timestamp and its absolute expiry bit-exact, and a refused insert aborts; (iii) in ONE ARBITRARY iteration of verify_records a pair is accepted only when key, timestamp, absolute expiry and resolved value compared equal, and batches of unequal length never reach the pair loop; (iv) publish links with fs::hard_link (never rename/copy), checks the temporary file's stamp first and rolls back on every later error; (v) in ONE ARBITRARY iteration of the recovery scan plus its epilogue, read_only implies no retirement push and no device-writing call, an all-zero legacy marker is skipped only under allow_ambiguous_legacy_recovery, and expiry is not consulted; (vi) both migration stores are configured with enable_ttl = false, no cache, no memory cap, and the source is opened in OpenMode::ReadOnly; (vii) DestinationGuard::create refuses an existing destination name before creating anything, opens the temporary sibling with create_new only, returns a guard only for a file it created; Drop removes the temporary name only, and the destination name is removed nowhere but in rollback_publication (called from publish only).",
    "level_note": E2NOTE + ". NOT decided: file-system semantics (hard_link atomicity, stamps as identity), that the destination store's insert/flush/recovery are correct (claimed under other properties), the feox-migrate CLI.",
    "functions": ["src/core/store/migration.rs::migrate", "src/core/store/migration.rs::copy_records", "src/core/store/migration.rs::verify_records",
                  "src/core/store/migration.rs::DestinationGuard::publish", "src/core/store/migration.rs::DestinationGuard::create", "src/core/store/migration.rs::migration_config", REC + "::scan_and_rebuild_indexes"],
    "smt": "c15",
    "bounds": "every MIR path of migrate and publish (loops unrolled once); one arbitrary iteration of the copy, verify and scan loops (state havocked at the loop header)",
    "stubs": [],
    "assumptions": ["calls into the store (insert_migrated_bytes, resolve_value_ref, flush, build_read_only) are havocked: arbitrary results", "fs::hard_link fails if the destination name exists (documented)"],
    "outside": "file-system behaviour, whole-image equivalence (covered only by the native witness's synthesised v1/v2 images), CLI",
}

PROPS["C18"] = {
    "engine_name": "E2-mir-smt",
    "technique": "path-sensitive symbolic execution of MIR (z3 decides path feasibility): lock-order relation over every explored path, exit conditions of the coordinator and force_flush loops, scan progress",
    "level_text": "Reduced claim – necessary conditions for termination, not termination: (i) over every feasible MIR path of the functions that nest locks (process_write_batch, failed_batch_outcome, cleanup_failed_allocations, process_deletions, flush_pending_deletions, flush_all, flush_worker_shards, force_flush, load_value_from_disk, prepare_deferred_record_data, release_allocations; callee lock sets from a transitive summary) the relation 'B acquired while A held' is ACYCLIC; the allocator lock is never held when the device lock is taken (the failure paths nest device -> allocator only) and the retirement flush mutex is outermost; (ii) the periodic coordinator returns only on shutdown; (iii) force_flush returns Ok only from a round with no leftover work and an Ok retirement flush; (iv, thorough) every iteration of the recovery scan advances `sector`.",
    "level_note": E2NOTE + ". Lock acquisition inside std/scc/crossbeam, channel blocking, condition of 'no reader held forever', fairness and actual termination are NOT decided; guard lifetimes are taken from MIR drop terminators.",
    "functions": [WB + "::process_write_batch", WB + "::process_deletions", WB + "::flush_pending_deletions", WB + "::force_flush", WB + "::start_workers", PERSIST + "::flush_all"],
    "smt": "c18",
    "bounds": "every MIR path of the listed functions with loops unrolled once (~3900 paths)",
    "stubs": [],
    "assumptions": ["a lock is released where MIR drops its guard", "locks taken inside non-crate callees are invisible"],
    "outside": "channels, thread joins, TTL sweeper stop/self-join, reader starvation, real schedules",
}

# round 4: the per-version extent length on the retirement side is part of "v1/v2 files keep their own record format when written to"
PROPS["C10"]["kani"].append(H(WB, "c05_format_extent_size_agrees", "the retirement path's extent length (format_extent_size) equals the device format's total_size.div_ceil(4096) for v1 AND v2/v3: a retirement on a v1 file marks and frees exactly the retired record's blocks", "3-byte key, all value lengths <= 4 MiB, versions 1..3"))
PROPS["C10"]["level_text"] += " The retirement side sizes an extent with the DEVICE's record format (v1 headers are 8 bytes shorter), so writing to a v1/v2 file never marks or frees a neighbour's block."
PROPS["C10"]["functions"].append(WB + "::format_extent_size")
PROPS["C11"]["level_text"] += " Every site that turns ttl_seconds into an absolute expiry (byte-slice and Bytes insert paths, replace_record_if_current, counter_record, ttl::ttl_expiry) computes min(u64::MAX, ts + ttl*10^9) with both steps saturating, for ALL u64 inputs: very long TTLs never wrap into an early expiry."
PROPS["C11"]["functions"] += ["src/core/store/operations.rs::insert_with_timestamp_and_ttl_internal", "src/core/store/atomic.rs::replace_record_if_current", "src/core/store/atomic.rs::counter_record", "src/core/store/ttl.rs::ttl_expiry"]
PROPS["C17"]["level_text"] += " file_is_all_zero – the test that lets a signature-less file be initialised as a blank device – reads sequentially from a fresh handle with remaining = size; in one arbitrary iteration exactly L = min(remaining, buffer) > 0 bytes are read, exactly those are tested, remaining decreases by L; true only at remaining == 0: a file with any non-zero byte is never taken for a blank device."
PROPS["C17"]["functions"].append(PERSIST + "::file_is_all_zero")
PROPS["C19"]["level_text"] += " flush_worker_shards: after a failed batch both that batch's retries and the not-yet-attempted rest of the drained shard go back into the shard (no accepted entry leaves the write buffer without having been written)."

# shared obligations (round-4 lesson: a mechanism is checked under every property whose statement depends on it)
PROPS["C05"]["smt"] = "c05"
PROPS["C05"]["engine_name"] = "E1-kani + E2-mir-smt"
PROPS["C05"]["technique"] += "; SMT/trace obligations over the MIR of the paths that move blocks between owners (process_write_batch, process_deletions, recovery's expired-winner pass, flush_all)"
PROPS["C05"]["level_text"] += " E2 over MIR: process_deletions releases an extent only after a durable marker and a second reader check; process_write_batch publishes a sector only after the device calls succeeded and otherwise goes through failed_batch_outcome; recovery's expired-winner pass releases exactly ceil(total_size/4096) blocks of the removed generation; flush_all persists total_records = record_count and total_size = disk_usage."
PROPS["C05"]["functions"] += [WB + "::process_deletions", WB + "::process_write_batch", REC + "::remove_expired_recovery_winners", PERSIST + "::flush_all"]
PROPS["C01"]["level_text"] += " Shared with C07/C11/C12/C14: atomic_increment (one arbitrary retry iteration), update_ttl's closure, the read path's expiry test, one arbitrary iteration of range_query."
PROPS["C08"]["level_text"] += " Shared with C14/C07: range_query uses the record only under the guard it was loaded under; compare_and_swap compares and caches the value of the generation it was resolved from."
PROPS["C12"]["level_text"] += " compare_and_swap and atomic_increment take their timestamps from resolve_timestamp / the version clock."
PROPS["C13"]["level_text"] += " Shared with C07/C11: atomic_increment reserves growth against the current entry; lazy expiry, the sweeper and recovery's expired-winner pass un-count exactly the removed generation."
PROPS["C14"]["level_text"] += " Expiry filtering (shared with C11): resolve_record_value refuses exactly the generations with 0 < expiry < now when TTL is on."
PROPS["C14"]["level_note"] = PROPS["C14"]["level_note"].replace(", expiry filtering inside resolve_value_ref", "")
PROPS["C16"]["level_text"] += " compare_and_swap fills the cache only with (resolved value, generation it was resolved from)."
PROPS["C20"]["level_text"] += " Shared with C14: in range_query the record reference loaded under the epoch guard is never used after the guard is repinned."
PROPS["C09"]["level_text"] += " force_flush returns Ok only from a round with no leftover work and an Ok retirement flush."


# ---- round 5: journal slot decoding, free-space reconstruction, intent-journal coverage, scan panic-freedom
JSLOT_TEXT = (" E2, allocation_journal::decode_slot header on every MIR path: the six header fields are read from the documented offsets of this slot; the slot gets past the header "
              "exactly when magic, version in {1,2}, generation != 0, count <= 1024, state/count consistency, complement == !checksum and journal_checksum(data[..L]) == checksum hold "
              "(L = whole slot for version 1, ceil((40+8*count)/4096)*4096 for version 2); Ok carries the parsed generation, the caller's slot index and the accepted entries in journal order. "
              "allocation_journal::decode: each slot is the window data[i*12288..(i+1)*12288]; all-zero => missing, else candidate iff decode_slot returned Ok; the answer is the candidate with the "
              "greatest generation, else the last missing slot with generation 0 and no extents, else CorruptedRecord.")
for _p in ("C03", "C10"):
    PROPS[_p]["level_text"] += JSLOT_TEXT
    PROPS[_p]["functions"] += [JRN + "::decode", JRN + "::decode_slot"]
PROPS["C04"]["level_text"] += " The journal slot believed by replay is the valid slot with the greatest generation (E2, allocation_journal::decode)."
PROPS["C04"]["functions"] += [JRN + "::decode"]
PROPS["C03"]["level_note"] = PROPS["C03"]["level_note"].replace("journal replay order and slot selection are outside the claim", "journal replay across crashes is outside the claim")
PROPS["C03"]["outside"] = "crash images as executions, winner selection across iterations, torn journal writes as executions (slot acceptance/selection are decided per call)"
GAP_TEXT = (" E2, free-space reconstruction in one arbitrary scan iteration (invariant last_end <= sector assumed and re-established): indexing a record releases exactly the gap "
            "[last_end, sector) in front of it (once, only when sector > last_end) and sets last_end to the record's extent end; an iteration that indexes nothing (garbage, marker, "
            "losing generation) leaves last_end unchanged and releases no gap – so the skipped blocks fall into the next released gap; after the loop [last_end, total) is released.")
PROPS["C05"]["level_text"] += GAP_TEXT
PROPS["C05"]["functions"] += [REC + "::scan_and_rebuild_indexes"]
PROPS["C05"]["outside"] = "the partition at whole-store quiescent points as an execution, process_write_batch's allocation loop, leak-freedom over long runs"
PROPS["C04"]["level_text"] += GAP_TEXT
INTENT_TEXT = (" The allocation-intent journal written by process_write_batch is prepared_writes.iter().map(|w| (w.sector, w.sectors_needed)).collect(): one entry per prepared write – "
               "one-block records included – covering its whole extent, for the same writes whose reservations were marked dirty.")
for _p in ("C02", "C03", "C05", "C09"):
    PROPS[_p]["level_text"] += INTENT_TEXT
PROPS["C17"]["level_text"] += (" E2, one ARBITRARY iteration of the recovery scan on arbitrary block contents (sector < total_sectors < 2^52, last_end <= sector): no overflow assert, no "
                               "out-of-range index/slice of the block buffer, no failing fixed-size conversion is reachable on any of the ~670 MIR paths.")
PROPS["C17"]["functions"] += [REC + "::scan_and_rebuild_indexes"]
PROPS["C17"]["outside"] = "the scan as a whole execution (termination is C18's progress obligation), file left unmodified on a rejected open (native witness only), behaviour of a store that did open, panics inside std/crate callees that are havocked in E2 and not covered by a Kani harness"
PROPS["C16"]["level_text"] += " The read path refuses an expired generation before any value source – memory, cache or disk – is consulted, so a cached value is never served past its expiry (shared with C11)."
PROPS["C16"]["functions"] += ["src/core/store/operations.rs::resolve_record_value"]
PROPS["C20"]["level_text"] += (" E2, DiskIO::batch_write_inner (io_uring path), every MIR path with loops unrolled once: every buffer put into the in-flight registry owns its bytes "
                               "(built from AlignedBuffer::new or retain_for_write, registry element type without lifetime); every submission entry's pointer/length come from "
                               "registry slot i, which is marked in flight before the entry is pushed and unqueued again if the push fails – so memory the kernel may still read "
                               "after an indeterminate failure is leaked by the registry, never freed or reused.")
PROPS["C20"]["functions"] += [IO + "::batch_write_inner"]
# the retirement guard consulted by process_deletions (shared with C02): memo soundness + re-evaluation
PROPS["C09"]["kani"].append(H(RECORD, "c02_successor_durability_walk_chain2", "successor_is_durable_or_deleted on a two-successor chain equals the reference walk, marks a record `successor_safe` only if that record's own chain is durable/deleted, and gives the same answer when evaluated again (the retirement queue is re-examined every flush round, also after a failed batch)", "symbolic sectors/refcounts", timeout=900))
PROPS["C09"]["functions"].append(RECORD + "::successor_is_durable_or_deleted")
PROPS["C09"]["level_text"] += " E1: the retirement guard successor_is_durable_or_deleted (two-successor chains, symbolic sectors/refcounts) equals the reference walk on first AND repeated evaluation and never memoises `safe` on a record whose own successor chain is not durable or deleted – so a failed batch followed by another retirement pass cannot retire the last durable generation."
PROPS["C02"]["level_text"] += " The successor-walk harness also decides memo soundness and re-evaluation (shared with C09)."
PROPS["C18"]["level_text"] += (" The read path's stale-extent retry loop (resolve_value, behind get/get_bytes/range_query/CAS/increment/patch) is bounded: in one arbitrary iteration "
                               "every path back to the loop header consumed an element of the constant range 0..STALE_READ_RETRY_LIMIT – also when the SAME generation is found stale again. "
                               "Over two rounds the periodic coordinator always sleeps for the constant WRITE_BUFFER_FLUSH_INTERVAL (no back-off).")
PROPS["C18"]["functions"] += ["src/core/store/operations.rs::resolve_value"]
PROPS["C19"]["level_text"] += " Bounded wake-up: over two rounds of the periodic coordinator every thread::sleep is for the same value, the constant item WRITE_BUFFER_FLUSH_INTERVAL (no idle back-off, no drift)."
PROPS["C04"]["level_text"] += (" One repair transaction: at most one retire_extents call after the scan loop; the expired-winner pass runs before it, appends to the same queue, is not handed the "
                               "device and contains no device write.")
PROPS["C11"]["level_text"] += " The sweeper removes the ordered-index slot while it still holds the entry guard (before the hash entry is removed), so a key re-created right after keeps its slot."
PROPS["C13"]["level_text"] += " The sweeper removes and un-counts only the pointer-identical sampled generation (witness: deterministic replacement between sample and guard)."
PROPS["C12"]["level_text"] += (" Shared with C01/C07/C13: on every path of the update/replace/delete/insert sites the version-clock observation comes after the last fallible step and only on publishing paths – "
                               "an explicit timestamp carried by a failing call is never absorbed.")
PROPS["C12"]["functions"] += ["src/core/store/internal.rs::update_record_with_ttl", "src/core/store/internal.rs::update_record_with_ttl_bytes", "src/core/store/atomic.rs::replace_record_if_current", "src/core/store/operations.rs::delete_with_timestamp"]
PROPS["C16"]["level_text"] += (" CLOCK policy, one arbitrary step of the bucket sweep (usage > low watermark assumed and re-established): an entry is evicted only if its own reference bit was read clear "
                               "(removed index = inspected index, index not advanced); a referenced entry is never removed in that step, its bit is cleared and the index advances; the sweep continues only above the watermark.")
PROPS["C16"]["outside"] = "clear(), cache-on/off equivalence as executions, concurrency"
_WF = H(SEQ, "c10_writer_token_fold", "nonzero_token(crc) == hi16 ^ lo16 with 0 stored as 1, for ALL u32 CRC values (writer side; the reader's copy is c03_record_token_fold)", "all u32")
PROPS["C10"]["kani"].append(_WF)
PROPS["C03"]["kani"].append(_WF)
if not any(h["name"] == "c03_record_token_fold" for h in PROPS["C10"]["kani"]):
    PROPS["C10"]["kani"].append(H(REC, "c03_record_token_fold", "recovery's record_token(crc) == the same fold, for ALL u32 CRC values", "all u32"))
PROPS["C10"]["level_text"] += " Writer's and recovery's CRC-to-token folds equal the released rule (hi16 ^ lo16, 0 stored as 1) for ALL 2^32 CRC values."
ALLOC_TEXT = (" E2, one arbitrary iteration of process_write_batch's allocation loop: a write with a reservation reuses exactly that sector; otherwise allocate_sectors(this write's "
              "sectors_needed) and, only on Ok, reserve_sector(this entry, sector), disk_usage += sectors_needed*4096, the write remembers the sector and exactly one device write "
              "(that sector, this write's data, token stamped for that sector) is queued; on failure nothing is queued/reserved/counted, the allocator lock is dropped before "
              "release_allocations rolls the batch back, and no device call follows.")
PROPS["C05"]["level_text"] += ALLOC_TEXT
PROPS["C09"]["level_text"] += ALLOC_TEXT
PROPS["C05"]["outside"] = "the partition at whole-store quiescent points as an execution, leak-freedom over long runs"
PROPS["C02"]["level_text"] += (" Drop (E2, every path): the TTL sweeper is stopped, then the write buffer is shut down (initiate_shutdown, then finish_shutdown which joins the workers after their "
                               "final flush) BEFORE the counters are read into the metadata and the metadata is written; the device is shut down only after both.")
PROPS["C02"]["functions"] += [PERSIST + "::drop"]
PROPS["C02"]["outside"] = "crash images as executions, the worker's final-flush retry loop (write_buffer_worker), fsync placement inside DiskIO (C03/C09 io protocol obligations)"
PROPS["C11"]["level_text"] += (" The sweeper's reservoir-sampling step (one closure call, arbitrary captured state, arbitrary random draw): a record without expiry is never sampled or counted; "
                               "a candidate is appended only below sample_size, as (this key, this record); a replacement uses the drawn index only when it is below sample_size, which is then inside the vector.")
PROPS["C11"]["functions"] += ["src/core/ttl_sweep.rs::sample_ttl_entries"]
PROPS["C14"]["level_text"] += (" Index agreement (E2, 11 hash-table mutation sites, every path / one arbitrary loop iteration): a new hash entry comes with exactly one ordered-index insert, a replaced entry "
                               "with exactly one slot republication, a removed entry with exactly one ordered-index removal, and no ordered-index mutation happens without its hash-table counterpart.")
PROPS["C14"]["functions"] += ["src/core/store/internal.rs::update_record_with_ttl", "src/core/store/atomic.rs::replace_record_if_current", "src/core/store/operations.rs::delete_with_timestamp",
                              "src/core/store/internal.rs::retire_expired_if_current", "src/core/ttl_sweep.rs::sample_and_expire_batch", "src/core/store/ttl.rs::update_ttl"]
META_SEL = (" E2, DiskIO::read_metadata on every path: blocks 0..=7 are read once, primary = block 0, backup = block 7, both validated by Metadata::from_bytes; the backup is believed exactly when it is "
            "valid and the primary is invalid or has a SMALLER generation, otherwise the primary.")
for _p in ("C03", "C10"):
    PROPS[_p]["level_text"] += META_SEL
    PROPS[_p]["functions"] += [IO + "::read_metadata"]
PROPS["C16"]["level_text"] += (" ClockCache::clear: under the eviction lock, per bucket the entries' recorded sizes are summed and the bucket emptied under the bucket's own write lock, and the counter is "
                               "decreased by exactly that sum, once.")
PROPS["C16"]["functions"] += ["src/core/cache.rs::clear"]
PROPS["C16"]["outside"] = "cache-on/off equivalence as executions, concurrency"
PROPS["C20"]["level_text"] += (" process_completions, one arbitrary completion entry: attributed to slot user_data - base only below `queued`; released/counted only when mark_complete accepted it "
                               "(no double free, no double count); validated against the same slot's buffer length.")
PROPS["C20"]["functions"] += [IO + "::process_completions"]
WORKER_TEXT = (" write_buffer_worker (E2): a request is served by flush_worker_shards(ctx, format, !defer_retirements) and a waiting flusher gets the result of that very call; the worker leaves its loop only on "
               "shutdown or a disconnected channel; on shutdown it runs a final flush with retirements before exiting; in one arbitrary iteration of the final-flush loop the loop ends on Ok(false), on an "
               "indeterminate or non-retryable error, and every other outcome consumes one of FINAL_FLUSH_RETRY_LIMIT retries (bounded: Drop's join terminates).")
PROPS["C02"]["level_text"] += WORKER_TEXT
PROPS["C18"]["level_text"] += WORKER_TEXT
PROPS["C02"]["functions"] += [WB + "::write_buffer_worker"]
PROPS["C18"]["functions"] += [WB + "::write_buffer_worker"]
PROPS["C02"]["outside"] = "crash images as executions, fsync placement inside DiskIO (C03/C09 io protocol obligations)"
PROPS["C01"]["level_text"] += " Shared with C14: the hashed and the ordered index move together at all 11 hash-table mutation sites (range queries and point reads see the same keys)."
PROPS["C07"]["level_text"] += (" insert_if_absent: test and creation under ONE entry guard; Ok(true) exactly on the paths that created the entry in the Vacant arm, Ok(false) exactly in the Occupied arm with no effect at all – "
                               "so, given the guard's mutual exclusion, exactly one of several racing callers wins.")
PROPS["C07"]["functions"] += ["src/core/store/atomic.rs::insert_if_absent"]
PROPS["C09"]["level_text"] += (" failed_batch_outcome (every path): an indeterminate failure quarantines the batch's allocations and releases/writes nothing; a definite failure runs cleanup_failed_allocations with the caller's "
                               "clear_journal flag and, if that fails, quarantines and poisons the device; the outcome is always Err and the retry list receives every prepared write's entry and every deferred delete.")
PROPS["C09"]["functions"] += [WB + "::failed_batch_outcome"]
