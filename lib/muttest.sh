#!/bin/bash
# muttest.sh <seeded-id> <prop> [tier]: apply a seeded patch to /repo, run the check, revert. Prints rc.
id=$1; prop=$2; tier=${3:-quick}
cd /repo && git apply /verif/seeded/$id/patch.diff || { echo "apply failed"; exit 9; }
cd /verif; ./check $prop $tier > logs/mut.$id.$prop.out 2>&1; rc=$?
git -C /repo checkout -- . 
echo "MUT $id vs $prop ($tier): rc=$rc $(grep -c '^VIOLATION' logs/mut.$id.$prop.out) violation line(s)" | tee -a logs/muttest.log
grep -E "^VIOLATION|INCONCLUSIVE" logs/mut.$id.$prop.out | cut -c1-300 | head -5
