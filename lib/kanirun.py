"""E1: run Kani (CBMC + CaDiCaL) harnesses that are injected as child modules into a scratch copy of
/repo's working tree.  Nothing is written to /repo."""
import json
import os
import re
import resource
import subprocess
import time

from common import VERIF, CannotInstrument, log

KANI_DIR = os.path.join(VERIF, "kani")

# source file (relative to the crate root) -> harness module injected as its child `verif_kani`
MODULES = {
    "src/storage/free_space.rs": "free_space_k.rs",
    "src/storage/format.rs": "format_k.rs",
    "src/storage/seq_token.rs": "seq_token_k.rs",
    "src/storage/metadata.rs": "metadata_k.rs",
    "src/storage/allocation_journal.rs": "journal_k.rs",
    "src/storage/io.rs": "io_k.rs",
    "src/storage/write_buffer.rs": "write_buffer_k.rs",
    "src/core/record.rs": "record_k.rs",
    "src/core/cache.rs": "cache_k.rs",
    "src/core/store/recovery.rs": "recovery_k.rs",
    "src/core/store/persistence.rs": "persistence_k.rs",
    "src/core/store/mod.rs": "store_k.rs",
    "src/utils/allocator.rs": "allocator_k.rs",
}
MODPATH = {
    "src/storage/free_space.rs": "storage::free_space",
    "src/storage/format.rs": "storage::format",
    "src/storage/seq_token.rs": "storage::seq_token",
    "src/storage/metadata.rs": "storage::metadata",
    "src/storage/allocation_journal.rs": "storage::allocation_journal",
    "src/storage/io.rs": "storage::io",
    "src/storage/write_buffer.rs": "storage::write_buffer",
    "src/core/record.rs": "core::record",
    "src/core/cache.rs": "core::cache",
    "src/core/store/recovery.rs": "core::store::recovery",
    "src/core/store/persistence.rs": "core::store::persistence",
    "src/core/store/mod.rs": "core::store",
    "src/utils/allocator.rs": "utils::allocator",
}

# line rewrites (exactly one match required): free_space.rs is compiled against a bounded
# sorted-array model of the BTreeMap API subset it uses (std's B-tree is out of solver reach).
REWRITES = {
    # CRC implementation selection: ask the harness module first (software kernel / recorder / havoc).
    # Source-level (not kani::stub) so that it also holds when counterexamples are replayed natively.
    "src/storage/seq_token.rs": [
        (
            r"^fn select_crc32c\(\) -> Crc32c \{[ \t]*$",
            "fn select_crc32c() -> Crc32c {\n    #[cfg(kani)]\n    if let Some(f) = verif_kani::crc_override() {\n        return f;\n    }",
        )
    ],
    "src/storage/free_space.rs": [
        (
            r"^use std::collections::BTreeMap;[ \t]*$",
            '#[cfg(not(kani))] use std::collections::BTreeMap;\n'
            '#[cfg(kani)] #[path = "%s/verif_btree.rs"] mod verif_btree;\n'
            "#[cfg(kani)] use verif_btree::BTreeMap;" % KANI_DIR,
        )
    ],
}


# std's slice sort cannot be explored under lengths CBMC does not constant-propagate (pdqsort/smallsort/heapsort
# recursion: >400 s for a 1-element Vec). Each `X.sort_unstable_by_key(F);` statement gets a cfg(kani) twin that calls
# an insertion-sort model with the same contract (kani/sort_stub.rs); the original statement stays under cfg(not(kani)).
SORT_FILES = ["src/storage/allocation_journal.rs", "src/storage/io.rs", "src/storage/write_buffer.rs"]
SORT_RE = r"^([ \t]*)(\w+)\.sort_unstable_by_key\((.*)\);[ \t]*$"


def _sort_rewrite(text):
    def repl(m):
        ind, var, arg = m.group(1), m.group(2), m.group(3)
        return ("%s#[cfg(kani)]\n%scrate::verif_sort::SortModel::sort_unstable_by_key_model(&mut %s[..], %s);\n"
                "%s#[cfg(not(kani))]\n%s%s.sort_unstable_by_key(%s);" % (ind, ind, var, arg, ind, ind, var, arg))
    return re.subn(SORT_RE, repl, text, flags=re.M)


def instrument(src_root, only=None):
    """Append `#[cfg(kani)] mod verif_kani` lines; additive and cfg(kani)-guarded."""
    done = []
    for rel, modfile in MODULES.items():
        if only is not None and rel not in only:
            continue
        hpath = os.path.join(KANI_DIR, modfile)
        if not os.path.exists(hpath):
            continue
        p = os.path.join(src_root, rel)
        if not os.path.exists(p):
            raise CannotInstrument("splice point missing: %s" % rel)
        text = open(p).read()
        for pat, repl in REWRITES.get(rel, []):
            new, n = re.subn(pat, lambda m: repl, text, flags=re.M)
            if n != 1:
                raise CannotInstrument("rewrite %r matched %d times in %s" % (pat, n, rel))
            text = new
        if rel in SORT_FILES:
            text, _n = _sort_rewrite(text)
        text += '\n#[cfg(kani)] #[path = "%s"] pub(crate) mod verif_kani;\n' % hpath
        with open(p, "w") as f:
            f.write(text)
        done.append(rel)
    lib = os.path.join(src_root, "src/lib.rs")
    libtext = open(lib).read()
    with open(lib, "w") as f:
        # harness stubs for std::sync::Arc::drop_slow must name the (unstable) Allocator parameter
        f.write("#![cfg_attr(kani, feature(allocator_api))]\n" + libtext)
    with open(lib, "a") as f:
        f.write('\n#[cfg(kani)] #[path = "%s/sort_stub.rs"] pub(crate) mod verif_sort;\n' % KANI_DIR)
    return done


def harness_fqn(rel, name):
    return "%s::verif_kani::%s" % (MODPATH[rel], name)


def _limit_mem(gb):
    def f():
        lim = int(gb * (1 << 30))
        resource.setrlimit(resource.RLIMIT_AS, (lim, lim))
        os.setsid()
    return f


def run(src_root, target_dir, fqns, jobs=4, timeout_s=900, mem_gb=24, extra=None, logfile=None,
        reach_checks=False):
    """Run the given harnesses (fully qualified names) in one cargo-kani invocation.
    Returns (results: {fqn: dict}, build_ok: bool, raw_log: str)."""
    out_json = os.path.join(target_dir, "verif-export-%d.json" % (int(time.time() * 1000) % 10**9))
    os.makedirs(target_dir, exist_ok=True)
    cmd = [
        "cargo", "kani", "--no-default-features", "--features", "system-alloc",
        "-Z", "stubbing", "-Z", "unstable-options",
        "--exact", "--output-format", "terse", "-j", str(max(1, jobs)),
        "--harness-timeout", "%ds" % timeout_s,
        "--export-json", out_json, "--target-dir", target_dir,
    ]
    if not reach_checks:
        cmd.append("--no-assertion-reach-checks")
    for h in fqns:
        cmd += ["--harness", h]
    if extra:
        cmd += extra
    env = dict(os.environ)
    env["CARGO_NET_OFFLINE"] = "true"
    env.pop("RUSTUP_TOOLCHAIN", None)
    t0 = time.time()
    # the global cap is a safety net on top of Kani's own per-harness timeout
    hard = timeout_s * (1 + (len(fqns) + jobs - 1) // max(1, jobs)) + 600
    try:
        p = subprocess.run(cmd, cwd=src_root, env=env, stdout=subprocess.PIPE, stderr=subprocess.STDOUT,
                           text=True, timeout=hard, preexec_fn=_limit_mem(mem_gb))
        raw = p.stdout
        rc = p.returncode
    except subprocess.TimeoutExpired as e:
        raw = (e.stdout or b"").decode("utf-8", "replace") if isinstance(e.stdout, bytes) else (e.stdout or "")
        rc = -9
        subprocess.run(["pkill", "-x", "cbmc"])
    wall = time.time() - t0
    if logfile:
        with open(logfile, "a") as f:
            f.write("$ " + " ".join(cmd) + "\n" + raw + "\n")
    results = {}
    if not os.path.exists(out_json):
        return results, False, raw, wall
    data = json.load(open(out_json))
    stats = {c["harness_id"]: (c.get("cbmc_stats") or {}) for c in data.get("cbmc", [])}
    pdet = {c["harness_id"]: (c.get("property_details") or {}) for c in data.get("property_details", [])}
    errs = {c["harness_id"]: c for c in data.get("error_details", [])}
    for r in data.get("verification_results", {}).get("results", []):
        hid = r["harness_id"]
        checks = r.get("checks", [])
        failed = [c for c in checks if c.get("status") not in ("Success", "Satisfied", "Unreachable")
                  and not (c.get("category") == "cover")]
        covers = [c for c in checks if c.get("category") == "cover" or "cover" in (c.get("description") or "")[:6]]
        user = [c for c in checks if (c.get("location") or {}).get("file", "").startswith(KANI_DIR)
                and c.get("category") == "assertion" and c.get("description", "").startswith("assertion failed")]
        results[hid] = {
            "status": r.get("status"),
            "duration_s": r.get("duration_ms", 0) / 1000.0,
            "n_checks": len(checks),
            "failed": failed,
            "covers": covers,
            "user_asserts": user,
            "cbmc_stats": stats.get(hid, {}),
            "property_details": pdet.get(hid, {}),
            "error": errs.get(hid, {}),
        }
    # SAT sizes only appear in the text log of single-harness runs; keep the raw tail for debugging
    return results, True, raw, wall


def playback_print(src_root, target_dir, fqn, timeout_s=900, mem_gb=24):
    """Ask Kani for a concrete counterexample as a unit test (text)."""
    cmd = [
        "cargo", "kani", "--no-default-features", "--features", "system-alloc",
        "-Z", "stubbing", "-Z", "unstable-options", "-Z", "concrete-playback",
        "--concrete-playback=print", "--exact", "--harness", fqn,
        "--harness-timeout", "%ds" % timeout_s, "--target-dir", target_dir,
        "--no-assertion-reach-checks",
    ]
    env = dict(os.environ)
    env["CARGO_NET_OFFLINE"] = "true"
    try:
        p = subprocess.run(cmd, cwd=src_root, env=env, stdout=subprocess.PIPE, stderr=subprocess.STDOUT,
                           text=True, timeout=timeout_s + 300, preexec_fn=_limit_mem(mem_gb))
    except subprocess.TimeoutExpired:
        return None, ""
    blocks = re.findall(r"```\s*\n(.*?)```", p.stdout, flags=re.S)
    # one generated test per failing check AND per satisfied cover: keep the ones for failing checks
    keep = [b for b in blocks if "Check for `cover`" not in b]
    if not keep:
        return None, p.stdout
    # distinct test functions only
    seen, out = set(), []
    for b in keep:
        m = re.search(r"fn\s+(kani_concrete_playback_\w+)", b)
        if m and m.group(1) not in seen:
            seen.add(m.group(1))
            out.append(b)
    return "\n".join(out[:4]), p.stdout
