#!/usr/bin/env python3
"""Regenerate /verif/MANIFEST.json from lib/props.py (claimed checks) and lib/na.py (not applicable)."""
import json, os, sys
sys.path.insert(0, os.path.dirname(os.path.abspath(__file__)))
import props, na

V = os.path.dirname(os.path.dirname(os.path.abspath(__file__)))
ALL = ["C%02d" % i for i in range(1, 21)]
checks = []
for pid in ALL:
    if pid not in props.PROPS or pid in na.NOT_APPLICABLE:
        continue
    sp = props.PROPS[pid]
    checks.append({
        "property_id": pid,
        "quick_cmd": "./check %s quick" % pid,
        "thorough_cmd": "./check %s thorough" % pid,
        "evidence_file": "evidence/%s.json" % pid,
        "replay_cmd_template": "./check replay {path}",
        "engine": sp.get("engine_name", "E1-kani"),
        "level_claimed": {"category": "model_checking", "text": sp["level_text"], "design_ref": sp.get("design_ref", "DESIGN.md §1 " + pid)},
        "level_note": sp["level_note"],
        "technique": sp["technique"],
    })
napp = [{"property_id": p, "reason": na.NOT_APPLICABLE[p]} for p in ALL if p in na.NOT_APPLICABLE]
missing = [p for p in ALL if p not in na.NOT_APPLICABLE and p not in [c["property_id"] for c in checks]]
assert not missing, missing
m = {
    "version": 1,
    "setup_cmd": "./setup.sh",
    "hooks": {
        "guard": "cfg(kani)",
        "enable": "no source hooks are committed to /repo: each check copies /repo's working tree to a scratch directory and appends `#[cfg(kani)] #[path=\"/verif/kani/<x>_k.rs\"] mod verif_kani;` lines there (lib/kanirun.py instrument); cfg(kani) is set only by `cargo kani`",
        "baseline_off_cmd": "cd /repo && (cargo nextest run --workspace --no-fail-fast --tool-config-file pb:/w/lib/nextest.toml --profile pb --test-threads 8 --offline || cargo test --workspace --no-fail-fast --offline)",
        "source_commits": [],
        "add_only": True,
    },
    "engines": [
        {"name": "E1-kani", "path": "lib/kanirun.py + kani/*.rs", "serves_properties": [c["property_id"] for c in checks if "kani" in props.PROPS[c["property_id"]]],
         "kind_free_text": "Kani 0.68 (CBMC 6.11 + CaDiCaL) proof harnesses over the real crate compiled from a scratch copy of /repo's working tree; symbolic inputs via kani::any(), bounded by #[kani::unwind] with unwinding assertions on; counterexamples concretised with concrete-playback and replayed natively (dev+release) before a VIOLATION is printed"},
        {"name": "E2-mir-smt", "path": "lib/mir.py lib/smtrun.py", "serves_properties": [c["property_id"] for c in checks if "smt" in props.PROPS[c["property_id"]]],
         "kind_free_text": "own MIR->SMT-LIB2 encoder: `cargo +nightly rustc -- -Zunpretty=mir` on the scratch copy, bit-vector encoding of the extracted function bodies, rely/guarantee interference steps at atomics, z3 decides, cvc5 cross-checks"},
    ],
    "checks": checks,
    "not_applicable": napp,
    "notes": "All checks are bounded solver verdicts over the real code (see DESIGN.md). Exit 2 = inconclusive (timeout/OOM/bound too small/cannot instrument/unconfirmed candidate) and is never reported as a pass or as a violation.",
}
json.dump(m, open(os.path.join(V, "MANIFEST.json"), "w"), indent=1)
print("MANIFEST.json: %d checks, %d not applicable" % (len(checks), len(napp)))
