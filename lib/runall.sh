#!/bin/bash
# runall.sh <tier> <ids...> : run checks sequentially, log to logs/<id>.<tier>.out
tier=$1; shift
cd "$(dirname "$0")/.."
for p in "$@"; do
  s=$(date +%s)
  ./check $p $tier > logs/$p.$tier.out 2>&1
  echo "$p rc=$? $(( $(date +%s) - s ))s" | tee -a logs/runall.$tier.log
done
