"""E2 driver: regenerate MIR from a scratch copy of /repo's working tree, encode the selected function
bodies with lib/mir.py, discharge the obligations with z3 (cvc5 cross-checks the kernel queries), and
turn a counterexample into a native witness run before it is reported."""
import os
import re
import subprocess
import time

import z3

import common
import mir
import obligations
from common import log

MIR_CMD = ["cargo", "+nightly", "rustc", "--offline", "--lib", "--no-default-features", "--features", "system-alloc"]
MIR_FLAGS = ["--", "-Zunpretty=mir", "-C", "debug-assertions=off", "-C", "overflow-checks=on"]


def dump_mir(scratch):
    src = os.path.join(scratch, "mirsrc")
    common.copy_repo(src)
    lib = os.path.join(src, "src", "lib.rs")
    os.utime(lib, None)
    env = dict(os.environ)
    env["CARGO_NET_OFFLINE"] = "true"
    env.pop("RUSTUP_TOOLCHAIN", None)
    out = os.path.join(scratch, "feoxdb.mir")
    t0 = time.time()
    with open(out, "w") as f:
        p = subprocess.run(MIR_CMD + ["--target-dir", os.path.join(scratch, "tm")] + MIR_FLAGS, cwd=src, env=env,
                           stdout=f, stderr=subprocess.PIPE, text=True, timeout=1200)
    if p.returncode != 0 or os.path.getsize(out) < 1000:
        return None, "MIR dump failed: " + p.stderr[-800:], src
    return out, "mir dump %.0fs" % (time.time() - t0), src


def run(pid, spec_name, tier, scratch):
    t0 = time.time()
    path, note, src = dump_mir(scratch)
    if path is None:
        log("INCONCLUSIVE: " + note)
        return [{"id": "mir-dump", "engine": "smt", "status": "inconclusive", "detail": note}], {}
    fns = mir.load(path)
    fn = getattr(obligations, spec_name)
    mir.CROSS_CHECK_ALL = (tier == "thorough")
    obls = []
    try:
        obls = fn(fns, tier, {"src": src, "scratch": scratch, "pid": pid})
    except mir.MirError as e:
        obls.append({"id": "mir-encode", "engine": "smt", "status": "inconclusive",
                     "detail": "cannot encode (MIR shape changed?): %s" % e})
    meta = {"smt_wall_s": round(time.time() - t0, 1), "mir_functions": len(fns), "mir_note": note,
            "solver": "z3 %s (python API); cvc5 re-decides %s" % (z3.get_version_string(), "every entailment query, up to %d per interpreted function (thorough tier)" % mir.CROSS_CHECK_CAP if tier == "thorough" else "the interference kernels' queries")}
    return obls, meta
