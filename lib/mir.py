"""E2: parse rustc's `-Zunpretty=mir` text and execute function bodies symbolically (z3).

The interpreter is deliberately small:
  * integer / bool locals are bit-vectors / Bools of their Rust width; every other value lives in one
    uninterpreted sort U; struct fields, enum payloads and discriminants are uninterpreted functions of the
    value (so reading an immutable field twice gives the same term);
  * references are identified with their referent (`&x`, `*x`, Deref::deref, Arc::clone, AsRef::as_ref,
    Arc::as_ptr are the identity on terms) – that is what lets the solver decide *which object* an effect is
    applied to;
  * calls: a fixed, reviewed table gives semantics to the pure integer helpers and to Try::branch /
    from_residual; whitelisted pure functions become uninterpreted function applications; every other call
    returns a fresh (havocked) value. Every call is logged as an event with its argument terms and the path
    condition at that point;
  * atomics: either havoc (fresh value per load) or, for the kernels, a rely/guarantee model with an
    arbitrary environment step before every atomic operation (see AtomicModel);
  * paths are enumerated depth-first; a branch is followed only if the solver says its condition is
    satisfiable; loops are unrolled `loop_bound` times and a path that would need more is reported as
    truncated (an unwinding-assertion failure), never silently dropped.
"""
import re
import z3

U = z3.DeclareSort("U")
INT_W = {"u8": 8, "i8": 8, "u16": 16, "i16": 16, "u32": 32, "i32": 32, "u64": 64, "i64": 64,
         "usize": 64, "isize": 64, "u128": 128, "i128": 128}
SIGNED = {"i8", "i16", "i32", "i64", "isize", "i128"}


# thorough tier: every entailment query (up to CROSS_CHECK_CAP per interpreter) is re-decided by cvc5
CROSS_CHECK_ALL = False
CROSS_CHECK_CAP = 1500


class MirError(Exception):
    pass


def cvc5_verdict(smt2_text, timeout_s=20):
    """second opinion on one query: the SMT-LIB2 text z3 decided is handed to the cvc5 binary"""
    import subprocess
    import tempfile
    with tempfile.NamedTemporaryFile("w", suffix=".smt2", delete=False) as f:
        f.write("(set-logic ALL)\n" + smt2_text.replace("(set-info :status sat)", "").replace("(set-info :status unsat)", ""))
        path = f.name
    try:
        p = subprocess.run(["cvc5", "--lang", "smt2", "--tlimit", str(timeout_s * 1000), path], stdout=subprocess.PIPE, stderr=subprocess.PIPE,
                           text=True, timeout=timeout_s + 10)
        out = p.stdout.strip().splitlines()
        if "(error" in p.stdout or "(error" in p.stderr:
            return "error"
        return out[0] if out else "none"
    except Exception:
        return "timeout"
    finally:
        import os
        os.unlink(path)


# ----------------------------------------------------------------------------- parsing
class Function:
    def __init__(self, name, header):
        self.name = name
        self.header = header
        self.locals = {}   # "_3" -> type string
        self.blocks = {}   # "bb0" -> [statement strings..., terminator string]
        self.cleanup = set()
        self.text = ""


def split_functions(text):
    """yield (header_line, body_text) for every `fn ...{ ... }` item at column 0"""
    out = []
    lines = text.split("\n")
    i = 0
    while i < len(lines):
        l = lines[i]
        if l.startswith("fn ") and l.rstrip().endswith("{"):
            j = i + 1
            while j < len(lines) and lines[j] != "}":
                j += 1
            out.append((l, lines[i:j + 1]))
            i = j + 1
        else:
            i += 1
    return out


def parse_function(header, lines):
    m = re.match(r"fn (.*?)\((.*)\) -> (.*) \{$", header)
    if not m:
        raise MirError("cannot parse header: " + header[:120])
    f = Function(m.group(1), header)
    f.text = "\n".join(lines)
    f.ret_type = m.group(3)
    f.args = []
    # arguments: `_1: &FeoxStore, _2: &Record, ...` (split at top-level commas)
    for a in split_top(m.group(2), ","):
        a = a.strip()
        if not a:
            continue
        am = re.match(r"(?:mut )?(_\d+): (.*)$", a)
        if am:
            f.locals[am.group(1)] = am.group(2)
            f.args.append(am.group(1))
    f.locals["_0"] = f.ret_type
    cur = None
    f.debug = {}
    for l in lines[1:]:
        s = l.strip()
        dm = re.match(r"debug (\w+) => (_\d+);$", s)
        if dm:
            f.debug.setdefault(dm.group(1), dm.group(2))
            continue
        lm = re.match(r"let (?:mut )?(_\d+): (.*);$", s)
        if lm:
            f.locals[lm.group(1)] = lm.group(2)
            continue
        bm = re.match(r"(bb\d+)( \(cleanup\))?: \{$", s)
        if bm:
            cur = bm.group(1)
            f.blocks[cur] = []
            if bm.group(2):
                f.cleanup.add(cur)
            continue
        if cur is not None:
            if s == "}":
                cur = None
            elif s:
                f.blocks[cur].append(s)
    return f


CONST_ITEMS = {}
CLOSURES = {}   # "{closure@file:l:c: l:c}" -> Function


def load_consts(text):
    """`const path::NAME: ty = const LIT;` and `const NAME: ty = { body }` items, keyed by last path segment"""
    items = {}
    lines = text.split("\n")
    i = 0
    while i < len(lines):
        l = lines[i]
        m = re.match(r"const ([\w:]+): ([^=]+) = (.*)$", l)
        if m:
            name = m.group(1).rsplit("::", 1)[-1]
            ty = m.group(2).strip()
            rest = m.group(3).strip()
            if rest.startswith("const ") and rest.endswith(";"):
                val = ("lit", ty, rest[6:-1])
            elif rest == "{":
                j = i + 1
                while j < len(lines) and lines[j] != "}":
                    j += 1
                val = ("body", ty, lines[i:j + 1])
                i = j
            else:
                val = None
            if val is not None:
                items[name] = None if name in items else val   # ambiguous names are left symbolic
        i += 1
    return items


def load(path):
    text = open(path).read()
    CONST_ITEMS.clear()
    CONST_ITEMS.update({k: v for k, v in load_consts(text).items() if v is not None})
    fns = {}
    for header, lines in split_functions(text):
        try:
            f = parse_function(header, lines)
        except MirError:
            continue
        fns.setdefault(f.name, f)
    CLOSURES.clear()
    for f in fns.values():
        if f.args:
            t = f.locals.get(f.args[0], "")
            m = re.match(r"&?(?:mut )?(\{closure@[^}]*\})", t)
            if m:
                CLOSURES[m.group(1)] = f
    return fns


def find(fns, suffix, file_hint=None):
    """function whose name ends with `suffix` (e.g. '::update_ttl'), optionally from a given source file"""
    bare = suffix.lstrip(":")
    hits = [f for n, f in fns.items() if (n.endswith(suffix) or n == bare) and (file_hint is None or file_hint in n)]
    if len(hits) != 1:
        raise MirError("expected exactly one MIR body for %s (%s), found %d" % (suffix, file_hint, len(hits)))
    return hits[0]


def split_top(s, sep):
    out, depth, cur = [], 0, ""
    i = 0
    while i < len(s):
        c = s[i]
        if c in "([{<":
            depth += 1
        elif c in ")]}":
            depth -= 1
        elif c == ">" and not (i > 0 and s[i - 1] in "-="):
            depth -= 1
        if c == sep and depth == 0:
            out.append(cur)
            cur = ""
        else:
            cur += c
        i += 1
    out.append(cur)
    return out


def sort_of(ty):
    ty = ty.strip()
    # references / raw pointers are identified with their referent
    while True:
        m = re.match(r"(&(?:'\w+ )?(?:mut )?|\*const |\*mut )(.*)$", ty)
        if not m:
            break
        ty = m.group(2).strip()
    if ty == "bool":
        return z3.BoolSort()
    if ty in INT_W:
        return z3.BitVecSort(INT_W[ty])
    return U


# ----------------------------------------------------------------------------- values
class Tup:
    """small aggregate built inside MIR (WithOverflow results, tuples, struct literals)"""
    def __init__(self, fields):
        self.fields = fields


class Ctx:
    """shared uninterpreted functions and fresh-name supply"""
    def __init__(self):
        self.n = 0
        self.ufs = {}
        self.disc = z3.Function("disc", U, z3.BitVecSort(64))
        self.consts = {}
        self.tups = {}
        self.cf_map = {}

    def fresh(self, sort, hint="v"):
        self.n += 1
        name = "%s!%d" % (hint, self.n)
        return z3.Const(name, sort)

    def uf(self, name, arg_sorts, ret_sort):
        key = (name, tuple(str(s) for s in arg_sorts), str(ret_sort))
        if key not in self.ufs:
            uname = "%s#%s#%s" % (name, ",".join(str(s) for s in arg_sorts), ret_sort)
            self.ufs[key] = z3.Function(uname, *(list(arg_sorts) + [ret_sort]))
        return self.ufs[key]

    def named(self, name):
        if name not in self.consts:
            self.consts[name] = z3.Const("K:" + name, U)
        return self.consts[name]


VARIANT_ID = {"Ok": 0, "Err": 1, "None": 0, "Some": 1, "Continue": 0, "Break": 1}

IDENTITY_CALLS = (
    " as Deref>::deref", " as AsRef<", " as Clone>::clone", "Arc::as_ptr", " as Borrow<", "as_slice", "as_ref",
    " as DerefMut>::deref_mut", "Arc::<", "into_iter",
)


class Event:
    def __init__(self, kind, callee, args, pc, ret=None, loc=None):
        self.kind, self.callee, self.args, self.pc, self.ret, self.loc = kind, callee, args, pc, ret, loc

    def __repr__(self):
        return "%s %s(%s)" % (self.kind, self.callee, ", ".join(str(a)[:60] for a in self.args))


class PathResult:
    def __init__(self, events, pc, ret, status, env, extra=None):
        self.events, self.pc, self.ret, self.status, self.env = events, pc, ret, status, env
        self.extra = extra or {}


class AtomicModel:
    """rely/guarantee model for one class of atomic location (all loads/stores in the function under test
    are assumed to hit the same location: the encoded kernels touch exactly one atomic)."""
    def __init__(self, width, rely, spurious=True):
        self.width = width
        self.rely = rely          # f(old, new) -> z3 Bool: what OTHER threads may do in one step
        self.spurious = spurious  # compare_exchange_weak may fail spuriously


class Interp:
    def __init__(self, fn, ctx=None, loop_bound=2, atomic=None, pure=(), timeout_ms=20000, on_event=None, max_paths=4000,
                 inline=None, slices=False):
        self.inline = inline or {}     # callee name suffix -> Function (single-path callees are interpreted in place)
        self.slices = slices           # model slice lengths / Range iteration (panic-freedom obligations)
        self.fn = fn
        self.ctx = ctx or Ctx()
        self.loop_bound = loop_bound
        self.atomic = atomic
        self.pure = tuple(pure)
        self.solver = z3.Solver()
        self.solver.set("timeout", timeout_ms)
        self.queries = 0
        self.results = []
        self.on_event = on_event
        self.max_paths = max_paths
        self.unknown_stmts = []
        self.cross_check = CROSS_CHECK_ALL

    # ---- solver helpers
    def _retry(self, assertions):
        """a query that hit the per-query time limit (a loaded machine) is decided again in a fresh solver with a 10-minute limit;
        only if that is undecided too does the obligation become inconclusive"""
        s2 = z3.Solver()
        s2.set("timeout", 600000)
        s2.set("random_seed", 7)
        for a in assertions:
            s2.add(a)
        r = s2.check()
        self.retried = getattr(self, "retried", 0) + 1
        return r, (s2.model() if r == z3.sat else None)

    def sat(self, pc):
        self.queries += 1
        self.solver.push()
        for c in pc:
            self.solver.add(c)
        r = self.solver.check()
        if r == z3.unknown:
            r, _ = self._retry(list(self.solver.assertions()))
        self.solver.pop()
        if r == z3.unknown:
            raise MirError("solver returned unknown")
        return r == z3.sat

    def entails(self, pc, formula):
        self.queries += 1
        self.solver.push()
        for c in pc:
            self.solver.add(c)
        self.solver.add(z3.Not(formula))
        r = self.solver.check()
        model = self.solver.model() if r == z3.sat else None
        if r == z3.unknown:
            r, model = self._retry(list(self.solver.assertions()))
        smt2 = self.solver.to_smt2() if (getattr(self, "cross_check", False) and getattr(self, "cross_checked", 0) < CROSS_CHECK_CAP) else None
        self.solver.pop()
        if r == z3.unknown:
            raise MirError("solver returned unknown")
        if smt2 is not None:
            self.cross_checked = getattr(self, "cross_checked", 0) + 1
            other = cvc5_verdict(smt2)
            if other in ("sat", "unsat") and other != str(r):
                raise MirError("solver disagreement: z3 says %s, cvc5 says %s" % (r, other))
            if other not in ("sat", "unsat"):
                self.cross_unknown = getattr(self, "cross_unknown", 0) + 1
        return r == z3.unsat, model

    # ---- place / operand evaluation
    def local_sort(self, name):
        return sort_of(self.fn.locals.get(name, "?"))

    def read_local(self, st, name):
        if name not in st["env"]:
            st["env"][name] = self.ctx.fresh(self.local_sort(name), name)
        return st["env"][name]

    def parse_place(self, s):
        """returns (base_local, [proj...]) where proj is ('deref',) | ('field', idx, type) | ('variant', name)"""
        s = s.strip()
        projs = []
        while True:
            if re.fullmatch(r"_\d+", s):
                return s, list(reversed(projs))
            if s.startswith("(") and s.endswith(")"):
                inner = s[1:-1].strip()
                if inner.startswith("*"):
                    projs.append(("deref",))
                    s = inner[1:].strip()
                    continue
                m = re.match(r"(.*) as (\w+)$", inner)
                if m and balanced(m.group(1)):
                    projs.append(("variant", m.group(2)))
                    s = m.group(1).strip()
                    continue
                # (place.IDX: Type)
                k = find_field_split(inner)
                if k is not None:
                    base, idx, ty = k
                    projs.append(("field", idx, ty))
                    s = base.strip()
                    continue
                s = inner
                continue
            m = re.match(r"(.*)\[(.*)\]$", s)
            if m:
                projs.append(("index", m.group(2)))
                s = m.group(1)
                continue
            raise MirError("cannot parse place: " + s[:80])

    def eval_place(self, st, s):
        base, projs = self.parse_place(s)
        v = self.read_local(st, base)
        variant = ""
        for p in projs:
            if p[0] == "deref":
                continue
            if p[0] == "variant":
                variant = p[1]
                # (Try::branch(x) as Continue).0 is, syntactically, (x as Ok/Some).0 – keeps provenance visible
                if variant == "Continue" and z3.is_expr(v) and str(v) in self.ctx.cf_map:
                    v, is_res = self.ctx.cf_map[str(v)]
                    variant = "Ok" if is_res else "Some"
                continue
            if p[0] == "field":
                idx, ty = p[1], p[2]
                if isinstance(v, Tup):
                    v = v.fields[idx]
                else:
                    srt = sort_of(ty)
                    f = self.ctx.uf("proj_%s_%d" % (variant, idx), [U], srt)
                    v = f(self.as_u(v))
                variant = ""
                continue
            if p[0] == "index":
                v = self.ctx.fresh(U, "idx")
        return v

    def as_u(self, v):
        if isinstance(v, Tup):
            return self.ctx.fresh(U, "tup")
        if z3.is_expr(v) and v.sort() == U:
            return v
        # integers / bools wrapped into U by an injective-enough UF
        f = self.ctx.uf("box", [v.sort()], U)
        return f(v)

    def eval_operand(self, st, s):
        s = s.strip()
        if s.startswith("copy ") or s.startswith("move "):
            return self.eval_place(st, s[5:])
        if s.startswith("const "):
            return self.eval_const(s[6:])
        if not re.match(r"^[_(]", s):
            return self.ctx.named(s)   # a function item / path used as a value
        return self.eval_place(st, s)

    def eval_const(self, c):
        c = c.strip()
        if c == "true":
            return z3.BoolVal(True)
        if c == "false":
            return z3.BoolVal(False)
        m = re.fullmatch(r"(-?\d[\d_]*)_([iu](?:8|16|32|64|128|size))", c)
        if m:
            return z3.BitVecVal(int(m.group(1).replace("_", "")), INT_W[m.group(2)])
        m = re.fullmatch(r"core::num::<impl (u\w+)>::MAX", c)
        if m:
            w = INT_W[m.group(1)]
            return z3.BitVecVal((1 << w) - 1, w)
        if c == "()":
            return self.ctx.named("unit")
        last = c.rsplit("::", 1)[-1]
        if re.fullmatch(r"[\w:]+", c) and last in CONST_ITEMS:
            cache = self.ctx.__dict__.setdefault("const_cache", {})
            if last in cache:        # a const item has ONE value: evaluate its body once per context
                return cache[last]
            v = self.eval_const_item(last)
            if v is not None:
                cache[last] = v
                return v
        return self.ctx.named(c)

    def eval_const_item(self, name, depth=0):
        kind, ty, body = CONST_ITEMS[name]
        if depth > 6:
            return None
        if kind == "lit":
            if re.fullmatch(r"-?\d[\d_]*_[iu](?:8|16|32|64|128|size)|true|false", body.strip()):
                return self.eval_const(body)
            return None
        try:
            f = parse_function("fn %s() -> %s {" % (name, ty), ["fn"] + body[1:])
        except MirError:
            return None
        sub = Interp(f, ctx=self.ctx, loop_bound=1)
        res = [r for r in sub.run() if r.status == "return"]
        if len(res) != 1 or res[0].ret is None or isinstance(res[0].ret, Tup):
            return None
        return z3.simplify(res[0].ret)

    # ---- statements
    def exec_assign(self, st, dst, rhs):
        v = self.eval_rvalue(st, rhs, dst)
        self.write_place(st, dst, v)

    def write_place(self, st, dst, v):
        dst = dst.strip()
        if re.fullmatch(r"_\d+", dst):
            srt = self.local_sort(dst)
            if z3.is_expr(v) and v.sort() != srt:
                v = self.coerce(v, srt)
            st["env"][dst] = v
            return
        # writes through projections / derefs: record as an event (memory is not modelled)
        base, projs = self.parse_place(dst)
        tgt = self.read_local(st, base)
        self.emit(st, Event("write", dst_shape(projs), [tgt, v], list(st["pc"])))
        if any(p[0] == "field" for p in projs) and isinstance(tgt, Tup):
            for p in projs:
                if p[0] == "field":
                    tgt.fields[p[1]] = v

    def coerce(self, v, srt):
        if isinstance(v, Tup):
            return v
        if srt == U:
            return self.as_u(v)
        if v.sort() == U:
            f = self.ctx.uf("unbox", [U], srt)
            return f(v)
        if z3.is_bv_sort(srt) and z3.is_bv(v):
            if v.size() > srt.size():
                return z3.Extract(srt.size() - 1, 0, v)
            return z3.ZeroExt(srt.size() - v.size(), v)
        if z3.is_bv_sort(srt) and z3.is_bool(v):
            return z3.If(v, z3.BitVecVal(1, srt.size()), z3.BitVecVal(0, srt.size()))
        return self.ctx.fresh(srt, "coerce")

    BINOPS = {"Add", "Sub", "Mul", "BitAnd", "BitOr", "BitXor", "Shl", "Shr", "Div", "Rem",
              "Eq", "Ne", "Lt", "Le", "Gt", "Ge", "AddWithOverflow", "SubWithOverflow", "MulWithOverflow",
              "AddUnchecked", "SubUnchecked", "MulUnchecked", "ShlUnchecked", "ShrUnchecked", "Offset", "Cmp"}

    def eval_rvalue(self, st, rhs, dst):
        rhs = rhs.strip()
        m = re.match(r"(\w+)\((.*)\)$", rhs)
        if m and m.group(1) in self.BINOPS:
            a, b = [self.eval_operand(st, x) for x in split_top(m.group(2), ",")]
            return self.binop(m.group(1), a, b, dst, st)
        if m and m.group(1) in ("Not", "Neg"):
            a = self.eval_operand(st, m.group(2))
            if z3.is_bool(a):
                return z3.Not(a)
            return ~a if m.group(1) == "Not" else -a
        if m and m.group(1) == "discriminant":
            v = self.eval_place(st, m.group(2))
            d = self.ctx.disc(self.as_u(v))
            srt = self.local_sort(dst) if re.fullmatch(r"_\d+", dst.strip()) else z3.BitVecSort(64)
            st["pc_aux"].append(z3.ULT(d, z3.BitVecVal(64, 64)))
            if z3.is_bv_sort(srt) and srt.size() != 64:
                return z3.Extract(srt.size() - 1, 0, d) if srt.size() < 64 else z3.ZeroExt(srt.size() - 64, d)
            return d
        if m and m.group(1) in ("PtrMetadata", "Len"):
            v = self.eval_operand(st, m.group(2))
            f = self.ctx.uf("len", [U], z3.BitVecSort(64))
            return f(self.as_u(v))
        if rhs.startswith("&raw const ") or rhs.startswith("&raw mut "):
            return self.eval_place(st, rhs.split(" ", 2)[2])
        if rhs.startswith("&mut "):
            return self.eval_place(st, rhs[5:])
        if rhs.startswith("&"):
            return self.eval_place(st, rhs[1:])
        cm = re.match(r"((?:copy|move|const) .+?) as (.+) \((\w+)(?:\(.*\))?\)$", rhs)
        if cm:
            v = self.eval_operand(st, cm.group(1))
            return self.coerce_cast(v, cm.group(2), cm.group(3))
        if rhs.startswith("copy ") or rhs.startswith("move ") or rhs.startswith("const "):
            return self.eval_operand(st, rhs)
        # enum / struct constructors:  Path::<T>::Variant(args)  |  Path::Variant  |  Type { f: v, .. }
        cm = re.match(r"([\w:<>&', \[\]\(\)\*]+?)::(\w+)\((.*)\)$", rhs)
        if cm and cm.group(2)[0].isupper():
            args = [self.eval_operand(st, x) for x in split_top(cm.group(3), ",") if x.strip()]
            return self.construct(st, cm.group(2), args)
        cm = re.match(r"([A-Za-z_][\w:]*?)(?:::<[^()]*>)?\((.*)\)$", rhs)
        if cm and cm.group(1).rsplit("::", 1)[-1][0].isupper() and cm.group(1) not in self.BINOPS:
            args = [self.eval_operand(st, x) for x in split_top(cm.group(2), ",") if x.strip()]
            return self.construct(st, cm.group(1).rsplit("::", 1)[-1], args)   # tuple struct
        clm = re.match(r"\{closure@[^}]*\} \{(.*)\}$", rhs)
        if clm:
            fields = []
            for fld in split_top(clm.group(1), ","):
                if ":" in fld:
                    fields.append(self.eval_operand(st, fld.split(":", 1)[1]))
            return Tup(fields)
        sm = re.match(r"([\w:<>&', ]+?) \{(.*)\}$", rhs)
        if sm:
            fields = []
            for fld in split_top(sm.group(2), ","):
                if ":" in fld:
                    fields.append(self.eval_operand(st, fld.split(":", 1)[1]))
            return Tup(fields)
        if rhs.startswith("(") and rhs.endswith(")"):
            parts = [x for x in split_top(rhs[1:-1], ",") if x.strip()]
            if len(parts) != 1 or rhs.endswith(",)"):
                return Tup([self.eval_operand(st, x) for x in parts])
        if rhs.startswith("[") and rhs.endswith("]"):
            return self.ctx.fresh(U, "arr")
        if re.fullmatch(r"[\w:<>&', \(\)\[\]\*]+", rhs) and re.match(r"[A-Za-z_]", rhs):
            last = rhs.rsplit("::", 1)[-1]
            if last in VARIANT_ID:
                return self.construct(st, last, [])
            return self.ctx.named(rhs)  # unit-like variant / constant path
        self.unknown_stmts.append(rhs[:120])
        srt = self.local_sort(dst) if re.fullmatch(r"_\d+", dst.strip()) else U
        return self.ctx.fresh(srt, "unk")

    def coerce_cast(self, v, ty, kind):
        srt = sort_of(ty)
        if isinstance(v, Tup):
            return self.ctx.fresh(srt, "cast")
        if kind == "IntToInt" and z3.is_bv(v) and z3.is_bv_sort(srt):
            if v.size() >= srt.size():
                return z3.Extract(srt.size() - 1, 0, v) if v.size() > srt.size() else v
            # sign of the SOURCE is unknown from the text; all casts in the encoded functions are unsigned
            return z3.ZeroExt(srt.size() - v.size(), v)
        return self.coerce(v, srt)

    def construct(self, st, variant, args):
        c = self.ctx.fresh(U, variant)
        if variant in VARIANT_ID:
            st["pc_aux"].append(self.ctx.disc(c) == VARIANT_ID[variant])
        for i, a in enumerate(args):
            if isinstance(a, Tup):
                self.ctx.tups[str(c)] = a
                continue
            f = self.ctx.uf("proj_%s_%d" % (variant, i), [U], a.sort())
            st["pc_aux"].append(f(c) == a)
        return c

    def binop(self, op, a, b, dst, st):
        if isinstance(a, Tup) or isinstance(b, Tup):
            return self.ctx.fresh(self.local_sort(dst), "bop")
        if a.sort() != b.sort():
            if z3.is_bv(a) and z3.is_bv(b):
                w = max(a.size(), b.size())
                a = z3.ZeroExt(w - a.size(), a)
                b = z3.ZeroExt(w - b.size(), b)
            else:
                b = self.coerce(b, a.sort())
        if op in ("Eq", "Ne"):
            r = a == b
            return r if op == "Eq" else z3.Not(r)
        if a.sort() == U or z3.is_bool(a):
            return self.ctx.fresh(z3.BoolSort(), "cmp")
        signed = self.is_signed_expr(dst)
        if op == "Lt":
            return a < b if signed else z3.ULT(a, b)
        if op == "Le":
            return a <= b if signed else z3.ULE(a, b)
        if op == "Gt":
            return a > b if signed else z3.UGT(a, b)
        if op == "Ge":
            return a >= b if signed else z3.UGE(a, b)
        w = a.size()
        if op in ("Add", "AddUnchecked"):
            return a + b
        if op in ("Sub", "SubUnchecked"):
            return a - b
        if op in ("Mul", "MulUnchecked"):
            return a * b
        if op == "BitAnd":
            return a & b
        if op == "BitOr":
            return a | b
        if op == "BitXor":
            return a ^ b
        if op in ("Shl", "ShlUnchecked"):
            return a << b
        if op in ("Shr", "ShrUnchecked"):
            return z3.LShR(a, b)
        if op == "Div":
            return z3.UDiv(a, b)
        if op == "Rem":
            return z3.URem(a, b)
        if op == "AddWithOverflow":
            return Tup([a + b, z3.Not(z3.BVAddNoOverflow(a, b, False))])
        if op == "SubWithOverflow":
            return Tup([a - b, z3.ULT(a, b)])
        if op == "MulWithOverflow":
            return Tup([a * b, z3.Not(z3.BVMulNoOverflow(a, b, False))])
        return self.ctx.fresh(self.local_sort(dst), "bop")

    def is_signed_expr(self, dst):
        return False

    # ---- events
    def emit(self, st, ev):
        st["events"].append(ev)
        if self.on_event:
            self.on_event(self, st, ev)

    # ---- calls
    def exec_call(self, st, dst, callee, argstr):
        args = [self.eval_operand(st, a) for a in split_top(argstr, ",") if a.strip()]
        name = norm_callee(callee)
        ret_sort = self.local_sort(dst) if re.fullmatch(r"_\d+", dst.strip()) else U
        ret = self.call_semantics(st, name, callee, args, ret_sort)
        ev = Event("call", name, args, list(st["pc"] + st["pc_aux"]), ret)
        ev.raw = callee
        self.emit(st, ev)
        if ret is not None:
            self.write_place(st, dst, ret)

    def call_semantics(self, st, name, raw, args, ret_sort):
        c = self.ctx
        a0 = args[0] if args else None
        # --- identity on terms
        if any(k in raw for k in (" as Deref>::deref", " as DerefMut>::deref_mut", " as AsRef<", " as Borrow<", " as IntoIterator>::into_iter")) \
                or name in ("Arc::as_ptr", "Arc::clone", "std::convert::identity"):
            return a0
        if raw.startswith("<Arc<") and raw.endswith(" as Clone>::clone"):
            return a0
        if raw.endswith(" as Clone>::clone") or name.endswith("::to_vec") or name.endswith("::to_owned"):
            return a0   # value-equal copy: same term
        if raw.startswith("Option::<") and raw.endswith(">::as_ref"):
            return a0
        if name in ("std::ptr::eq", "Arc::ptr_eq"):
            x, y = self.as_u(args[0]), self.as_u(args[1])
            return x == y
        # --- integers
        m = re.match(r"core::num::<impl (\w+)>::(\w+)$", name)
        if m and m.group(1) in INT_W and not isinstance(a0, Tup) and z3.is_expr(a0):
            w = INT_W[m.group(1)]
            fn = m.group(2)
            if not (z3.is_bv(a0) and a0.size() == w):
                a0 = self.coerce(a0, z3.BitVecSort(w))
            b = args[1] if len(args) > 1 else None
            if b is not None and not isinstance(b, Tup) and not (z3.is_bv(b) and b.size() == w):
                b = self.coerce(b, z3.BitVecSort(w))
            if isinstance(b, Tup):
                return c.fresh(ret_sort, fn)
            maxv = z3.BitVecVal((1 << w) - 1, w)
            if fn == "saturating_add":
                return z3.If(z3.BVAddNoOverflow(a0, b, False), a0 + b, maxv)
            if fn == "saturating_sub":
                return z3.If(z3.UGE(a0, b), a0 - b, z3.BitVecVal(0, w))
            if fn == "saturating_mul":
                return z3.If(z3.BVMulNoOverflow(a0, b, False), a0 * b, maxv)
            if fn in ("wrapping_add",):
                return a0 + b
            if fn in ("wrapping_sub",):
                return a0 - b
            if fn in ("checked_add", "checked_sub", "checked_mul"):
                o = c.fresh(U, fn)
                if fn == "checked_add":
                    ok, val = z3.BVAddNoOverflow(a0, b, False), a0 + b
                elif fn == "checked_sub":
                    ok, val = z3.UGE(a0, b), a0 - b
                else:
                    ok, val = z3.BVMulNoOverflow(a0, b, False), a0 * b
                st["pc_aux"].append(c.disc(o) == z3.If(ok, z3.BitVecVal(1, 64), z3.BitVecVal(0, 64)))
                f = c.uf("proj_Some_0", [U], z3.BitVecSort(w))
                st["pc_aux"].append(z3.Implies(ok, f(o) == val))
                return o
            if fn == "div_ceil":
                return z3.UDiv(a0, b) + z3.If(z3.URem(a0, b) == 0, z3.BitVecVal(0, w), z3.BitVecVal(1, w))
            if fn in ("max", "min"):
                return z3.If(z3.UGE(a0, b), a0, b) if fn == "max" else z3.If(z3.ULE(a0, b), a0, b)
        if name in ("std::cmp::max", "std::cmp::min", "std::cmp::Ord::max", "std::cmp::Ord::min", "<u64 as Ord>::max", "<u64 as Ord>::min",
                    "<usize as Ord>::max", "<usize as Ord>::min") and z3.is_bv(a0):
            return z3.If(z3.UGE(a0, args[1]), a0, args[1]) if name.endswith("max") else z3.If(z3.ULE(a0, args[1]), a0, args[1])
        # --- Option / Result plumbing
        if raw.endswith(" as Try>::branch"):
            is_result = raw.startswith("<std::result::Result") or raw.startswith("<Result")
            src = self.as_u(a0)
            r = c.fresh(U, "cf")
            d = c.disc(src)
            cont = (d == 0) if is_result else (d == 1)
            st["pc_aux"].append(c.disc(r) == z3.If(cont, z3.BitVecVal(0, 64), z3.BitVecVal(1, 64)))
            st["cf_src"] = st.get("cf_src", {})
            st["cf_src"][str(r)] = (src, is_result)
            self._cf_links.append((r, src, is_result))
            c.cf_map[str(r)] = (src, is_result)
            return r
        if " as FromResidual<" in raw:
            r = c.fresh(U, "resid")
            is_result = "Result" in raw.split(" as FromResidual")[0]
            st["pc_aux"].append(c.disc(r) == (1 if is_result else 0))
            return r
        fm = re.match(r"Option::<(.*)>::filter::<(\{closure@[^}]*\})>$", raw)
        if fm and fm.group(2) in CLOSURES and isinstance(args[1], Tup):
            # Some(x) if the predicate closure holds for x, else None – the closure body is interpreted in place
            psort = sort_of(fm.group(1))
            src = self.as_u(a0)
            payload = c.uf("proj_Some_0", [U], psort)(src)
            cf = CLOSURES[fm.group(2)]
            sub = Interp(cf, ctx=c, loop_bound=1, pure=self.pure, slices=self.slices)
            sub.solver = self.solver

            def cinit(_it, sst, _t=args[1], _p=payload, _cf=cf):
                sst["env"][_cf.args[0]] = _t
                if len(_cf.args) > 1:
                    sst["env"][_cf.args[1]] = _p
            rs = [r for r in sub.run(cinit) if r.status == "return"]
            self.queries += sub.queries
            if len(rs) == 1 and z3.is_bool(rs[0].ret):
                st["pc_aux"] += list(rs[0].pc)
                o = c.fresh(U, "filter")
                st["pc_aux"].append(c.disc(o) == z3.If(z3.And(c.disc(src) == 1, rs[0].ret), z3.BitVecVal(1, 64), z3.BitVecVal(0, 64)))
                st["pc_aux"].append(c.uf("proj_Some_0", [U], psort)(o) == payload)
                return o
        fm = re.match(r"Option::<(.*)>::is_some_and::<(\{closure@[^}]*\})>$", raw)
        if fm and fm.group(2) in CLOSURES and isinstance(args[1], Tup):
            psort = sort_of(fm.group(1))
            src = self.as_u(a0)
            payload = c.uf("proj_Some_0", [U], psort)(src)
            cf = CLOSURES[fm.group(2)]
            sub = Interp(cf, ctx=c, loop_bound=1, pure=self.pure, slices=self.slices)
            sub.solver = self.solver

            def cinit2(_it, sst, _t=args[1], _p=payload, _cf=cf):
                sst["env"][_cf.args[0]] = _t
                if len(_cf.args) > 1:
                    sst["env"][_cf.args[1]] = _p
            rs = [r for r in sub.run(cinit2) if r.status == "return"]
            self.queries += sub.queries
            if len(rs) == 1 and z3.is_bool(rs[0].ret):
                st["pc_aux"] += list(rs[0].pc)
                return z3.And(c.disc(src) == 1, rs[0].ret)
        if (re.search(r"Option::<.*>::take$", raw) or name.endswith("Option::take")) and len(args) == 1 and not isinstance(a0, Tup):
            # Option::take returns the value the place held (references are identified with referents; the write-back of None is not modelled)
            return a0
        if re.search(r"Result::<.*>::map_err::<", raw) or name.endswith("Result::map_err"):
            # Result::map_err maps the Err payload only: Ok-ness and the Ok payload are preserved (the closure is havocked)
            src = self.as_u(a0)
            # a term OF the source (provenance obligations look for the source inside the result); one function per mapping closure
            r = c.uf("fn:map_err:" + re.sub(r"[^\w@:.]", "_", raw)[-90:], [U], U)(src)
            st["pc_aux"].append(c.disc(r) == c.disc(src))
            for srt in (z3.BitVecSort(64), z3.BitVecSort(32), U, z3.BoolSort()):
                st["pc_aux"].append(c.uf("proj_Ok_0", [U], srt)(r) == c.uf("proj_Ok_0", [U], srt)(src))
            return r
        if name.endswith("Option::ok_or") or re.search(r"Option::<.*>::ok_or$", raw) or name == "Option::ok_or":
            src = self.as_u(a0)
            r = c.fresh(U, "ok_or")
            st["pc_aux"].append(c.disc(r) == z3.If(c.disc(src) == 1, z3.BitVecVal(0, 64), z3.BitVecVal(1, 64)))
            self._okor_links.append((r, src))
            return r
        # --- atomics
        am = re.match(r"std::sync::atomic::Atomic(?:::<(\w+)>)?::(\w+)$", name) or re.match(r"std::sync::atomic::Atomic\w+::(\w+)$", name)
        if "std::sync::atomic::Atomic" in name:
            op = name.rsplit("::", 1)[1]
            return self.atomic_op(st, op, args, ret_sort)
        # --- inlined single-path callees
        for suf, callee_fn in self.inline.items():
            if name.endswith(suf) or name == suf.lstrip(":"):
                sub = Interp(callee_fn, ctx=c, loop_bound=1, pure=self.pure, slices=self.slices)
                sub.solver = self.solver

                def init(_it, sst, _args=args, _fn=callee_fn):
                    for an, av in zip(_fn.args, _args):
                        sst["env"][an] = av
                rs = [r for r in sub.run(init) if r.status == "return"]
                self.queries += sub.queries
                if len(rs) != 1:
                    raise MirError("inlined callee %s has %d return paths" % (suf, len(rs)))
                for e in rs[0].events:
                    e.pc = list(st["pc"] + st["pc_aux"]) + list(e.pc)
                    st["events"].append(e)
                st["pc_aux"] += [x for x in rs[0].pc]
                return rs[0].ret
        if self.slices:
            r = self.slice_semantics(st, name, raw, args, ret_sort)
            if r is not None:
                return r
        # --- pure (deterministic) calls become uninterpreted functions
        if any(name.endswith(p) or name == p for p in self.pure):
            sorts = [(a.sort() if not isinstance(a, Tup) else U) for a in args]
            f = c.uf("fn:" + name, sorts, ret_sort)
            return f(*[(a if not isinstance(a, Tup) else c.fresh(U, "t")) for a in args])
        return c.fresh(ret_sort, name.rsplit("::", 1)[-1])

    def len_of(self, v):
        return self.ctx.uf("len", [U], z3.BitVecSort(64))(self.as_u(v))

    def slice_semantics(self, st, name, raw, args, ret_sort):
        c = self.ctx
        # slicing: <[u8] as Index<Range..>>::index(base, range)  -> result with known length; logged for bounds obligations
        m = re.search(r" as (?:std::ops::)?Index(?:Mut)?<(?:std::ops::)?(RangeTo|RangeFrom|Range|RangeInclusive)<usize>>>::index(?:_mut)?$", raw)
        if m and isinstance(args[1], Tup):
            kind = m.group(1)
            r = c.fresh(U, "slice")
            base_len = self.len_of(args[0])
            f = args[1].fields
            if kind == "Range":
                start, end = f[0], f[1]
            elif kind == "RangeTo":
                start, end = z3.BitVecVal(0, 64), f[0]
            elif kind == "RangeFrom":
                start, end = f[0], base_len
            else:
                return None
            st["pc_aux"].append(self.len_of(r) == end - start)
            self.emit(st, Event("slice", kind, [args[0], start, end, base_len], list(st["pc"] + st["pc_aux"])))
            return r
        # for i in a..b  : one ARBITRARY iteration (start <= i < end) or exhaustion
        if raw.endswith("Range<usize> as Iterator>::next") and isinstance(args[0], Tup):
            o = c.fresh(U, "rnext")
            p = c.uf("proj_Some_0", [U], z3.BitVecSort(64))(o)
            start, end = args[0].fields[0], args[0].fields[1]
            st["pc_aux"].append(z3.Or(c.disc(o) == 0, z3.And(c.disc(o) == 1, z3.UGE(p, start), z3.ULT(p, end))))
            return o
        # (a..b).step_by(k): one ARBITRARY element  a <= e < b, (e - a) % k == 0
        if raw.endswith("Range<usize> as Iterator>::step_by") and isinstance(args[0], Tup):
            return Tup([args[0].fields[0], args[0].fields[1], args[1]])
        if raw.endswith("StepBy<std::ops::Range<usize>> as Iterator>::next") and isinstance(args[0], Tup) and len(args[0].fields) == 3:
            o = c.fresh(U, "sbnext")
            e_ = c.uf("proj_Some_0", [U], z3.BitVecSort(64))(o)
            a_, b_, k_ = args[0].fields
            st["pc_aux"].append(z3.Or(c.disc(o) == 0, z3.And(c.disc(o) == 1, z3.UGE(e_, a_), z3.ULT(e_, b_), k_ != 0, z3.URem(e_ - a_, k_) == 0)))
            return o
        if name.endswith("::windows") and len(args) == 2:
            r = c.fresh(U, "windows")
            c.tups[str(r)] = Tup([args[1]])
            return r
        if raw.endswith(" as Iterator>::next") and "Windows<" in raw:
            o = c.fresh(U, "wnext")
            p = c.uf("proj_Some_0", [U], U)(o)
            t = c.tups.get(str(args[0]))
            st["pc_aux"].append(z3.Or(c.disc(o) == 0, c.disc(o) == 1))
            if t is not None:
                st["pc_aux"].append(self.len_of(p) == t.fields[0])
            return o
        # <[u8; N] as TryFrom<&[u8]>>::try_from / TryInto::try_into: Ok iff len == N
        m = re.search(r"Result::<\[u8; (\d+)\], (?:std::array::)?TryFromSliceError>::unwrap$", raw)
        if m:
            self.emit(st, Event("unwrap_array", m.group(1), [args[0]], list(st["pc"] + st["pc_aux"])))
            return c.fresh(ret_sort, "arr")
        m = re.search(r"as TryInto<\[u8; (\d+)\]>>::try_into$|as TryFrom<&\[u8\]>>::try_from$", raw)
        if m:
            n = m.group(1)
            r = c.fresh(U, "tryinto")
            if n:
                st["pc_aux"].append((c.disc(r) == 0) == (self.len_of(args[0]) == z3.BitVecVal(int(n), 64)))
                st["pc_aux"].append(z3.Or(c.disc(r) == 0, c.disc(r) == 1))
            return r
        return None

    def atomic_op(self, st, op, args, ret_sort):
        c = self.ctx
        loc = args[0]
        if self.atomic is None:
            v = c.fresh(ret_sort if op not in ("store",) else U, "atomic_" + op)
            return v
        am = self.atomic
        w = am.width
        cur = st.get("acur")
        if cur is None:
            cur = c.fresh(z3.BitVecSort(w), "mem0")
            st["ainit"] = cur
        # environment step (any number of other threads' operations collapse into one rely-step:
        # the rely predicates used are reflexive and transitive)
        env = c.fresh(z3.BitVecSort(w), "env")
        st["pc"].append(am.rely(cur, env))
        cur = env
        before = cur
        ret = None
        wrote = None
        if op == "load":
            ret = cur
        elif op == "store":
            wrote = args[1]
            cur = args[1]
            ret = c.named("unit")
        elif op in ("fetch_add", "fetch_sub", "fetch_or", "fetch_and"):
            x = args[1]
            new = {"fetch_add": cur + x, "fetch_sub": cur - x, "fetch_or": cur | x, "fetch_and": cur & x}[op]
            ret, wrote, cur = cur, new, new
        elif op in ("compare_exchange_weak", "compare_exchange"):
            expected, new = args[1], args[2]
            ok = cur == expected
            if op == "compare_exchange_weak" and am.spurious:
                sp = c.fresh(z3.BoolSort(), "spurious")
                ok = z3.And(ok, z3.Not(sp))
            r = c.fresh(U, "cas")
            st["pc_aux"].append(c.disc(r) == z3.If(ok, z3.BitVecVal(0, 64), z3.BitVecVal(1, 64)))
            fo = c.uf("proj_Ok_0", [U], z3.BitVecSort(w))
            fe = c.uf("proj_Err_0", [U], z3.BitVecSort(w))
            st["pc_aux"].append(fo(r) == cur)
            st["pc_aux"].append(fe(r) == cur)
            after = z3.If(ok, new, cur)
            st["cas"] = st.get("cas", []) + [(ok, before, new)]
            wrote = ("cas", ok, new)
            cur = after
            ret = r
        else:
            raise MirError("atomic op not modelled: " + op)
        st["acur"] = cur
        st["awrites"] = st.get("awrites", []) + [(op, before, wrote, list(st["pc"] + st["pc_aux"]))]
        return ret

    # ---- driver
    def run(self, init=None, start="bb0", stop=()):
        """start/stop: analyse ONE arbitrary iteration of a loop – begin at its header with every local
        havocked (fresh symbols on first read) and finish a path with status 'backedge' when it returns there."""
        self._cf_links = []
        self._okor_links = []
        self.stop = set(stop)
        self.start_bb = start
        st = {"env": {}, "pc": [], "pc_aux": [], "events": [], "visits": {}}
        if init:
            init(self, st)
        self.results = []
        self._walk(start, st)
        return self.results

    def _fork(self, st):
        n = dict(st)
        n["env"] = dict(st["env"])
        n["pc"] = list(st["pc"])
        n["pc_aux"] = list(st["pc_aux"])
        n["events"] = list(st["events"])
        n["visits"] = dict(st["visits"])
        for k in ("awrites", "cas"):
            if k in st:
                n[k] = list(st[k])
        return n

    def _finish(self, st, status):
        extra = {k: st.get(k) for k in ("awrites", "cas", "acur", "ainit")}
        self.results.append(PathResult(st["events"], st["pc"] + st["pc_aux"] + self.link_axioms(), st["env"].get("_0"), status, st["env"], extra))
        if len(self.results) > self.max_paths:
            raise MirError("path budget exceeded")

    def link_axioms(self):
        """payload transfer for Try::branch / ok_or (asserted once per path: cheap, quantifier-free)"""
        ax = []
        c = self.ctx
        for r, src, is_result in self._cf_links:
            for srt in (z3.BitVecSort(64), z3.BitVecSort(32), U, z3.BoolSort()):
                fs = c.uf("proj_%s_0" % ("Ok" if is_result else "Some"), [U], srt)
                fc = c.uf("proj_Continue_0", [U], srt)
                ax.append(fc(r) == fs(src))
        for r, src in self._okor_links:
            for srt in (z3.BitVecSort(64), z3.BitVecSort(32), U):
                fs = c.uf("proj_Some_0", [U], srt)
                fo = c.uf("proj_Ok_0", [U], srt)
                ax.append(fo(r) == fs(src))
        return ax

    def _walk(self, bb, st):
        while True:
            st["visits"][bb] = st["visits"].get(bb, 0) + 1
            if bb in getattr(self, "stop", ()) and (st["visits"][bb] > 1 or bb != getattr(self, "start_bb", None)):
                self._finish(st, "backedge")
                return
            if st["visits"][bb] > self.loop_bound + 1:
                self._finish(st, "truncated")
                return
            stmts = self.fn.blocks[bb]
            for s in stmts[:-1]:
                self.exec_stmt(st, s)
            term = stmts[-1]
            nxt = self.exec_term(st, term)
            if nxt is None:
                return
            if isinstance(nxt, str):
                bb = nxt
                continue
            # symbolic branch: list of (cond, target)
            live = []
            for cond, tgt in nxt:
                if self.sat(st["pc"] + st["pc_aux"] + self.link_axioms() + [cond]):
                    live.append((cond, tgt))
            if not live:
                self._finish(st, "infeasible")
                return
            for cond, tgt in live[:-1]:
                n = self._fork(st)
                n["pc"].append(cond)
                self._walk(tgt, n)
            cond, tgt = live[-1]
            st["pc"].append(cond)
            bb = tgt

    def exec_stmt(self, st, s):
        if s.startswith(("StorageLive", "StorageDead", "nop", "FakeRead", "PlaceMention", "Retag", "AscribeUserType", "Coverage", "ConstEvalCounter", "//")):
            return
        if s.startswith("Deinit") or s.startswith("set_discriminant") or s.startswith("assume("):
            return
        s = s.replace("= no_retag ", "= ")
        m = re.match(r"(.+?) = (.*);$", s)
        if not m:
            self.unknown_stmts.append(s[:120])
            return
        self.exec_assign(st, m.group(1), m.group(2))

    def exec_term(self, st, t):
        if t.startswith("goto -> "):
            return t[8:].rstrip(";")
        if t.startswith("return"):
            self._finish(st, "return")
            return None
        if t.startswith("unreachable"):
            self._finish(st, "unreachable")
            return None
        if t.startswith("resume") or t.startswith("abort") or t.startswith("terminate"):
            self._finish(st, "unwind")
            return None
        m = re.match(r"switchInt\((.*)\) -> \[(.*)\];$", t)
        if m:
            v = self.eval_operand(st, m.group(1))
            arms = []
            other = None
            for a in m.group(2).split(","):
                k, tgt = [x.strip() for x in a.split(":")]
                if k == "otherwise":
                    other = tgt
                else:
                    arms.append((int(k.split("_")[0]), tgt))
            if z3.is_bool(v):
                v = z3.simplify(v)
                if z3.is_true(v) or z3.is_false(v):
                    val = 1 if z3.is_true(v) else 0
                    for k, tgt in arms:
                        if k == val:
                            return tgt
                    return other
                out = []
                used = []
                for k, tgt in arms:
                    cnd = v if k != 0 else z3.Not(v)
                    out.append((cnd, tgt))
                    used.append(cnd)
                if other is not None:
                    out.append((z3.Not(z3.Or(*used)) if used else z3.BoolVal(True), other))
                return out
            v = z3.simplify(v)
            if z3.is_bv_value(v):
                val = v.as_long()
                for k, tgt in arms:
                    if k == val:
                        return tgt
                return other
            out, used = [], []
            for k, tgt in arms:
                cnd = v == z3.BitVecVal(k, v.size())
                out.append((cnd, tgt))
                used.append(cnd)
            if other is not None:
                out.append((z3.Not(z3.Or(*used)) if used else z3.BoolVal(True), other))
            return out
        m = re.match(r"drop\((.*)\) -> \[return: (bb\d+),.*\];$", t)
        if m:
            pl = m.group(1)
            base, _ = self.parse_place(pl)
            ty = self.fn.locals.get(base, "")
            self.emit(st, Event("drop", ty, [self.read_local(st, base)], list(st["pc"] + st["pc_aux"]), loc=base))
            return m.group(2)
        m = re.match(r"assert\((!?)(.*?), \".*\) -> \[success: (bb\d+),.*\];$", t)
        if m:
            cond = self.eval_operand(st, m.group(2))
            if m.group(1):
                cond = z3.Not(cond)
            self.emit(st, Event("assert", t[:60], [cond], list(st["pc"] + st["pc_aux"])))
            st["pc"].append(cond)   # continue on the success edge; the panic edge is an obligation of its own
            return m.group(3)
        m = re.match(r"(.*\)) -> (\[return: (bb\d+),.*\]|unwind.*|\[unwind.*);$", t)
        if m:
            call = m.group(1)
            # the argument list is the last balanced (...) group
            depth, k = 0, len(call) - 1
            while k >= 0:
                if call[k] == ")":
                    depth += 1
                elif call[k] == "(":
                    depth -= 1
                    if depth == 0:
                        break
                k -= 1
            head, argstr = call[:k], call[k + 1:-1]
            dm = re.match(r"((?:_\d+|\(.*?\))) = (.*)$", head)
            dst, callee = (dm.group(1), dm.group(2)) if dm else ("_discard", head)
            self.exec_call(st, dst, callee.strip(), argstr)
            if m.group(3):
                return m.group(3)
            self._finish(st, "diverge")
            return None
        raise MirError("unknown terminator: " + t[:120])


def balanced(s):
    d = 0
    for ch in s:
        if ch in "(":
            d += 1
        elif ch == ")":
            d -= 1
            if d < 0:
                return False
    return d == 0


def find_field_split(inner):
    """`base.IDX: Type` with base possibly parenthesised -> (base, idx, type)"""
    depth = 0
    for i in range(len(inner)):
        ch = inner[i]
        if ch in "([<":
            depth += 1
        elif ch in ")]":
            depth -= 1
        elif ch == ">" and i > 0 and inner[i - 1] not in "-=":
            depth -= 1
        elif ch == "." and depth == 0:
            m = re.match(r"(\d+): (.*)$", inner[i + 1:])
            if m:
                return inner[:i], int(m.group(1)), m.group(2)
    return None


def dst_shape(projs):
    return ".".join(str(p[1]) if p[0] == "field" else p[0] for p in projs)


def norm_callee(c):
    c = re.sub(r"<impl at [^>]*>", "<impl>", c)
    # strip generic arguments ::<...>
    out, depth, i = "", 0, 0
    while i < len(c):
        if c.startswith("::<", i) and not c.startswith("::<impl", i):
            depth = 1
            i += 3
            while i < len(c) and depth:
                if c[i] == "<":
                    depth += 1
                elif c[i] == ">" and c[i - 1] not in "-=":
                    depth -= 1
                i += 1
            continue
        out += c[i]
        i += 1
    return out.strip()
