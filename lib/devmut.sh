#!/bin/bash
# dev helper: devmut.sh <file-in-repo> <sed-expr> <obligation-fn>... : mutate /repo, run E2 obligations on a fresh MIR dump, revert
f=$1; expr=$2; shift 2
cd /repo && sed -i -E "$expr" "$f" && git diff --stat | tail -1
if git diff --quiet; then echo "NO CHANGE"; exit 3; fi
cd /verif
python3-vt - "$@" <<'P'
import sys, os, json
sys.path.insert(0, '/verif/lib')
import common, mir, obligations, smtrun
scr = "/var/tmp/fx/smtmut"
os.makedirs(scr, exist_ok=True)
p, note, src = smtrun.dump_mir(scr)
if p is None:
    print("MIR dump failed", note); sys.exit(0)
fns = mir.load(p)
for name in sys.argv[1:]:
    try:
        r = getattr(obligations, name)(fns)
    except mir.MirError as e:
        print(name, "MirError", e); continue
    for o in (r if isinstance(r, list) else [r]):
        print(o["id"], o["status"], [x["what"][:110] for x in o.get("failed", [])][:3], o.get("detail", ""))
P
git -C /repo checkout -- .
