#!/usr/bin/env python3
"""dev helper: devsmt.py [--fresh] <obligation-function> [args...] – run one E2 obligation on a cached MIR dump of /repo"""
import os, sys, json, time
sys.path.insert(0, os.path.dirname(os.path.abspath(__file__)))
import common, mir, obligations, smtrun
scr = os.environ.get("DEVSMT_SCR", "/var/tmp/fx/smt")
args = sys.argv[1:]
fresh = False
if args and args[0] == "--fresh":
    fresh = True; args = args[1:]
out = os.path.join(scr, "feoxdb.mir")
if fresh or not os.path.exists(out):
    os.makedirs(scr, exist_ok=True)
    p, note, src = smtrun.dump_mir(scr)
    print(note)
fns = mir.load(out)
t0 = time.time()
fn = getattr(obligations, args[0])
r = fn(fns, *[a for a in args[1:]])
if isinstance(r, dict):
    r = [r]
for o in r:
    print(json.dumps({k: v for k, v in o.items() if k not in ("doc",)}, indent=1)[:3000])
print("%.1fs" % (time.time() - t0))
