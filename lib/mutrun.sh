#!/bin/bash
# mutrun.sh <worktree-with-change> <label> <prop> [tier]: run a check against a scratch worktree (not /repo); evidence/replays go to /var/tmp/fx/mut
wt=$1; label=$2; prop=$3; tier=${4:-quick}
out=/var/tmp/fx/mut/$label; mkdir -p $out/ev $out/rp /verif/logs
cd /verif
VERIF_REPO=$wt VERIF_EVIDENCE_DIR=$out/ev VERIF_REPLAY_DIR=$out/rp VERIF_SCRATCH=/var/tmp/feox-verif-mut ./check $prop $tier > $out/$prop.$tier.out 2>&1; rc=$?
echo "MUT $label vs $prop ($tier): rc=$rc $(grep -c '^VIOLATION' $out/$prop.$tier.out) violation line(s)" | tee -a logs/muttest.log
grep -E "^VIOLATION|INCONCLUSIVE|^  in " $out/$prop.$tier.out | cut -c1-400 | head -6
