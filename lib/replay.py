"""Turn a Kani counterexample into a concrete unit test, run it natively against the real code
(dev and release profiles), and only then call it a violation."""
import json
import os
import re
import shutil
import subprocess

import common
import kanirun
from common import log


def _playback(src, tdir_unused, test_name, release):
    cmd = ["cargo", "kani", "playback", "-Z", "concrete-playback", "--no-default-features",
           "--features", "system-alloc"]
    cmd += ["--", test_name]
    env = dict(os.environ)
    env["CARGO_NET_OFFLINE"] = "true"
    if release:
        # `cargo kani playback` has no --release; give the test profile the release profile's semantics
        for prof in ("TEST", "DEV"):
            env["CARGO_PROFILE_%s_OPT_LEVEL" % prof] = "3"
            env["CARGO_PROFILE_%s_DEBUG_ASSERTIONS" % prof] = "false"
            env["CARGO_PROFILE_%s_OVERFLOW_CHECKS" % prof] = "false"
    env["CARGO_TARGET_DIR"] = os.path.join(os.path.dirname(src), "tp")
    try:
        p = subprocess.run(cmd, cwd=src, env=env, stdout=subprocess.PIPE, stderr=subprocess.STDOUT, text=True,
                           timeout=1500)
    except subprocess.TimeoutExpired:
        return None, "playback timeout"
    out = p.stdout
    m = re.search(r"test result: (\w+)\. (\d+) passed; (\d+) failed", out)
    if not m:
        return None, out[-3000:]
    passed, failed = int(m.group(2)), int(m.group(3))
    if passed + failed == 0:
        return None, out[-3000:]
    return failed > 0, out[-3000:]


def _install_test(src, hfile_rel, test_code):
    """Point the injected `mod verif_kani` of hfile_rel at a scratch copy of the harness module with the
    generated test appended (never edits /verif/kani)."""
    modfile = kanirun.MODULES[hfile_rel]
    orig = os.path.join(kanirun.KANI_DIR, modfile)
    rdir = os.path.join(os.path.dirname(src), "replay_kani")
    shutil.rmtree(rdir, ignore_errors=True)
    shutil.copytree(kanirun.KANI_DIR, rdir)   # sibling files (lock_stubs.rs, ...) are referenced by relative #[path]
    copy = os.path.join(rdir, modfile)
    with open(copy, "w") as f:
        f.write(open(orig).read())
        f.write("\n" + test_code + "\n")
    p = os.path.join(src, hfile_rel)
    text = open(p).read()
    text = text.replace('#[path = "%s"] pub(crate) mod verif_kani;' % orig,
                        '#[path = "%s"] pub(crate) mod verif_kani;' % copy)
    with open(p, "w") as f:
        f.write(text)


def native_replay(src, hfile_rel, test_code):
    names = re.findall(r"fn\s+(kani_concrete_playback_\w+)", test_code)
    if not names:
        return None, "no playback test in Kani output"
    # common prefix filter runs every generated test of this harness; any failing one reproduces
    name = os.path.commonprefix(names).rstrip("0123456789") if len(names) > 1 else names[0]
    _install_test(src, hfile_rel, test_code)
    res = {}
    for release in (False, True):
        r, out = _playback(src, None, name, release)
        res["release" if release else "dev"] = r
        if r is None:
            return None, "playback did not run (%s): %s" % ("release" if release else "dev", out[-1200:])
    # a counterexample that fails in either profile is real behaviour of the code users run
    return (res["dev"] or res["release"]), json.dumps(res)


def concretise_and_replay(pid, h, fqn, src, tdir, o):
    test_code, raw = kanirun.playback_print(src, tdir, fqn, timeout_s=h.get("timeout", 600) * 2)
    os.makedirs(common.REPLAY_DIR, exist_ok=True)
    path = os.path.join(common.REPLAY_DIR, "%s-%s.rs" % (pid, h["name"]))
    meta = {"property": pid, "harness": h["name"], "file": h["file"], "fqn": fqn,
            "failed_checks": o.get("failed", [])}
    if not test_code:
        with open(path, "w") as f:
            f.write("// VERIF-REPLAY " + json.dumps(meta) + "\n// Kani produced no concrete playback test\n")
        return {"status": "inconclusive", "replay": path,
                "detail": "counterexample could not be concretised (no playback test printed)"}
    with open(path, "w") as f:
        f.write("// VERIF-REPLAY " + json.dumps(meta) + "\n")
        f.write("// Re-run with: ./check replay %s\n" % path)
        f.write("// (appends this test to a scratch copy of kani/%s injected into a copy of /repo and runs\n" % kanirun.MODULES[h["file"]])
        f.write("//  `cargo kani playback` in dev and release profiles; Kani stubs are NOT applied natively.)\n")
        f.write(test_code)
    if h.get("native_replay", True) is False:
        return {"status": "inconclusive", "replay": path,
                "detail": "counterexample found, but this harness depends on Kani stubs and cannot be replayed natively: "
                          + "; ".join(f["d"] for f in o.get("failed", [])[:3])}
    ok, detail = native_replay(src, h["file"], test_code)
    if ok is True:
        return {"status": "violated", "replay": path, "detail": "reproduced natively " + detail,
                "finding_key": h.get("finding_key", h["name"])}
    if ok is False:
        return {"status": "inconclusive", "replay": path,
                "detail": "counterexample does NOT reproduce natively (encoding/stub artefact?) " + detail}
    return {"status": "inconclusive", "replay": path, "detail": "native replay failed to run: " + detail}


def replay_file(path):
    head = open(path).readline()
    m = re.match(r"// VERIF-REPLAY (.*)", head)
    if not m:
        log("not a replay file")
        return 2
    meta = json.loads(m.group(1))
    if meta.get("kind") == "witness":
        import witness
        return witness.replay(meta)
    code = "".join(open(path).readlines()[1:])
    scratch = common.new_scratch("replay")
    src = os.path.join(scratch, "src")
    common.copy_repo(src)
    kanirun.instrument(src)
    ok, detail = native_replay(src, meta["file"], code)
    log("replay %s: %s %s" % (meta["harness"], {True: "REPRODUCED", False: "passes (not reproduced)", None: "could not run"}[ok], detail))
    if ok is True:
        log("VIOLATION property=%s replay=%s" % (meta["property"], path))
        return 1
    return 0 if ok is False else 2
