use super::*;

fn mk(n: usize) -> (FreeSpaceManager, [(u64,u64);3]) {
    let mut m = FreeSpaceManager::new();
    let dev_blocks: u64 = kani::any();
    kani::assume(dev_blocks > 16 && dev_blocks <= 64);
    m.device_size = dev_blocks * FEOX_BLOCK_SIZE as u64;
    let mut runs = [(0u64,0u64);3];
    let mut prev_end = 15u64; // first run may start at 16 (prev_end+1)
    let mut i = 0;
    while i < n {
        let s: u64 = kani::any();
        let z: u64 = kani::any();
        kani::assume(s <= 64 && z <= 64 && s > prev_end && z >= 1 && s + z <= dev_blocks);
        runs[i] = (s,z);
        m.by_start.insert(s, FreeSpace{start:s,size:z});
        m.by_size.insert((z,s), FreeSpace{start:s,size:z});
        m.total_free += z * FEOX_BLOCK_SIZE as u64;
        prev_end = s + z;
        i += 1;
    }
    (m, runs)
}

fn noop_frag(_m: &mut FreeSpaceManager) {}

#[kani::proof]
#[kani::unwind(5)]
#[kani::stub(FreeSpaceManager::update_fragmentation, noop_frag)]
fn alloc_step_2runs() {
    let (mut m, runs) = mk(2);
    let before = m.total_free;
    let need: u64 = kani::any();
    kani::assume(need <= 64);
    let r = m.allocate_sectors(need);
    match r {
        Ok(start) => {
            assert!(need >= 1);
            // inside exactly one former run
            let in0 = start >= runs[0].0 && start + need <= runs[0].0 + runs[0].1;
            let in1 = start >= runs[1].0 && start + need <= runs[1].0 + runs[1].1;
            assert!(in0 || in1);
            assert!(m.total_free == before - need * FEOX_BLOCK_SIZE as u64);
        }
        Err(_) => {
            assert!(need == 0 || (need > runs[0].1 && need > runs[1].1));
            assert!(m.total_free == before);
        }
    }
    std::mem::forget(m);
}

/// concrete-shape manager: device of `blocks` blocks, everything allocated (no free runs)
pub(crate) fn mk_full(blocks: u64) -> FreeSpaceManager {
    let mut m = FreeSpaceManager::new();
    m.device_size = blocks * FEOX_BLOCK_SIZE as u64;
    m
}
pub(crate) fn is_free(m: &FreeSpaceManager, sector: u64) -> bool {
    let mut hit = false;
    for (_, sp) in m.by_start.iter() { if sector >= sp.start && sector < sp.start + sp.size { hit = true; } }
    hit
}
