use super::*;
use crate::storage::seq_token::verif_kani::sw;
#[kani::proof]
#[kani::stub(crate::storage::seq_token::select_crc32c, sw)]
#[kani::unwind(140)]
fn metadata_from_bytes_total() {
    let bytes: [u8; 136] = kani::any();
    if let Some(m) = Metadata::from_bytes(&bytes) {
        assert!(m.version >= 1 && m.version <= 3);
        assert!(m.device_size != 0 && m.device_size <= MAX_DEVICE_SIZE);
        let e = m.encode();
        assert!(e == bytes);
    }
}
