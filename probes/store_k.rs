use super::*;
fn stub_rs() -> ahash::RandomState { ahash::RandomState::with_seeds(1, 2, 3, 4) }
#[kani::proof]
#[kani::unwind(8)]
#[kani::stub(ahash::RandomState::new, stub_rs)]
fn store_two_inserts_lww() {
    let cfg = StoreConfig { hash_bits: 1, memory_only: true, enable_caching: false, device_path: None, file_size: None, max_memory: None, enable_ttl: false, ttl_config: None };
    let store = FeoxStore::with_config(cfg).unwrap();
    let t1: u64 = kani::any(); let t2: u64 = kani::any();
    kani::assume(t1 != 0 && t2 != 0);
    let r1 = store.insert_with_timestamp(b"k", b"a", Some(t1));
    assert!(r1.is_ok());
    let r2 = store.insert_with_timestamp(b"k", b"b", Some(t2));
    assert!(r2.is_ok() == (t2 > t1));
    std::mem::forget(store);
}
