use super::*;
pub(crate) fn sw() -> fn(u32, &[u8]) -> u32 { crc32c_sw }
