use super::*;
fn stub_crc(seed: u32, data: &[u8]) -> u32 { let _ = (seed, data); kani::any() }

#[kani::proof]
#[kani::unwind(5)]
#[kani::stub(crate::storage::seq_token::crc32c, stub_crc)]
fn decode_slot_no_panic_and_valid() {
    let mut slot = vec![0u8; JOURNAL_SLOT_SIZE];
    let head: [u8; 64] = kani::any();
    slot[..64].copy_from_slice(&head);
    let total: u64 = kani::any();
    kani::assume(total >= 17 && total <= (1u64 << 28));
    let count = u32::from_le_bytes([head[28], head[29], head[30], head[31]]);
    kani::assume(count <= 3);
    if let Ok(st) = decode_slot(&slot, total, 1) {
        assert!(st.generation != 0);
        assert!(st.extents.len() == count as usize);
        let mut i = 0;
        while i < st.extents.len() {
            let (s, n) = st.extents[i];
            assert!(s >= 16 && n >= 1 && s + n as u64 <= total);
            i += 1;
        }
        std::mem::forget(st);
    }
}
