use super::*;
use std::os::unix::io::FromRawFd;

#[derive(Clone, Copy)]
pub struct Ev { pub kind: u8, pub sector: u64, pub blocks: u64, pub jstate: u32, pub jgen: u64 }
pub static mut LOG: [Ev; 16] = [Ev { kind: 0, sector: 0, blocks: 0, jstate: 0, jgen: 0 }; 16];
pub static mut LOG_LEN: usize = 0;
pub static mut CALLS: u8 = 0;
pub static mut FAIL_AT: u8 = 255;

fn push(ev: Ev) { unsafe { assert!(LOG_LEN < 16); LOG[LOG_LEN] = ev; LOG_LEN += 1; } }
fn should_fail() -> bool { unsafe { let c = CALLS; CALLS += 1; c == FAIL_AT } }

fn stub_write(this: &DiskIO, sector: u64, data: &[u8]) -> Result<()> {
    this.ensure_writable()?;
    if should_fail() { return Err(FeoxError::InvalidDevice); }
    let (jstate, jgen) = if sector >= 1 && sector < 7 {
        (u32::from_le_bytes([data[24],data[25],data[26],data[27]]), u64::from_le_bytes(data[16..24].try_into().unwrap()))
    } else { (0, 0) };
    push(Ev { kind: 1, sector, blocks: (data.len() / FEOX_BLOCK_SIZE) as u64, jstate, jgen });
    Ok(())
}
fn stub_flush(this: &DiskIO) -> Result<()> {
    this.ensure_writable()?;
    if should_fail() { return Err(FeoxError::InvalidDevice); }
    push(Ev { kind: 2, sector: 0, blocks: 0, jstate: 0, jgen: 0 });
    Ok(())
}
fn stub_crc(seed: u32, data: &[u8]) -> u32 { seed.rotate_left(5) ^ (data.len() as u32) }
fn stub_mark(_: FileIdentity, _: &Arc<File>) {}
fn stub_display(_: &FeoxError, _: &mut std::fmt::Formatter<'_>) -> std::fmt::Result { Ok(()) }
fn stub_other<E: Into<Box<dyn std::error::Error + Send + Sync>>>(e: E) -> std::io::Error { std::mem::forget(e); std::io::Error::from_raw_os_error(5) }
fn stub_ensure(this: &DiskIO) -> Result<()> {
    if this.write_indeterminate.load(Ordering::Acquire) { return Err(FeoxError::IndeterminateWrite(std::io::Error::from_raw_os_error(5))); }
    Ok(())
}
fn stub_poison(this: &DiskIO, error: FeoxError) -> FeoxError {
    this.write_indeterminate.store(true, Ordering::Release);
    std::mem::forget(error);
    FeoxError::IndeterminateWrite(std::io::Error::from_raw_os_error(5))
}
fn stub_crc_impl() -> fn(u32, &[u8]) -> u32 { stub_crc }
fn stub_fmt(_: std::fmt::Arguments<'_>) -> String { String::new() }

pub fn mk_disk() -> DiskIO {
    DiskIO {
        ring: None,
        next_user_data: 0,
        write_indeterminate: AtomicBool::new(false),
        journal_generation: AtomicU64::new(7),
        journal_slot: AtomicUsize::new(1),
        file_identity: FileIdentity { device: 0, inode: 0 },
        _file: Arc::new(unsafe { File::from_raw_fd(100) }),
        fd: 100,
        _use_direct_io: false,
    }
}

#[kani::proof]
#[kani::unwind(2)]
#[kani::stub(DiskIO::write_sectors_sync, stub_write)]
#[kani::stub(DiskIO::flush, stub_flush)]
#[kani::stub(crate::storage::seq_token::crc32c, stub_crc)]
#[kani::stub(std::fmt::format, stub_fmt)]
#[kani::stub(mark_file_indeterminate, stub_mark)]
#[kani::stub(crate::storage::seq_token::crc32c_impl, stub_crc_impl)]
#[kani::stub(DiskIO::ensure_writable, stub_ensure)]
#[kani::stub(DiskIO::poison_writes, stub_poison)]
#[kani::stub(<FeoxError as std::fmt::Display>::fmt, stub_display)]
fn retire_one_extent_order() {
    let disk = mk_disk();
    let s: u64 = kani::any();
    let n: usize = 1;
    kani::assume(s >= 16 && s < 1000);
    unsafe { FAIL_AT = 255; }
    let r = disk.retire_extents(&[(s, n)]);
    let len = unsafe { LOG_LEN };
    if r.is_ok() {
        assert!(len == 6);
        unsafe {
            assert!(LOG[0].kind == 1 && LOG[0].sector >= 1 && LOG[0].sector < 7 && LOG[0].jstate == 1);
            assert!(LOG[1].kind == 2);
            assert!(LOG[2].kind == 1 && LOG[2].sector == s && LOG[2].blocks == n as u64);
            assert!(LOG[3].kind == 2);
            assert!(LOG[4].kind == 1 && LOG[4].sector >= 1 && LOG[4].sector < 7 && LOG[4].jstate == 0 && LOG[4].sector != LOG[0].sector);
            assert!(LOG[4].jgen == LOG[0].jgen + 1);
            assert!(LOG[5].kind == 2);
        }
    } else {
        assert!(disk.write_indeterminate.load(Ordering::Acquire));
    }
    std::mem::forget(disk);
    std::mem::forget(r);
}
