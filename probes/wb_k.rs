use super::*;
use crate::storage::io::verif_kani::mk_disk;
use crate::storage::free_space::verif_kani::{mk_full, is_free};

static mut RETIRE_CALLS: u8 = 0;
static mut RETIRE_SECTOR: u64 = 0;
static mut RETIRE_LEN: usize = 0;
static mut RETIRE_OK: bool = true;
fn stub_retire(_this: &DiskIO, extents: &[(u64, usize)]) -> Result<()> {
    unsafe {
        RETIRE_CALLS += 1;
        if extents.len() == 1 { RETIRE_SECTOR = extents[0].0; RETIRE_LEN = extents[0].1; }
        if RETIRE_OK { Ok(()) } else { Err(FeoxError::InvalidDevice) }
    }
}
fn noop_frag(_m: &mut FreeSpaceManager) {}
fn stub_eprint(_: std::fmt::Arguments<'_>) {}

#[kani::proof]
#[kani::unwind(6)]
#[kani::stub(DiskIO::retire_extents, stub_retire)]
#[kani::stub(FreeSpaceManager::update_fragmentation, noop_frag)]
#[kani::stub(std::io::_eprint, stub_eprint)]
#[kani::stub(parking_lot::raw_rwlock::RawRwLock::lock_exclusive_slow, s_lock_ex)]
#[kani::stub(parking_lot::raw_rwlock::RawRwLock::unlock_exclusive_slow, s_unlock_ex)]
#[kani::stub(parking_lot::raw_rwlock::RawRwLock::lock_shared_slow, s_lock_sh)]
#[kani::stub(parking_lot::raw_rwlock::RawRwLock::unlock_shared_slow, s_unlock_sh)]
fn deletions_release_only_after_durable_marker() {
    let disk_io = Arc::new(RwLock::new(mk_disk()));
    let free_space = Arc::new(RwLock::new(mk_full(64)));
    let stats = Arc::new(Statistics::new());
    let format = get_format_ref(3);
    let s: u64 = kani::any();
    kani::assume(s >= 16 && s < 60);
    let rec = Record::new(vec![b'k'], vec![1u8; 3], 10);
    rec.sector.store(s, Ordering::Release);
    rec.clear_value();
    let rec = Arc::new(rec);
    // optional successor, durable or not
    let has_succ: bool = kani::any();
    let succ_sector: u64 = if kani::any() { 0 } else { 61 };
    if has_succ {
        let succ = Arc::new(Record::new(vec![b'k'], vec![2u8; 3], 11));
        succ.sector.store(succ_sector, Ordering::Release);
        rec.link_successor(&succ);
        std::mem::forget(succ);
    }
    let reader = if kani::any() { rec.acquire_extent() } else { None };
    let has_reader = reader.is_some();
    unsafe { RETIRE_OK = kani::any(); }
    let entry = WriteEntry::new(Operation::Delete, Arc::clone(&rec));
    let mut retries = Vec::new();
    let mut released = 0u64;
    let r = process_deletions(&disk_io, &free_space, &stats, format, vec![entry], &mut retries, &mut released);
    let freed = is_free(&free_space.read(), s);
    let succ_durable = !has_succ || succ_sector != 0;
    if freed {
        assert!(unsafe { RETIRE_CALLS == 1 && RETIRE_OK && RETIRE_SECTOR == s && RETIRE_LEN == 1 });
        assert!(!has_reader && succ_durable);
        assert!(released == 1 && retries.is_empty());
    } else {
        assert!(retries.len() == 1); // nothing is forgotten
    }
    if !succ_durable { assert!(unsafe { RETIRE_CALLS == 0 }); }
    if has_reader { assert!(unsafe { RETIRE_CALLS == 0 }); }
    std::mem::forget(reader);
    std::mem::forget((r, retries, rec, disk_io, free_space, stats));
}

#[kani::proof]
fn bisect_rwlock() {
    let l = RwLock::new(5u32);
    { let mut g = l.write(); *g += 1; }
    assert!(*l.read() == 6);
}
#[kani::proof]
fn bisect_record() {
    let rec = Arc::new(Record::new(vec![b'k'], vec![1u8; 3], 10));
    let g = rec.acquire_extent();
    assert!(g.is_some());
    assert!(rec.extent_has_readers());
    std::mem::forget(g);
    std::mem::forget(rec);
}
#[kani::proof]
fn bisect_stats() {
    let stats = Arc::new(Statistics::new());
    stats.record_sector_release_failure();
    std::mem::forget(stats);
}
#[kani::proof]
#[kani::unwind(3)]
fn bisect_sort() {
    let e1 = WriteEntry::new(Operation::Delete, Arc::new(Record::new(vec![b'k'], vec![1u8; 3], 10)));
    let mut v = vec![e1];
    v.sort_unstable_by_key(|entry| entry.record.sector.load(Ordering::Acquire));
    std::mem::forget(v);
}

fn s_lock_ex(_t: &parking_lot::RawRwLock, _timeout: Option<std::time::Instant>) -> bool { kani::assume(false); true }
fn s_unlock_ex(_t: &parking_lot::RawRwLock, _f: bool) { kani::assume(false); }
fn s_lock_sh(_t: &parking_lot::RawRwLock, _r: bool, _timeout: Option<std::time::Instant>) -> bool { kani::assume(false); true }
fn s_unlock_sh(_t: &parking_lot::RawRwLock) { kani::assume(false); }
#[kani::proof]
#[kani::stub(parking_lot::raw_rwlock::RawRwLock::lock_exclusive_slow, s_lock_ex)]
#[kani::stub(parking_lot::raw_rwlock::RawRwLock::unlock_exclusive_slow, s_unlock_ex)]
#[kani::stub(parking_lot::raw_rwlock::RawRwLock::lock_shared_slow, s_lock_sh)]
#[kani::stub(parking_lot::raw_rwlock::RawRwLock::unlock_shared_slow, s_unlock_sh)]
fn bisect_rwlock_stubbed() {
    let l = RwLock::new(5u32);
    { let mut g = l.write(); *g += 1; }
    assert!(*l.read() == 6);
}
