//! Bounded sorted-array model of the std::collections::BTreeMap API subset used by
//! storage::free_space (new/insert/remove/contains_key/len/iter/range + next/next_back).
use std::ops::{Bound, RangeBounds};
pub const CAP: usize = 4;
pub struct BTreeMap<K, V> { items: [Option<(K, V)>; CAP], len: usize }
impl<K: Ord + Copy, V> BTreeMap<K, V> {
    pub fn new() -> Self { Self { items: [const { None }; CAP], len: 0 } }
    pub fn len(&self) -> usize { self.len }
    fn lower(&self, b: Bound<&K>) -> usize {
        let mut i = 0;
        while i < self.len {
            let k = &self.items[i].as_ref().unwrap().0;
            let stop = match b { Bound::Unbounded => true, Bound::Included(x) => k >= x, Bound::Excluded(x) => k > x };
            if stop { break; }
            i += 1;
        }
        i
    }
    fn upper(&self, b: Bound<&K>) -> usize {
        // first index NOT within the upper bound
        let mut i = 0;
        while i < self.len {
            let k = &self.items[i].as_ref().unwrap().0;
            let inside = match b { Bound::Unbounded => true, Bound::Included(x) => k <= x, Bound::Excluded(x) => k < x };
            if !inside { break; }
            i += 1;
        }
        i
    }
    pub fn contains_key(&self, k: &K) -> bool {
        let i = self.lower(Bound::Included(k));
        i < self.len && self.items[i].as_ref().unwrap().0 == *k
    }
    pub fn insert(&mut self, k: K, v: V) -> Option<V> {
        let i = self.lower(Bound::Included(&k));
        if i < self.len && self.items[i].as_ref().unwrap().0 == k {
            let old = self.items[i].take().unwrap();
            self.items[i] = Some((k, v));
            return Some(old.1);
        }
        assert!(self.len < CAP, "verif BTreeMap model capacity exceeded");
        let mut j = self.len;
        while j > i { self.items[j] = self.items[j - 1].take(); j -= 1; }
        self.items[i] = Some((k, v));
        self.len += 1;
        None
    }
    pub fn remove(&mut self, k: &K) -> Option<V> {
        let i = self.lower(Bound::Included(k));
        if !(i < self.len && self.items[i].as_ref().unwrap().0 == *k) { return None; }
        let old = self.items[i].take().unwrap();
        let mut j = i;
        while j + 1 < self.len { self.items[j] = self.items[j + 1].take(); j += 1; }
        self.len -= 1;
        Some(old.1)
    }
    pub fn range<R: RangeBounds<K>>(&self, r: R) -> Iter<'_, K, V> {
        let lo = self.lower(r.start_bound());
        let hi = self.upper(r.end_bound());
        Iter { m: self, lo, hi: if hi < lo { lo } else { hi } }
    }
    pub fn iter(&self) -> Iter<'_, K, V> { Iter { m: self, lo: 0, hi: self.len } }
}
pub struct Iter<'a, K, V> { m: &'a BTreeMap<K, V>, lo: usize, hi: usize }
impl<'a, K, V> Iterator for Iter<'a, K, V> {
    type Item = (&'a K, &'a V);
    fn next(&mut self) -> Option<Self::Item> {
        if self.lo >= self.hi { return None; }
        let e = self.m.items[self.lo].as_ref().unwrap();
        self.lo += 1;
        Some((&e.0, &e.1))
    }
}
impl<'a, K, V> DoubleEndedIterator for Iter<'a, K, V> {
    fn next_back(&mut self) -> Option<Self::Item> {
        if self.lo >= self.hi { return None; }
        self.hi -= 1;
        let e = self.m.items[self.hi].as_ref().unwrap();
        Some((&e.0, &e.1))
    }
}
