use super::*;
#[kani::proof]
#[kani::unwind(70)]
fn parse_v2_no_panic_64() {
    let data: [u8; 64] = kani::any();
    let len: usize = kani::any();
    kani::assume(len <= 64);
    let r = FormatV2.parse_record(&data[..len]);
    if let Some((key, value_len, ts, exp)) = r {
        assert!(len >= 6 + key.len() + 24);
        let kl = u16::from_le_bytes([data[4], data[5]]) as usize;
        assert!(key.len() == kl);
        let o = 6 + kl;
        assert!(value_len as u64 == u64::from_le_bytes(data[o..o+8].try_into().unwrap()));
        assert!(ts == u64::from_le_bytes(data[o+8..o+16].try_into().unwrap()));
        assert!(exp == u64::from_le_bytes(data[o+16..o+24].try_into().unwrap()));
        std::mem::forget(key);
    }
}
