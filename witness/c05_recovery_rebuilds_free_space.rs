// VERIF-MOUNT: src/core/store/mod.rs
//! Native witness for the free-space reconstruction obligations of the recovery scan (`last_end` / gap release):
//! after recovering a crash image the free pool must be exactly the complement of the live extents. Adapted from the
//! independently seeded demonstration seeded/r5-C05/demo.rs (newer generation at a LOWER sector than its un-retired
//! predecessor) and extended with the reverse order and an exact free-block count.
use std::fs;

use crate::FeoxStore;

const BLOCK: usize = 4096;
const DATA_START: usize = 16;
const DATA_BLOCKS: usize = 64;
const DEVICE_SIZE: u64 = ((DATA_START + DATA_BLOCKS) * BLOCK) as u64;

const VICTIM: &[u8] = b"victim";
const BYSTANDER: &[u8] = b"bystander";

/// marker(2) seq(2) key_len(2) key value_len(8) timestamp(8) ttl(8)
fn header_len(key: &[u8]) -> usize {
    4 + 2 + key.len() + 24
}

/// A value that makes the record of `key` occupy exactly `blocks` blocks.
fn value_for_blocks(key: &[u8], blocks: usize, seed: u8) -> Vec<u8> {
    let len = blocks * BLOCK - header_len(key) - 7;
    (0..len)
        .map(|i| seed.wrapping_add((i % 251) as u8) | 1)
        .collect()
}

fn open(path: &str) -> FeoxStore {
    FeoxStore::builder()
        .device_path(path.to_string())
        .file_size(DEVICE_SIZE)
        .enable_caching(false)
        .build()
        .unwrap()
}

/// Block index of the live head of `key` in a device image, if any.
fn find_head(image: &[u8], key: &[u8]) -> Option<usize> {
    (DATA_START..image.len() / BLOCK).find(|block| {
        let b = &image[block * BLOCK..(block + 1) * BLOCK];
        b[0] == 0xCD
            && b[1] == 0xAB
            && u16::from_le_bytes([b[4], b[5]]) as usize == key.len()
            && &b[6..6 + key.len()] == key
    })
}

fn free_blocks(store: &FeoxStore) -> u64 {
    store.free_space.read().get_total_free() / BLOCK as u64
}

#[test]
fn verif_witness_c05_recovery_rebuilds_free_space() {
    const OLD_BLOCKS: usize = 40;

    let dir = tempfile::tempdir().unwrap();
    let path = dir.path().join("device.feox");
    let path = path.to_str().unwrap().to_string();
    let crash_path = dir.path().join("crash.feox");
    let crash_path = crash_path.to_str().unwrap().to_string();

    let old_value = value_for_blocks(VICTIM, OLD_BLOCKS, 3);
    let new_value = b"victim-second-generation".to_vec();
    let bystander_value = value_for_blocks(BYSTANDER, 2, 91);

    // ---- build the two images the crash image is spliced from ----------------
    let before_update;
    {
        let store = open(&path);
        store.insert(b"hole", b"x").unwrap();
        store.flush().unwrap();
        store.insert(VICTIM, &old_value).unwrap();
        store.flush().unwrap();
        store.insert(BYSTANDER, &bystander_value).unwrap();
        store.flush().unwrap();
        store.delete(b"hole").unwrap();
        store.flush().unwrap();

        before_update = fs::read(&path).unwrap();

        // One block: best fit puts it into the hole in front of the old extent.
        store.insert(VICTIM, &new_value).unwrap();
        store.flush().unwrap();
    }
    let after_update = fs::read(&path).unwrap();

    let old_head = find_head(&before_update, VICTIM).expect("old generation on disk");
    let new_head = find_head(&after_update, VICTIM).expect("new generation on disk");
    assert!(
        new_head < old_head,
        "test premise: the replacement must land in front of the old extent \
         (new {new_head}, old {old_head})"
    );
    assert_eq!(
        &after_update[old_head * BLOCK..old_head * BLOCK + 8],
        b"\0DELETED",
        "test premise: the clean run retired the old extent"
    );

    // Crash image: replacement durable, old generation not retired yet.
    let mut crash = after_update.clone();
    let old_range = old_head * BLOCK..(old_head + OLD_BLOCKS) * BLOCK;
    crash[old_range.clone()].copy_from_slice(&before_update[old_range]);
    fs::write(&crash_path, &crash).unwrap();

    // ---- recover ------------------------------------------------------------
    let live_blocks = 1 + 2; // victim (new) + bystander
    {
        let store = open(&crash_path);
        assert_eq!(store.len(), 2);
        assert_eq!(
            free_blocks(&store),
            (DATA_BLOCKS - live_blocks) as u64,
            "after recovery every block that belongs to no live record is in the free pool (newer generation scanned BEFORE the stale one)"
        );
        assert_eq!(store.get(VICTIM).unwrap(), new_value);
        assert_eq!(store.get(BYSTANDER).unwrap(), bystander_value);

        // The superseded generation's blocks are free again: a record of the same
        // size fits (nothing else on the device has room for it) ...
        let refill = value_for_blocks(b"refill", OLD_BLOCKS, 17);
        store.insert(b"refill", &refill).unwrap();
        store.flush().expect(
            "the extent of the superseded generation was not returned to the free pool by recovery",
        );

        // ... and every remaining block of the data area is allocatable too.
        let rest = DATA_BLOCKS - live_blocks - OLD_BLOCKS;
        for i in 0..rest {
            let key = format!("fill{i:03}");
            store.insert(key.as_bytes(), key.as_bytes()).unwrap();
        }
        store
            .flush()
            .expect("data area is not exactly partitioned after recovery");

        assert_eq!(store.get(VICTIM).unwrap(), new_value);
        assert_eq!(store.get(BYSTANDER).unwrap(), bystander_value);
        assert_eq!(store.get(b"refill").unwrap(), refill);
    }

    // ---- everything survives another recovery; an emptied device is as good as new
    {
        let store = open(&crash_path);
        let rest = DATA_BLOCKS - live_blocks - OLD_BLOCKS;
        assert_eq!(store.len(), 3 + rest);
        assert_eq!(store.get(VICTIM).unwrap(), new_value);
        assert_eq!(store.get(BYSTANDER).unwrap(), bystander_value);
        assert_eq!(
            store.get(b"refill").unwrap(),
            value_for_blocks(b"refill", OLD_BLOCKS, 17)
        );

        store.delete(VICTIM).unwrap();
        store.delete(BYSTANDER).unwrap();
        store.delete(b"refill").unwrap();
        for i in 0..rest {
            store.delete(format!("fill{i:03}").as_bytes()).unwrap();
        }
        store.flush().unwrap();
        assert!(store.is_empty());

        let whole = value_for_blocks(b"whole", DATA_BLOCKS, 5);
        store.insert(b"whole", &whole).unwrap();
        store
            .flush()
            .expect("a device emptied by deletes must accept what a fresh one does");
        assert_eq!(store.get(b"whole").unwrap(), whole);
    }
}

#[test]
fn verif_witness_c05_recovery_rebuilds_free_space_old_first() {
    // the stale generation sits at a LOWER sector than the newer one (the usual order)
    const OLD_BLOCKS: usize = 5;
    let dir = tempfile::tempdir().unwrap();
    let path = dir.path().join("device.feox");
    let path = path.to_str().unwrap().to_string();
    let crash_path = dir.path().join("crash.feox");
    let crash_path = crash_path.to_str().unwrap().to_string();
    let old_value = value_for_blocks(VICTIM, OLD_BLOCKS, 3);
    let new_value = value_for_blocks(VICTIM, 7, 9);
    let bystander_value = value_for_blocks(BYSTANDER, 2, 91);
    let before_update;
    {
        let store = open(&path);
        store.insert(VICTIM, &old_value).unwrap();
        store.flush().unwrap();
        store.insert(BYSTANDER, &bystander_value).unwrap();
        store.flush().unwrap();
        before_update = fs::read(&path).unwrap();
        store.insert(VICTIM, &new_value).unwrap();
        store.flush().unwrap();
    }
    let after_update = fs::read(&path).unwrap();
    let old_head = find_head(&before_update, VICTIM).expect("old generation on disk");
    let new_head = find_head(&after_update, VICTIM).expect("new generation on disk");
    assert!(old_head < new_head, "test premise: the replacement lands behind the old extent");
    let mut crash = after_update.clone();
    let old_range = old_head * BLOCK..(old_head + OLD_BLOCKS) * BLOCK;
    crash[old_range.clone()].copy_from_slice(&before_update[old_range]);
    fs::write(&crash_path, &crash).unwrap();
    for round in 0..2 {
        let store = open(&crash_path);
        assert_eq!(store.len(), 2);
        assert_eq!(free_blocks(&store), (DATA_BLOCKS - 7 - 2) as u64, "free pool = complement of the live extents (round {round})");
        assert_eq!(store.get(VICTIM).unwrap(), new_value);
        assert_eq!(store.get(BYSTANDER).unwrap(), bystander_value);
    }
    let store = open(&crash_path);
    let refill = value_for_blocks(b"refill", DATA_BLOCKS - 7 - 2 - OLD_BLOCKS, 17);
    store.insert(b"refill", &refill).unwrap();
    store.flush().expect("space behind the last live extent is allocatable");
    let refill2 = value_for_blocks(b"refill2", OLD_BLOCKS, 19);
    store.insert(b"refill2", &refill2).unwrap();
    store.flush().expect("the superseded extent in front of the live ones is allocatable");
    assert_eq!(free_blocks(&store), 0);
    assert_eq!(store.get(BYSTANDER).unwrap(), bystander_value);
    assert_eq!(store.get(VICTIM).unwrap(), new_value);
}
