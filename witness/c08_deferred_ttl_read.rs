//! Native witness for "the pinned record is the record that is read": a reader of a deferred (TTL-only)
//! generation is parked right before its pread of the PREDECESSOR's extent; a flush that rewrites the
//! generation must not retire that extent (blocks byte-identical, flush not acknowledged) until the
//! reader leaves.
use crate::constants::FEOX_BLOCK_SIZE;
use crate::core::store::FeoxStore;
use crate::test_hooks::{gate, AFTER_SECTOR_LOAD};
use std::fs::OpenOptions;
use std::io::{Read, Seek, SeekFrom};
use std::sync::atomic::Ordering;
use std::sync::mpsc::{sync_channel, RecvTimeoutError};
use std::sync::Arc;
use std::thread;
use std::time::Duration;
use tempfile::NamedTempFile;

fn read_sectors(path: &str, sector: u64, sectors: u64) -> Vec<u8> {
    let mut file = OpenOptions::new().read(true).open(path).unwrap();
    let mut bytes = vec![0; sectors as usize * FEOX_BLOCK_SIZE];
    file.seek(SeekFrom::Start(sector * FEOX_BLOCK_SIZE as u64)).unwrap();
    file.read_exact(&mut bytes).unwrap();
    bytes
}

#[test]
fn verif_witness_c08_deferred_ttl_read() {
    let temp_file = NamedTempFile::new().unwrap();
    let path = temp_file.path().to_str().unwrap().to_string();
    let store = Arc::new(
        FeoxStore::builder().device_path(path.clone()).file_size(8 * 1024 * 1024).enable_caching(false).enable_ttl(true).build().unwrap(),
    );
    let value = vec![b'V'; 5000];
    store.insert(b"victim", &value).unwrap();
    store.flush().unwrap();
    let session = gate::session();
    for attempt in 0..50u64 {
        let on_disk = store.get_hash_table().read(b"victim".as_slice(), |_, r| Arc::clone(r)).unwrap();
        let sector = on_disk.sector.load(Ordering::Acquire);
        assert_ne!(sector, 0);
        let sectors = on_disk.calculate_disk_size().div_ceil(FEOX_BLOCK_SIZE) as u64;
        let before = read_sectors(&path, sector, sectors);
        let (start_tx, start_rx) = sync_channel(0);
        let rs = Arc::clone(&store);
        let reader = thread::spawn(move || {
            start_rx.recv().unwrap();
            rs.get(b"victim")
        });
        let armed = session.arm_for_thread(AFTER_SECTOR_LOAD, reader.thread().id(), 1);
        store.update_ttl(b"victim", 3600 + attempt).unwrap();
        start_tx.send(()).unwrap();
        assert!(armed.wait_for_arrivals(1, Duration::from_secs(10)));
        let deferred = store.get_hash_table().read(b"victim".as_slice(), |_, r| Arc::clone(r)).unwrap();
        if deferred.sector.load(Ordering::Acquire) != 0 {
            // the periodic flusher won the race; not the interleaving under test
            armed.release();
            assert_eq!(reader.join().unwrap().unwrap(), value);
            drop(armed);
            store.flush().unwrap();
            continue;
        }
        let fs = Arc::clone(&store);
        let (flush_tx, flush_rx) = sync_channel(1);
        let flush = thread::spawn(move || {
            flush_tx.send(fs.flush()).unwrap();
        });
        let early = flush_rx.recv_timeout(Duration::from_millis(500));
        let during = read_sectors(&path, sector, sectors);
        armed.release();
        let observed = reader.join().unwrap();
        if matches!(early, Err(RecvTimeoutError::Timeout)) {
            flush_rx.recv_timeout(Duration::from_secs(10)).unwrap().unwrap();
        }
        flush.join().unwrap();
        assert!(during == before, "extent at sector {sector} overwritten while a reader was still reading it");
        assert!(matches!(early, Err(RecvTimeoutError::Timeout)), "flush acknowledged a retirement while a reader held the extent");
        assert_eq!(observed.unwrap(), value);
        return;
    }
    panic!("could not set up the interleaving");
}
