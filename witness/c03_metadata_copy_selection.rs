//! Native witness for `site_read_metadata_selection`: of the two checksummed metadata copies (block 0 and block 7) the valid one
//! with the greater generation is believed; a damaged newer copy falls back to the older valid one. Observed through the
//! generation the store writes next: after reopen + flush the greatest generation on the device must exceed the greatest
//! valid generation that was there before (believing the OLDER of two valid copies would re-issue an existing generation).
use crate::storage::metadata::Metadata;
use crate::FeoxStore;

const BLOCK: usize = 4096;

fn open(path: &str) -> crate::Result<FeoxStore> {
    FeoxStore::builder().device_path(path.to_string()).file_size(4 << 20).enable_caching(false).build()
}

fn generations(path: &str) -> (Option<u64>, Option<u64>) {
    let image = std::fs::read(path).unwrap();
    let g = |block: usize| Metadata::from_bytes(&image[block * BLOCK..(block + 1) * BLOCK]).map(|m| m.generation());
    (g(0), g(7))
}

fn flip(path: &str, block: usize, offset: usize) {
    let mut image = std::fs::read(path).unwrap();
    image[block * BLOCK + offset] ^= 0x5A;
    std::fs::write(path, image).unwrap();
}

#[test]
fn verif_witness_c03_metadata_copy_selection() {
    for newer_in_backup in [false, true] {
        for damage in ["none", "newer", "older"] {
            let file = tempfile::NamedTempFile::new().unwrap();
            let path = file.path().to_str().unwrap().to_string();
            // drive the store until the NEWER valid copy sits where this case wants it
            let mut rounds = 0;
            loop {
                {
                    let store = open(&path).unwrap();
                    store.insert(format!("k{rounds}").as_bytes(), b"v").unwrap();
                    store.flush_all().unwrap();
                    if rounds % 2 == 1 {
                        store.flush_all().unwrap(); // an odd number of metadata writes in this session flips which block is newer
                    }
                }
                rounds += 1;
                let (p, b) = generations(&path);
                let (Some(p), Some(b)) = (p, b) else { continue };
                assert_ne!(p, b, "the two copies alternate");
                if (b > p) == newer_in_backup && rounds >= 2 {
                    break;
                }
                if rounds >= 10 {
                    eprintln!("witness inconclusive: could not reach the wanted layout");
                    return;
                }
            }
            let (p, b) = generations(&path);
            let (p, b) = (p.unwrap(), b.unwrap());
            let (newer_block, older_block) = if b > p { (7, 0) } else { (0, 7) };
            let expected_floor = match damage {
                "newer" => {
                    flip(&path, newer_block, 20); // inside the checksummed area
                    p.min(b)
                }
                "older" => {
                    flip(&path, older_block, 20);
                    p.max(b)
                }
                _ => p.max(b),
            };
            {
                let store = open(&path).expect("a device with at least one valid metadata copy opens");
                for i in 0..rounds {
                    assert_eq!(store.get(format!("k{i}").as_bytes()).unwrap(), b"v");
                }
                store.flush_all().unwrap();
                let (p2, b2) = generations(&path);
                let top = p2.into_iter().chain(b2).max().unwrap();
                assert!(top > expected_floor,
                        "after reopen + flush the newest generation on the device is {top}, not above {expected_floor}: the store continued from the wrong metadata copy \
                         (newer copy in backup: {newer_in_backup}, damaged: {damage})");
            }
        }
    }
}
