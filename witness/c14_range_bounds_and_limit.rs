//! Native witness for the range_query iteration obligations: results are within the inclusive bounds,
//! ascending, at most `limit`, the smallest such keys, each with its own value.
use crate::core::store::FeoxStore;

#[test]
fn verif_witness_c14_range_bounds_and_limit() {
    let store = FeoxStore::new(None).unwrap();
    for i in 0..20u32 {
        store.insert(format!("k{i:02}").as_bytes(), format!("v{i:02}").as_bytes()).unwrap();
    }
    for limit in [1usize, 2, 5, 7, 20, 50] {
        let r = store.range_query(b"k03", b"k11", limit).unwrap();
        let want: Vec<(Vec<u8>, Vec<u8>)> = (3..=11u32).take(limit).map(|i| (format!("k{i:02}").into_bytes(), format!("v{i:02}").into_bytes())).collect();
        assert_eq!(r, want, "limit {limit}");
    }
    assert!(store.range_query(b"k11", b"k03", 10).unwrap().is_empty());
    assert_eq!(store.range_query(b"k19", b"zzz", 10).unwrap().len(), 1);
}

/// entries the scan skips (expired but not yet swept) neither end the scan nor count against the limit
#[test]
fn verif_witness_c14_skipped_entries_do_not_consume_the_limit() {
    let store = FeoxStore::builder().enable_ttl(true).build().unwrap();
    for i in 0..30u32 {
        let (k, v) = (format!("k{i:02}"), format!("v{i:02}"));
        if i % 3 == 0 {
            store.insert_with_ttl(k.as_bytes(), v.as_bytes(), 1).unwrap();
        } else {
            store.insert(k.as_bytes(), v.as_bytes()).unwrap();
        }
    }
    std::thread::sleep(std::time::Duration::from_millis(1300));
    let live: Vec<u32> = (0..30u32).filter(|i| i % 3 != 0).collect();
    for limit in [1usize, 2, 3, 5, 8, 19, 20, 21, 64] {
        let r = store.range_query(b"k00", b"k99", limit).unwrap();
        let want: Vec<(Vec<u8>, Vec<u8>)> = live.iter().take(limit).map(|i| (format!("k{i:02}").into_bytes(), format!("v{i:02}").into_bytes())).collect();
        assert_eq!(r, want, "limit {limit} with expired entries in range");
    }
    let r = store.range_query(b"k04", b"k12", 4).unwrap();
    let keys: Vec<Vec<u8>> = r.into_iter().map(|(k, _)| k).collect();
    assert_eq!(keys, vec![b"k04".to_vec(), b"k05".to_vec(), b"k07".to_vec(), b"k08".to_vec()]);
}
