//! Native witness for the range_query iteration obligations: results are within the inclusive bounds,
//! ascending, at most `limit`, the smallest such keys, each with its own value.
use crate::core::store::FeoxStore;

#[test]
fn verif_witness_c14_range_bounds_and_limit() {
    let store = FeoxStore::new(None).unwrap();
    for i in 0..20u32 {
        store.insert(format!("k{i:02}").as_bytes(), format!("v{i:02}").as_bytes()).unwrap();
    }
    for limit in [1usize, 2, 5, 7, 20, 50] {
        let r = store.range_query(b"k03", b"k11", limit).unwrap();
        let want: Vec<(Vec<u8>, Vec<u8>)> = (3..=11u32).take(limit).map(|i| (format!("k{i:02}").into_bytes(), format!("v{i:02}").into_bytes())).collect();
        assert_eq!(r, want, "limit {limit}");
    }
    assert!(store.range_query(b"k11", b"k03", 10).unwrap().is_empty());
    assert_eq!(store.range_query(b"k19", b"zzz", 10).unwrap().len(), 1);
}
