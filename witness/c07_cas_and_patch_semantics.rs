//! Native witness for the compare-and-swap and JSON-patch obligations: the swap happens iff the CURRENT value equals
//! `expected` (memory, cache and disk tiers), a patch is applied to the current document and refused for a timestamp
//! that is not newer, and neither loses an update under contention.
use crate::core::store::FeoxStore;
use crate::error::FeoxError;
use std::sync::Arc;
use std::thread;
use tempfile::NamedTempFile;

fn stores() -> Vec<(String, Arc<FeoxStore>, Option<NamedTempFile>)> {
    let mut out = vec![("memory".to_string(), Arc::new(FeoxStore::new(None).unwrap()), None)];
    for caching in [false, true] {
        let file = NamedTempFile::new().unwrap();
        let store = FeoxStore::builder()
            .hash_bits(6)
            .device_path(file.path().to_string_lossy().into_owned())
            .file_size(8 * 1024 * 1024)
            .enable_caching(caching)
            .build()
            .unwrap();
        out.push((format!("file, caching {caching}"), Arc::new(store), Some(file)));
    }
    out
}

#[test]
fn compare_and_swap_is_conditional_on_the_current_value() {
    for (name, store, _file) in stores() {
        let big_a = vec![b'a'; 6000];
        let big_b = vec![b'b'; 6000];
        store.insert(b"k", &big_a).unwrap();
        store.flush().unwrap();
        // value possibly offloaded: first read fills the cache, the second is a cache hit
        for _ in 0..2 {
            assert!(!store.compare_and_swap(b"k", &big_b, b"wrong").unwrap(), "{name}: swap with a wrong expectation");
            assert_eq!(store.get(b"k").unwrap(), big_a, "{name}: value after a refused swap");
        }
        assert!(store.compare_and_swap(b"k", &big_a, &big_b).unwrap(), "{name}: swap with the right expectation");
        assert_eq!(store.get(b"k").unwrap(), big_b, "{name}");
        // the old expectation no longer matches, although it was cached / compared before
        assert!(!store.compare_and_swap(b"k", &big_a, b"again").unwrap(), "{name}: swap against the replaced value");
        assert_eq!(store.get(b"k").unwrap(), big_b, "{name}");
        store.flush().unwrap();
        assert!(!store.compare_and_swap(b"k", &big_a, b"again").unwrap(), "{name}: after flush");
        assert!(store.compare_and_swap(b"k", &big_b, b"small").unwrap(), "{name}: after flush, right expectation");
        assert_eq!(store.get(b"k").unwrap(), b"small", "{name}");
        assert!(!store.compare_and_swap(b"absent", b"x", b"y").unwrap(), "{name}: absent key");
        assert!(!store.contains_key(b"absent"), "{name}: a refused swap created the key");
        // explicit timestamps: not newer than the current generation is refused
        store.insert_with_timestamp(b"t", b"v1", Some(100)).unwrap();
        assert!(matches!(store.compare_and_swap_with_timestamp(b"t", b"v1", b"v2", Some(100)), Err(FeoxError::OlderTimestamp)), "{name}: equal timestamp");
        assert!(matches!(store.compare_and_swap_with_timestamp(b"t", b"v1", b"v2", Some(99)), Err(FeoxError::OlderTimestamp)), "{name}: older timestamp");
        assert_eq!(store.get(b"t").unwrap(), b"v1", "{name}");
        assert!(store.compare_and_swap_with_timestamp(b"t", b"v1", b"v2", Some(101)).unwrap(), "{name}: newer timestamp");
        assert_eq!(store.get(b"t").unwrap(), b"v2", "{name}");
    }
}

#[test]
fn json_patch_applies_to_the_current_document() {
    for (name, store, _file) in stores() {
        store.insert_with_timestamp(b"doc", br#"{"n":1,"pad":"xxxxxxxxxxxxxxxxxxxxxxxxxxxxxxxxxxxxxxxx"}"#, Some(10)).unwrap();
        store.flush().unwrap();
        let patch = br#"[{"op":"replace","path":"/n","value":2}]"#;
        assert!(matches!(store.json_patch_with_timestamp(b"doc", patch, Some(10)), Err(FeoxError::OlderTimestamp)), "{name}: equal timestamp");
        assert!(matches!(store.json_patch_with_timestamp(b"doc", patch, Some(9)), Err(FeoxError::OlderTimestamp)), "{name}: older timestamp");
        let v: serde_json::Value = serde_json::from_slice(&store.get(b"doc").unwrap()).unwrap();
        assert_eq!(v["n"], 1, "{name}: a refused patch changed the document");
        store.json_patch_with_timestamp(b"doc", patch, Some(11)).unwrap();
        let v: serde_json::Value = serde_json::from_slice(&store.get(b"doc").unwrap()).unwrap();
        assert_eq!(v["n"], 2, "{name}");
        store.json_patch(b"doc", br#"[{"op":"add","path":"/m","value":[1]}]"#).unwrap();
        store.flush().unwrap();
        store.json_patch(b"doc", br#"[{"op":"add","path":"/m/-","value":2}]"#).unwrap();
        let v: serde_json::Value = serde_json::from_slice(&store.get(b"doc").unwrap()).unwrap();
        assert_eq!(v["m"], serde_json::json!([1, 2]), "{name}: patch applied to a stale document");
        assert_eq!(v["n"], 2, "{name}");
        assert!(store.json_patch(b"absent", patch).is_err(), "{name}");
    }
}

#[test]
fn contended_swaps_and_patches_lose_nothing() {
    for (name, store, _file) in stores() {
        store.insert(b"ctr", b"0").unwrap();
        store.insert(b"arr", br#"{"items":[]}"#).unwrap();
        let threads = 6usize;
        let per = 150usize;
        let mut hs = Vec::new();
        for t in 0..threads {
            let s = Arc::clone(&store);
            hs.push(thread::spawn(move || {
                for i in 0..per {
                    loop {
                        let cur = s.get(b"ctr").unwrap();
                        let n: u64 = std::str::from_utf8(&cur).unwrap().parse().unwrap();
                        match s.compare_and_swap(b"ctr", &cur, (n + 1).to_string().as_bytes()) {
                            Ok(true) => break,
                            Ok(false) | Err(FeoxError::OlderTimestamp) => continue,
                            Err(e) => panic!("{e}"),
                        }
                    }
                    let patch = format!(r#"[{{"op":"add","path":"/items/-","value":{}}}]"#, t * 1000 + i);
                    loop {
                        match s.json_patch(b"arr", patch.as_bytes()) {
                            Ok(()) => break,
                            Err(FeoxError::OlderTimestamp) => continue,
                            Err(e) => panic!("{e}"),
                        }
                    }
                    if i % 50 == 0 {
                        let _ = s.flush();
                    }
                }
            }));
        }
        for h in hs {
            h.join().unwrap();
        }
        let n: u64 = std::str::from_utf8(&store.get(b"ctr").unwrap()).unwrap().parse().unwrap();
        assert_eq!(n as usize, threads * per, "{name}: compare-and-swap increments were lost");
        let v: serde_json::Value = serde_json::from_slice(&store.get(b"arr").unwrap()).unwrap();
        let mut items: Vec<u64> = v["items"].as_array().unwrap().iter().map(|x| x.as_u64().unwrap()).collect();
        items.sort_unstable();
        let mut want: Vec<u64> = (0..threads).flat_map(|t| (0..per).map(move |i| (t * 1000 + i) as u64)).collect();
        want.sort_unstable();
        assert_eq!(items, want, "{name}: patches were lost or duplicated");
    }
}
