//! Native witness for `c17_scan_iteration_panic_free`: hostile data blocks (retirement markers with extreme extents and
//! valid tokens, record heads with extreme key/value lengths and correctly stamped tokens, truncated and random blocks) are
//! planted in an otherwise valid device; opening it – for writing and read-only-like reopen – and using it must never panic.
use crate::constants::{FEOX_BLOCK_SIZE, FEOX_DATA_START_BLOCK};
use crate::storage::format::retirement_marker_token;
use crate::storage::seq_token::record_seq_token;
use crate::FeoxStore;
use tempfile::NamedTempFile;

const BLOCK: usize = FEOX_BLOCK_SIZE;
const DATA_BLOCKS: usize = 24;
const TOTAL: usize = FEOX_DATA_START_BLOCK as usize + DATA_BLOCKS;

fn open(path: &str, ttl: bool) -> crate::Result<FeoxStore> {
    FeoxStore::builder()
        .device_path(path.to_string())
        .file_size((TOTAL * BLOCK) as u64)
        .enable_ttl(ttl)
        .enable_caching(false)
        .build()
}

fn marker_block(sector: u64, extent: u64, state: u8, good_token: bool) -> Vec<u8> {
    let mut b = vec![0u8; BLOCK];
    b[..8].copy_from_slice(b"\0DELETED");
    b[8..16].copy_from_slice(&extent.to_le_bytes());
    b[18] = state;
    let t = retirement_marker_token(sector, &b);
    b[16..18].copy_from_slice(&(if good_token { t } else { t ^ 1 }).to_le_bytes());
    b
}

fn record_block(sector: u64, key_len: u16, value_len: u64, ts: u64, expiry: u64, stamp: bool) -> Vec<u8> {
    let mut b = vec![0x5Au8; BLOCK];
    b[0] = 0xCD;
    b[1] = 0xAB;
    b[2] = 0;
    b[3] = 0;
    b[4..6].copy_from_slice(&key_len.to_le_bytes());
    let k = (key_len as usize).min(BLOCK - 6 - 24);
    for (i, x) in b[6..6 + k].iter_mut().enumerate() {
        *x = b'a' + (i % 26) as u8;
    }
    let at = 6 + k;
    b[at..at + 8].copy_from_slice(&value_len.to_le_bytes());
    b[at + 8..at + 16].copy_from_slice(&ts.to_le_bytes());
    b[at + 16..at + 24].copy_from_slice(&expiry.to_le_bytes());
    if stamp {
        let t = record_seq_token(sector, &b);
        b[2..4].copy_from_slice(&t.to_le_bytes());
    }
    b
}

#[test]
fn verif_witness_c17_scan_hostile_blocks() {
    let file = NamedTempFile::new().unwrap();
    let path = file.path().to_str().unwrap().to_string();
    {
        let store = open(&path, false).unwrap();
        store.insert(b"live", &vec![3u8; 5000]).unwrap();
        store.insert(b"other", b"v").unwrap();
        store.flush().unwrap();
    }
    let base = std::fs::read(&path).unwrap();
    let s0 = FEOX_DATA_START_BLOCK + 6; // a free block behind the live records
    let extremes = [0u64, 1, 2, DATA_BLOCKS as u64 - 6, DATA_BLOCKS as u64 - 5, 1 << 31, 1 << 32, (1 << 52) - 1, 1 << 52, 1 << 63, u64::MAX - s0, u64::MAX - s0 + 1, u64::MAX];
    let mut plants: Vec<(String, Vec<u8>)> = Vec::new();
    for &e in &extremes {
        for state in [0u8, 1, 2, 255] {
            for good in [true, false] {
                plants.push((format!("marker extent={e} state={state} token={good}"), marker_block(s0, e, state, good)));
            }
        }
    }
    for key_len in [0u16, 1, 4, 4065, 4066, 4067, 4074, 4075, 4090, u16::MAX] {
        for &value_len in &[0u64, 1, 4000, 4096, 4 << 20, (4 << 20) + 1, 1 << 32, 1 << 52, 1 << 63, u64::MAX - 4095, u64::MAX] {
            for stamp in [true, false] {
                plants.push((format!("record key_len={key_len} value_len={value_len} stamped={stamp}"), record_block(s0, key_len, value_len, 7, u64::MAX, stamp)));
            }
        }
    }
    // duplicates of a live key with extreme timestamps / expiries, correctly stamped
    for (ts, exp) in [(0u64, 0u64), (u64::MAX, 0), (u64::MAX, 1), (1, u64::MAX), (u64::MAX - 1, u64::MAX)] {
        let mut b = record_block(s0, 4, 10, ts, exp, false);
        b[6..10].copy_from_slice(b"live");
        let t = record_seq_token(s0, &b);
        b[2..4].copy_from_slice(&t.to_le_bytes());
        plants.push((format!("duplicate of live key ts={ts} expiry={exp}"), b));
    }
    let mut x = 0x9E37_79B9_7F4A_7C15u64;
    for i in 0..64 {
        let mut b = vec![0u8; BLOCK];
        for y in b.iter_mut() {
            x ^= x << 13;
            x ^= x >> 7;
            x ^= x << 17;
            *y = x as u8;
        }
        if i % 2 == 0 {
            b[..8].copy_from_slice(b"\0DELETED");
        } else {
            b[0] = 0xCD;
            b[1] = 0xAB;
        }
        plants.push((format!("random block {i}"), b));
    }

    let mut panics = Vec::new();
    for (what, block) in &plants {
        for at in [s0 as usize, TOTAL - 1] {
            let mut image = base.clone();
            let mut blk = block.clone();
            if at != s0 as usize && &blk[..8] == b"\0DELETED" {
                // re-bind the marker token to the other sector so that the extent checks are reached there too
                let t = retirement_marker_token(at as u64, &blk);
                blk[16..18].copy_from_slice(&t.to_le_bytes());
            }
            image[at * BLOCK..(at + 1) * BLOCK].copy_from_slice(&blk);
            let scratch = NamedTempFile::new().unwrap();
            std::fs::write(scratch.path(), &image).unwrap();
            let p = scratch.path().to_str().unwrap().to_string();
            for ttl in [false, true] {
                let r = std::panic::catch_unwind(|| {
                    if let Ok(store) = open(&p, ttl) {
                        let _ = store.get(b"live");
                        let _ = store.get(b"abcd");
                        let _ = store.range_query(b"", b"\xff\xff", 100);
                        let _ = store.len();
                        let _ = store.insert(b"fresh", b"value");
                        let _ = store.flush();
                    }
                });
                if r.is_err() {
                    panics.push(format!("{what} at block {at} (ttl={ttl})"));
                }
            }
        }
    }
    assert!(panics.is_empty(), "open/use panicked on {} hostile images, e.g. {:?}", panics.len(), &panics[..panics.len().min(5)]);
}
