//! Native witness for "a TTL change draws its version from (and advances) the per-shard clock":
//! a key whose version is ahead of the wall clock gets a TTL change, then an automatic write must not be
//! rejected as older.
use crate::core::store::FeoxStore;

const DAY_NS: u64 = 86_400_000_000_000;

#[test]
fn verif_witness_c12_update_ttl() {
    let store = FeoxStore::builder().enable_ttl(true).build().unwrap();
    let t = store.get_timestamp_pub() + DAY_NS;
    store.insert_with_timestamp(b"k1", b"v0", Some(t)).unwrap();
    store.update_ttl(b"k1", 3600).unwrap();
    let r = store.insert(b"k1", b"v1");
    assert!(r.is_ok(), "automatic insert after update_ttl rejected: {r:?}");
    store.insert_with_timestamp(b"k2", b"v0", Some(t)).unwrap();
    store.update_ttl(b"k2", 3600).unwrap();
    store.persist(b"k2").unwrap();
    let r = store.delete(b"k2");
    assert!(r.is_ok(), "automatic delete after persist rejected: {r:?}");
}
