//! Native witness for "a successful TTL update republishes the ordered-index slot": after update_ttl /
//! persist, range_query must judge expiry by the NEW generation, exactly like get.
use crate::core::store::FeoxStore;
use std::thread::sleep;
use std::time::Duration;

#[test]
fn verif_witness_c11_ttl_publish() {
    let store = FeoxStore::builder().enable_ttl(true).build().unwrap();
    store.insert_with_ttl(b"renewed", b"v", 1).unwrap();
    store.update_ttl(b"renewed", 3600).unwrap();
    store.insert(b"shortened", b"v").unwrap();
    store.update_ttl(b"shortened", 1).unwrap();
    sleep(Duration::from_millis(1300));
    let keys: Vec<Vec<u8>> = store.range_query(b"a", b"z", 100).unwrap().into_iter().map(|(k, _)| k).collect();
    assert!(store.get(b"renewed").is_ok());
    assert!(keys.iter().any(|k| k == b"renewed"), "renewed key hidden from range_query by its replaced generation");
    assert!(store.get(b"shortened").is_err());
    assert!(!keys.iter().any(|k| k == b"shortened"), "expired key still visible to range_query through its replaced generation");
}

/// The same for a value that lives only on disk and was never read back (the *deferred* TTL replacement) and for a
/// cache-warm one. (Scenario from the independently seeded demonstration r5-C01; ~2.5 s.)
#[test]
fn verif_witness_c11_ttl_publish_offloaded() {
    let dir = tempfile::tempdir().unwrap();
    let path = dir.path().join("ttl.feox").to_string_lossy().into_owned();
    let store = FeoxStore::builder().device_path(path).file_size(4 * 1024 * 1024).enable_ttl(true).build().unwrap();
    let started = std::time::Instant::now();
    store.insert_with_ttl(b"k:cold", b"cold-value", 2).unwrap();
    store.insert_with_ttl(b"k:warm", b"warm-value", 2).unwrap();
    store.insert(b"k:plain", b"plain-value").unwrap();
    store.insert(b"k:short", b"short-value").unwrap();
    store.flush().unwrap(); // values offloaded
    assert_eq!(store.get(b"k:warm").unwrap(), b"warm-value");
    store.persist(b"k:cold").unwrap();
    store.persist(b"k:warm").unwrap();
    store.update_ttl(b"k:short", 1).unwrap();
    if let Some(rest) = Duration::from_millis(2400).checked_sub(started.elapsed()) {
        sleep(rest);
    }
    let keys: Vec<Vec<u8>> = store.range_query(b"k:", b"k:\xff", 100).unwrap().into_iter().map(|(k, _)| k).collect();
    assert_eq!(store.get(b"k:cold").unwrap(), b"cold-value");
    assert!(store.get(b"k:short").is_err());
    assert_eq!(keys, vec![b"k:cold".to_vec(), b"k:plain".to_vec(), b"k:warm".to_vec()],
               "range_query judges expiry by a replaced generation after a TTL-only update of an offloaded value");
}
