//! Native witness for "a successful TTL update republishes the ordered-index slot": after update_ttl /
//! persist, range_query must judge expiry by the NEW generation, exactly like get.
use crate::core::store::FeoxStore;
use std::thread::sleep;
use std::time::Duration;

#[test]
fn verif_witness_c11_ttl_publish() {
    let store = FeoxStore::builder().enable_ttl(true).build().unwrap();
    store.insert_with_ttl(b"renewed", b"v", 1).unwrap();
    store.update_ttl(b"renewed", 3600).unwrap();
    store.insert(b"shortened", b"v").unwrap();
    store.update_ttl(b"shortened", 1).unwrap();
    sleep(Duration::from_millis(1300));
    let keys: Vec<Vec<u8>> = store.range_query(b"a", b"z", 100).unwrap().into_iter().map(|(k, _)| k).collect();
    assert!(store.get(b"renewed").is_ok());
    assert!(keys.iter().any(|k| k == b"renewed"), "renewed key hidden from range_query by its replaced generation");
    assert!(store.get(b"shortened").is_err());
    assert!(!keys.iter().any(|k| k == b"shortened"), "expired key still visible to range_query through its replaced generation");
}
