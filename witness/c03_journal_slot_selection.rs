//! Native witness for the journal decoder obligations (`c03_journal_slot_acceptance`, `c03_journal_slot_selection`):
//! slot images are assembled from an independent description of the documented layout (own header writer, own
//! checksum message) and `decode` must accept exactly the valid ones and believe the right slot.
use crate::storage::allocation_journal::{decode, encode_active, encode_clear};
use crate::storage::seq_token::crc32c;

const BLOCK: usize = 4096;
const SLOT: usize = 3 * BLOCK;
const TOTAL: u64 = 1 << 20;

fn reference_checksum(image: &[u8]) -> u32 {
    let mut message = image.to_vec();
    message[12..16].fill(0);
    message[32..36].fill(0);
    crc32c(0, &message)
}

/// documented image: magic | version | checksum | generation | state | count | !checksum | pad | entries
fn image(version: u32, generation: u64, state: u32, extents: &[(u32, u32)], declared: u32) -> Vec<u8> {
    let compact = (40 + 8 * extents.len().max(declared.min(1024) as usize)).div_ceil(BLOCK) * BLOCK;
    let mut slot = vec![0u8; SLOT];
    slot[..8].copy_from_slice(b"\0FEOXAJ1");
    slot[8..12].copy_from_slice(&version.to_le_bytes());
    slot[16..24].copy_from_slice(&generation.to_le_bytes());
    slot[24..28].copy_from_slice(&state.to_le_bytes());
    slot[28..32].copy_from_slice(&declared.to_le_bytes());
    for (i, (s, n)) in extents.iter().enumerate() {
        slot[40 + 8 * i..44 + 8 * i].copy_from_slice(&s.to_le_bytes());
        slot[44 + 8 * i..48 + 8 * i].copy_from_slice(&n.to_le_bytes());
    }
    let covered = if version == 1 { SLOT } else { compact.min(SLOT) };
    let sum = reference_checksum(&slot[..covered]);
    slot[12..16].copy_from_slice(&sum.to_le_bytes());
    slot[32..36].copy_from_slice(&(!sum).to_le_bytes());
    slot
}

fn journal(slot0: &[u8], slot1: &[u8]) -> Vec<u8> {
    let mut data = vec![0u8; 2 * SLOT];
    data[..slot0.len()].copy_from_slice(slot0);
    data[SLOT..SLOT + slot1.len()].copy_from_slice(slot1);
    data
}

fn accepted(slot: &[u8]) -> bool {
    // the other slot is garbage, so Ok means this slot was believed
    let mut other = vec![0u8; SLOT];
    other[0] = 0xFF;
    matches!(decode(&journal(slot, &other), TOTAL), Ok(state) if state.slot == 0 && state.generation != 0)
}

#[test]
fn verif_witness_c03_journal_slot_selection() {
    let zero = vec![0u8; SLOT];
    let mut garbage = vec![0u8; SLOT];
    garbage[5] = 1;
    let a = [(40u32, 2u32), (20, 3), (30, 1)]; // journal order is not sorted
    let a64: Vec<(u64, usize)> = a.iter().map(|&(s, n)| (s as u64, n as usize)).collect();

    // ---- which slot is believed
    for (g0, g1) in [(5u64, 9u64), (9, 5), (1, u64::MAX), (u64::MAX, 1), (7, 8), (8, 7)] {
        let s0 = image(2, g0, 1, &a, a.len() as u32);
        let s1 = image(2, g1, 0, &[], 0);
        let state = decode(&journal(&s0, &s1), TOTAL).expect("two valid slots decode");
        let want = if g0 > g1 { (g0, 0usize) } else { (g1, 1usize) };
        assert_eq!((state.generation, state.slot), want, "the slot with the greater generation wins (g0={g0}, g1={g1})");
        if want.1 == 0 {
            assert_eq!(state.extents, a64, "extents come back in journal order");
        } else {
            assert!(state.extents.is_empty());
        }
    }
    // the crate's own encoders agree with the reference images
    assert_eq!(encode_active(5, &a64).unwrap(), image(2, 5, 1, &a, 3)[..BLOCK].to_vec());
    assert_eq!(encode_clear(6).unwrap(), image(2, 6, 0, &[], 0)[..BLOCK].to_vec());

    let valid = image(2, 4, 1, &a, 3);
    for (s0, s1, want) in [
        (&zero, &valid, Some((4u64, 1usize))),
        (&valid, &zero, Some((4, 0))),
        (&garbage, &valid, Some((4, 1))),
        (&valid, &garbage, Some((4, 0))),
        (&zero, &zero, Some((0, 1))),     // blank device: the LAST missing slot, generation 0
        (&zero, &garbage, Some((0, 0))),
        (&garbage, &zero, Some((0, 1))),
        (&garbage, &garbage, None),
    ] {
        let got = decode(&journal(s0, s1), TOTAL).ok().map(|s| (s.generation, s.slot, s.extents.len()));
        let want = want.map(|(g, s)| (g, s, if g == 4 { 3 } else { 0 }));
        assert_eq!(got, want, "slot selection");
    }
    assert!(decode(&journal(&valid, &zero)[..2 * SLOT - 1], TOTAL).is_err(), "short buffer");
    let mut long = journal(&valid, &zero);
    long.push(0);
    assert!(decode(&long, TOTAL).is_err(), "long buffer");

    // ---- which slot images are accepted
    assert!(accepted(&image(2, 1, 1, &a, 3)));
    assert!(accepted(&image(1, 1, 1, &a, 3)), "version 1 (whole-slot checksum) images are still read");
    assert!(accepted(&image(2, 3, 0, &[], 0)));
    assert!(accepted(&image(2, u64::MAX, 0, &[], 0)));
    let mut trailing = image(2, 2, 1, &a, 3);
    trailing[BLOCK + 17] = 0xAA; // bytes after the compact image are not part of a version-2 image
    assert!(accepted(&trailing));
    let mut trailing_v1 = image(1, 2, 1, &a, 3);
    trailing_v1[BLOCK + 17] ^= 0xAA; // ... but they are part of a version-1 image
    assert!(!accepted(&trailing_v1));
    let full: Vec<(u32, u32)> = (0..1024u32).map(|i| (16 + 2 * i, 1)).collect();
    assert!(accepted(&image(2, 2, 1, &full, 1024)), "a full journal (1024 entries) is valid");
    let spill: Vec<(u32, u32)> = (0..513u32).map(|i| (16 + 2 * i, 1)).collect();
    let mut two_blocks = image(2, 2, 1, &spill, 513);
    assert!(accepted(&two_blocks), "a two-block compact image is valid");
    two_blocks[BLOCK + 40] ^= 1; // inside the second block of the compact image
    assert!(!accepted(&two_blocks), "the second block of a compact image is covered by the checksum");

    assert!(!accepted(&image(3, 1, 1, &a, 3)), "unknown version");
    assert!(!accepted(&image(0, 1, 1, &a, 3)), "version 0");
    assert!(!accepted(&image(2, 0, 1, &a, 3)), "generation 0");
    assert!(!accepted(&image(2, 1, 2, &a, 3)), "unknown state");
    assert!(!accepted(&image(2, 1, 0, &a, 3)), "CLEAR with entries");
    assert!(!accepted(&image(2, 1, 1, &[], 0)), "ACTIVE without entries");
    assert!(!accepted(&image(2, 1, 1, &full, 1025)), "count above the maximum");
    let mut bad = image(2, 1, 1, &a, 3);
    bad[32] ^= 1;
    assert!(!accepted(&bad), "complement mismatch");
    let mut bad = image(2, 1, 1, &a, 3);
    bad[12] ^= 1;
    bad[32] ^= 1;
    assert!(!accepted(&bad), "checksum mismatch with a consistent complement");
    let mut bad = image(2, 1, 1, &a, 3);
    bad[41] ^= 1;
    assert!(!accepted(&bad), "entry bytes are covered");
    let mut bad = image(2, 1, 1, &a, 3);
    bad[0] = 1;
    assert!(!accepted(&bad), "magic");
    for field in [8usize, 16, 24, 28, 36] {
        let mut bad = image(2, 1, 1, &a, 3);
        bad[field] ^= 0x40;
        assert!(!accepted(&bad), "header byte {field} is covered by the checksum or validated");
    }
}
