//! Native witness: the periodic coordinator keeps running after a worker queue was full (adapted from the independently seeded demonstration seeded/r2-C19/demo.rs).
// Run: cd /tmp/mut2/C19 && CARGO_TARGET_DIR=/tmp/mut2/C19/target cargo test --offline --test seeded_C19 -- --nocapture
// (plain integration test, public API only; drop the file into tests/ and it is picked up automatically)
//
// C19: accepted writes must reach the device within the flush interval plus I/O time
// without any explicit flush, for the whole lifetime of the store.
//
// Scenario: the device stalls for about a second while writes keep arriving (the worker is
// stuck inside one flush, so its 2-slot request queue fills up while the periodic coordinator
// keeps ticking). The stall ends, everything catches up. A *later*, completely ordinary small
// write on the now idle and responsive store must still become durable by itself.
#![cfg(unix)]

use std::sync::atomic::Ordering;
use std::sync::Arc;
use std::thread;
use std::time::{Duration, Instant};

use crate::constants::{Operation, FEOX_BLOCK_SIZE};
use crate::core::record::Record;
use crate::stats::Statistics;
use crate::storage::free_space::FreeSpaceManager;
use crate::storage::io::DiskIO;
use crate::storage::metadata::Metadata;
use crate::storage::write_buffer::WriteBuffer;
use parking_lot::RwLock;

const KEYS_PER_ROUND: usize = 64;

fn add_round(wb: &WriteBuffer, tag: &str, round: usize) -> Vec<Arc<Record>> {
    (0..KEYS_PER_ROUND)
        .map(|i| {
            let record = Arc::new(Record::new(
                format!("{tag}-{round}-{i}").into_bytes(),
                vec![b'v'; 100],
                (round * KEYS_PER_ROUND + i + 1) as u64,
            ));
            wb.add_write(Operation::Insert, Arc::clone(&record), 0)
                .unwrap();
            record
        })
        .collect()
}

fn durable(records: &[Arc<Record>]) -> usize {
    records
        .iter()
        .filter(|record| record.sector.load(Ordering::Acquire) != 0)
        .count()
}

fn wait_durable(records: &[Arc<Record>], limit: Duration) -> bool {
    let start = Instant::now();
    while start.elapsed() < limit {
        if durable(records) == records.len() {
            return true;
        }
        thread::sleep(Duration::from_millis(20));
    }
    durable(records) == records.len()
}

#[test]
fn write_behind_survives_a_transient_device_stall() {
    let device_size = 64 * 1024 * 1024_u64;
    assert_eq!(device_size % FEOX_BLOCK_SIZE as u64, 0);
    let file = tempfile::NamedTempFile::new().unwrap();
    file.as_file().set_len(device_size).unwrap();
    let disk_io = Arc::new(RwLock::new(
        DiskIO::new(Arc::new(file.reopen().unwrap()), false).unwrap(),
    ));
    let free_space = Arc::new(RwLock::new(FreeSpaceManager::new()));
    free_space.write().initialize(device_size).unwrap();
    let stats = Arc::new(Statistics::new());

    let mut wb = WriteBuffer::new(
        Arc::clone(&disk_io),
        Arc::clone(&free_space),
        Arc::clone(&stats),
        Metadata::new().version,
    );
    // Same worker count the store uses (src/core/store/init.rs).
    wb.start_workers((num_cpus::get() / 2).max(1));

    // Phase 1: sanity. Write-behind works without any explicit flush.
    let warmup = add_round(&wb, "warmup", 0);
    assert!(
        wait_durable(&warmup, Duration::from_secs(3)),
        "phase 1: only {}/{} warm-up writes became durable without flush",
        durable(&warmup),
        warmup.len()
    );

    // Phase 2: the device stops responding for ~1 s while small writes keep arriving.
    // Holding a read guard on the shared DiskIO handle makes every worker block where it
    // takes the handle for writing, exactly as if the underlying write() were slow.
    let mut during_stall = Vec::new();
    {
        let _device_busy = disk_io.read();
        for round in 0..20 {
            during_stall.extend(add_round(&wb, "stall", round));
            thread::sleep(Duration::from_millis(50));
        }
    }
    // The device is responsive again. Let everything catch up (an explicit flush is fine
    // here, it is only the set-up for the actual check below).
    wb.force_flush().unwrap();
    assert_eq!(durable(&during_stall), during_stall.len());

    // Phase 3: the property. The store is idle and the machine responsive; a small write
    // that nobody flushes explicitly has to reach the device within interval + I/O time.
    let late = add_round(&wb, "late", 0);
    let ok = wait_durable(&late, Duration::from_secs(3));
    let reached = durable(&late);
    wb.complete_shutdown();
    assert!(
        ok,
        "phase 3: {}/{} writes accepted after the stall were still not durable 3 s later \
         (flush interval is 100 ms) - write-behind stopped working",
        reached,
        late.len()
    );
}
