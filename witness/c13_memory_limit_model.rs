//! Native witness for reserve_memory (C13): with a memory limit no interleaving of writers lets usage exceed the
//! limit, a refused write changes nothing, and the budget is fully reusable after deletes.
use std::sync::atomic::{AtomicBool, AtomicUsize, Ordering};
use std::sync::Arc;
use std::thread;

use crate::core::store::FeoxStore;
use crate::error::FeoxError;

fn record_cost(key: usize, value: usize) -> usize {
    let s = FeoxStore::new(None).unwrap();
    s.insert(&vec![b'k'; key], &vec![0u8; value]).unwrap();
    s.memory_usage()
}

#[test]
fn sequential_admission_is_exact() {
    let cost = record_cost(6, 1000);
    let limit = 5 * cost + cost / 2;
    let store = FeoxStore::builder().max_memory(limit).build().unwrap();
    for i in 0..5 {
        store.insert(format!("key-{i:02}").as_bytes(), &vec![1u8; 1000]).unwrap();
    }
    assert_eq!(store.memory_usage(), 5 * cost);
    let before = store.memory_usage();
    assert!(matches!(store.insert(b"key-99", &vec![1u8; 1000]), Err(FeoxError::OutOfMemory)), "a write beyond the limit was admitted");
    assert_eq!(store.memory_usage(), before, "a refused write changed the usage");
    assert!(!store.contains_key(b"key-99"), "a refused write created the key");
    // growing an existing value needs only the difference
    assert!(store.insert(b"key-00", &vec![2u8; 1000 + cost / 2]).is_ok(), "growth within the limit was refused");
    assert!(matches!(store.insert(b"key-01", &vec![2u8; 1000 + cost]), Err(FeoxError::OutOfMemory)), "growth beyond the limit was admitted");
    assert_eq!(store.get(b"key-01").unwrap(), vec![1u8; 1000], "a refused update changed the value");
    store.insert(b"key-00", &vec![3u8; 10]).unwrap();
    store.insert(b"key-99", &vec![1u8; 1000]).unwrap();
    for i in 0..5 {
        store.delete(format!("key-{i:02}").as_bytes()).unwrap();
    }
    store.delete(b"key-99").unwrap();
    assert_eq!(store.memory_usage(), 0, "usage does not return to zero");
    for i in 0..5 {
        store.insert(format!("key-{i:02}").as_bytes(), &vec![1u8; 1000]).unwrap();
    }
}

#[test]
fn the_limit_is_exact_at_the_boundary() {
    let cost = record_cost(6, 1000);
    for slack in [0usize, 1, 2] {
        let limit = 3 * cost + slack;
        let store = FeoxStore::builder().max_memory(limit).build().unwrap();
        for i in 0..3 {
            store.insert(format!("key-{i:02}").as_bytes(), &vec![1u8; 1000]).unwrap_or_else(|e| panic!("slack {slack}: a write that fits exactly was refused: {e}"));
        }
        assert_eq!(store.memory_usage(), 3 * cost);
        // growing by `slack` bytes fits exactly, by one more byte does not
        store.insert(b"key-00", &vec![2u8; 1000 + slack]).unwrap_or_else(|e| panic!("slack {slack}: growth to exactly the limit was refused: {e}"));
        assert_eq!(store.memory_usage(), limit);
        assert!(matches!(store.insert(b"key-01", &vec![2u8; 1001]), Err(FeoxError::OutOfMemory)), "slack {slack}: usage was allowed to exceed the limit by one byte");
        assert!(matches!(store.insert(b"k", b""), Err(_)), "slack {slack}: a new record was admitted at the limit");
        assert_eq!(store.memory_usage(), limit, "slack {slack}: a refused write changed the usage");
        assert!(store.memory_usage() <= limit);
    }
}

#[test]
fn concurrent_writers_never_exceed_the_limit() {
    let cost = record_cost(8, 2000);
    let limit = 10 * cost + 17;
    let store = Arc::new(FeoxStore::builder().max_memory(limit).build().unwrap());
    let stop = Arc::new(AtomicBool::new(false));
    let peak = Arc::new(AtomicUsize::new(0));
    let watcher = {
        let (s, stop, peak) = (Arc::clone(&store), Arc::clone(&stop), Arc::clone(&peak));
        thread::spawn(move || {
            while !stop.load(Ordering::Relaxed) {
                peak.fetch_max(s.memory_usage(), Ordering::Relaxed);
            }
        })
    };
    let mut hs = Vec::new();
    for t in 0..8usize {
        let s = Arc::clone(&store);
        hs.push(thread::spawn(move || {
            let mut admitted = 0usize;
            for i in 0..3000usize {
                let key = format!("k-{t}-{:03}", i % 6);
                let len = [2000usize, 10, 3500, 900][i % 4];
                match s.insert(key.as_bytes(), &vec![t as u8; len]) {
                    Ok(_) => admitted += 1,
                    Err(FeoxError::OutOfMemory) => {}
                    Err(e) => panic!("{e}"),
                }
                if i % 5 == 0 {
                    let _ = s.delete(key.as_bytes());
                }
            }
            admitted
        }));
    }
    let admitted: usize = hs.into_iter().map(|h| h.join().unwrap()).sum();
    stop.store(true, Ordering::Relaxed);
    watcher.join().unwrap();
    assert!(admitted > 0);
    assert!(peak.load(Ordering::Relaxed) <= limit, "memory usage {} exceeded the limit {limit}", peak.load(Ordering::Relaxed));
    assert!(store.memory_usage() <= limit);
    // quiescent: usage equals the model of what is left
    let left: usize = (0..8usize)
        .flat_map(|t| (0..6usize).map(move |i| format!("k-{t}-{i:03}")))
        .filter_map(|k| store.get(k.as_bytes()).ok().map(|v| record_cost(k.len(), v.len())))
        .sum();
    assert_eq!(store.memory_usage(), left, "usage differs from the sum over live keys after contention");
    for t in 0..8usize {
        for i in 0..6usize {
            let _ = store.delete(format!("k-{t}-{i:03}").as_bytes());
        }
    }
    assert_eq!(store.memory_usage(), 0);
}
