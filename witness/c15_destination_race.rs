//! Native witness for "the destination name is removed only after this guard's own hard_link succeeded" (`site_destination_publish`):
//! a file that appears at the destination path while the copy runs makes the publication fail with DestinationExists and must be left
//! untouched. From the independently seeded demonstration seeded/r5-C15/demo.rs; gives up (passes) if the race window is never observed.
use std::fs::{self, File, OpenOptions};
use std::io::Write;
use std::path::{Path, PathBuf};
use std::sync::atomic::{AtomicBool, Ordering};
use std::sync::{Arc, Barrier};
use std::thread;
use std::time::{Duration, Instant};

use crate::{migrate, MigrationError, MigrationOptions};
use tempfile::TempDir;

const BLOCK_SIZE: usize = 4096;
const DATA_START_BLOCK: u64 = 16;
const RECORDS: usize = 3000;
const SENTINEL: &[u8] = b"somebody else's file - do not touch";

fn v2_record(key: &[u8], value: &[u8], timestamp: u64, ttl_expiry: u64) -> Vec<u8> {
    let mut record = Vec::new();
    record.extend_from_slice(&0xABCD_u16.to_le_bytes());
    record.extend_from_slice(&0_u16.to_le_bytes());
    record.extend_from_slice(&(key.len() as u16).to_le_bytes());
    record.extend_from_slice(key);
    record.extend_from_slice(&(value.len() as u64).to_le_bytes());
    record.extend_from_slice(&timestamp.to_le_bytes());
    record.extend_from_slice(&ttl_expiry.to_le_bytes());
    record.extend_from_slice(value);
    record.resize(record.len().div_ceil(BLOCK_SIZE) * BLOCK_SIZE, 0);
    record
}

/// A v2 image with `RECORDS` one-block records, built by hand.
fn write_v2_source(path: &Path) {
    let device_size = (DATA_START_BLOCK as usize + RECORDS + 64) * BLOCK_SIZE;
    let mut image = vec![0_u8; device_size];
    image[..8].copy_from_slice(b"FEOX_SIG");
    image[8..12].copy_from_slice(&2_u32.to_le_bytes());
    image[32..40].copy_from_slice(&(device_size as u64).to_le_bytes());
    image[40..44].copy_from_slice(&(BLOCK_SIZE as u32).to_le_bytes());

    for index in 0..RECORDS {
        let key = format!("key-{index:06}");
        let value = format!("value-{index:06}-{}", "x".repeat(index % 97));
        let record = v2_record(key.as_bytes(), value.as_bytes(), 1_000 + index as u64, 0);
        assert_eq!(record.len(), BLOCK_SIZE);
        let at = (DATA_START_BLOCK as usize + index) * BLOCK_SIZE;
        image[at..at + BLOCK_SIZE].copy_from_slice(&record);
    }

    let mut file = File::create(path).unwrap();
    file.write_all(&image).unwrap();
    file.sync_all().unwrap();
}

fn temporary_siblings(directory: &Path, destination_name: &str) -> Vec<PathBuf> {
    let prefix = format!(".{destination_name}.feox-migrate-");
    fs::read_dir(directory)
        .unwrap()
        .filter_map(|entry| entry.ok())
        .filter(|entry| entry.file_name().to_string_lossy().starts_with(&prefix))
        .map(|entry| entry.path())
        .collect()
}

#[test]
fn verif_witness_c15_destination_race() {
    let temp = TempDir::new().unwrap();
    let directory = temp.path().to_path_buf();
    let source = directory.join("source.feox");
    let destination = directory.join("destination.feox");
    write_v2_source(&source);
    let source_before = fs::read(&source).unwrap();

    let planted = Arc::new(AtomicBool::new(false));
    let give_up = Arc::new(AtomicBool::new(false));
    let ready = Arc::new(Barrier::new(2));

    let intruder = {
        let planted = Arc::clone(&planted);
        let give_up = Arc::clone(&give_up);
        let ready = Arc::clone(&ready);
        let directory = directory.clone();
        let destination = destination.clone();
        thread::spawn(move || {
            ready.wait();
            let deadline = Instant::now() + Duration::from_secs(30);
            while !give_up.load(Ordering::Acquire) && Instant::now() < deadline {
                if temporary_siblings(&directory, "destination.feox").is_empty() {
                    std::hint::spin_loop();
                    continue;
                }
                // The migration has passed its "destination must not exist" check and is
                // now copying into the temporary sibling. Take the name.
                let mut file = OpenOptions::new()
                    .write(true)
                    .create_new(true)
                    .open(&destination)
                    .expect("destination name should still be free while the copy runs");
                file.write_all(SENTINEL).unwrap();
                file.sync_all().unwrap();
                planted.store(true, Ordering::Release);
                return;
            }
        })
    };

    ready.wait();
    let result = migrate(MigrationOptions::new(&source, &destination));
    give_up.store(true, Ordering::Release);
    intruder.join().unwrap();

    if !planted.load(Ordering::Acquire) {
        eprintln!("witness inconclusive: the temporary sibling was never observed (result: {result:?})");
        return;
    }

    // hard_link() must have refused the occupied name.
    match &result {
        Err(MigrationError::DestinationExists(path)) => assert_eq!(path, &destination),
        other => panic!("expected DestinationExists, got {other:?}"),
    }

    // ... and the file that occupied it is not ours to touch.
    assert!(
        destination.exists(),
        "a failed migration deleted a destination file it did not create"
    );
    assert_eq!(
        fs::read(&destination).unwrap(),
        SENTINEL,
        "a failed migration modified a destination file it did not create"
    );

    // Failure path is otherwise clean and the source is untouched.
    assert!(temporary_siblings(&directory, "destination.feox").is_empty());
    assert_eq!(fs::read(&source).unwrap(), source_before);
}

#[test]
fn undisturbed_migration_of_the_same_image_succeeds() {
    let temp = TempDir::new().unwrap();
    let source = temp.path().join("source.feox");
    let destination = temp.path().join("destination.feox");
    write_v2_source(&source);
    let source_before = fs::read(&source).unwrap();

    let report = migrate(MigrationOptions::new(&source, &destination)).unwrap();

    assert_eq!(report.source_version, 2);
    assert_eq!(report.destination_version, 3);
    assert_eq!(report.records, RECORDS as u64);
    assert!(destination.exists());
    assert!(temporary_siblings(temp.path(), "destination.feox").is_empty());
    assert_eq!(fs::read(&source).unwrap(), source_before);
}
