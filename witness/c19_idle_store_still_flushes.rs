//! Native witness for the bounded wake-up obligation of `site_periodic_coordinator_exits_only_on_shutdown`: a write accepted
//! after a long idle period reaches the device as promptly as one on a fresh store, without any explicit flush. The bound
//! adapts to the machine (6x the control latency, at least 1.5 s) so that load cannot make the witness fail on its own.
//! From the independently seeded demonstration seeded/r5-C19/demo.rs.
use crate::FeoxStore;
use std::path::Path;
use std::thread;
use std::time::{Duration, Instant};

fn device_contains(path: &Path, needle: &[u8]) -> bool {
    let image = std::fs::read(path).unwrap();
    image.windows(needle.len()).any(|w| w == needle)
}

fn wait_until_on_device(path: &Path, needle: &[u8], limit: Duration) -> Option<Duration> {
    let start = Instant::now();
    loop {
        if device_contains(path, needle) {
            return Some(start.elapsed());
        }
        if start.elapsed() >= limit {
            return None;
        }
        thread::sleep(Duration::from_millis(20));
    }
}

#[test]
fn verif_witness_c19_idle_store_still_flushes() {
    let dir = tempfile::tempdir().unwrap();
    let path = dir.path().join("c19.feox");
    let store = FeoxStore::builder().device_path(path.to_str().unwrap()).file_size(8 << 20).build().unwrap();
    let warm_value = b"verif-C19/warm/5d1c0b7e9a2f4c63-value-payload".to_vec();
    store.insert(b"verif-c19-warm", &warm_value).unwrap();
    let Some(warm) = wait_until_on_device(&path, &warm_value, Duration::from_secs(20)) else {
        eprintln!("witness inconclusive: control write not on the device after 20 s");
        return;
    };
    let bound = (warm * 6).max(Duration::from_millis(1500));
    thread::sleep(Duration::from_millis(6500));
    let idle_value = b"verif-C19/after-idle/8e44a1d03b7f4f19-value-payload".to_vec();
    store.insert(b"verif-c19-after-idle", &idle_value).unwrap();
    let after_idle = wait_until_on_device(&path, &idle_value, bound);
    assert!(after_idle.is_some(),
            "a write accepted after 6.5 s of idleness was still only in memory {bound:?} after insert() returned (control write took {warm:?}); no explicit flush was issued");
}
