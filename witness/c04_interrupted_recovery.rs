//! Native witness for "recovery's repairs are ONE journaled transaction" (`c04_scan_prologue_epilogue`,
//! `site_remove_expired_recovery_winners`): recovery is cut inside its own repair writes (RLIMIT_FSIZE lets the journal
//! blocks through and fails every data-area write) and started again; an expired winner must not be retired without the
//! older generation it shadows, or that generation resurfaces. From the independently seeded demonstration seeded/r5-C04/demo.rs.
//! Runs alone in its process (the witness runner filters on this module), so the temporary rlimit affects nothing else.
use std::fs::{self, OpenOptions};
use std::io::{Read, Seek, SeekFrom, Write};
use std::path::Path;
use std::time::Duration;

use crate::error::FeoxError;
use crate::FeoxStore;
use tempfile::TempDir;

const BLOCK: usize = 4096;
const DATA_START_BLOCK: u64 = 16;
const DEVICE_SIZE: u64 = 4 * 1024 * 1024;
const OLD: &[u8] = b"old-generation-without-expiry";
const NEW: &[u8] = b"new-generation-with-short-ttl";

fn open(path: &Path) -> crate::Result<FeoxStore> {
    FeoxStore::builder()
        .device_path(path.to_str().unwrap())
        .file_size(DEVICE_SIZE)
        .enable_ttl(true)
        .build()
}

fn lookup(store: &FeoxStore, key: &[u8]) -> Option<Vec<u8>> {
    match store.get(key) {
        Ok(value) => Some(value),
        Err(FeoxError::KeyNotFound) => None,
        Err(error) => panic!("unexpected error reading {key:?}: {error}"),
    }
}

fn read_block(path: &Path, block: u64) -> Vec<u8> {
    let mut file = OpenOptions::new().read(true).open(path).unwrap();
    file.seek(SeekFrom::Start(block * BLOCK as u64)).unwrap();
    let mut data = vec![0; BLOCK];
    file.read_exact(&mut data).unwrap();
    data
}

fn write_block(path: &Path, block: u64, data: &[u8]) {
    let mut file = OpenOptions::new().write(true).open(path).unwrap();
    file.seek(SeekFrom::Start(block * BLOCK as u64)).unwrap();
    file.write_all(data).unwrap();
    file.sync_all().unwrap();
}

/// Run `body` while every write at or beyond `limit` bytes into a regular file
/// fails with EFBIG. This is the "device-I/O observer" of the test: it lets the
/// allocation journal (blocks 1..=6) through and cuts every data-area write.
fn with_write_limit<T>(limit: u64, body: impl FnOnce() -> T) -> T {
    unsafe {
        libc::signal(libc::SIGXFSZ, libc::SIG_IGN);
        let mut old = std::mem::zeroed::<libc::rlimit>();
        assert_eq!(libc::getrlimit(libc::RLIMIT_FSIZE, &mut old), 0);
        let new = libc::rlimit {
            rlim_cur: limit as libc::rlim_t,
            rlim_max: old.rlim_max,
        };
        assert_eq!(libc::setrlimit(libc::RLIMIT_FSIZE, &new), 0);
        let result = body();
        assert_eq!(libc::setrlimit(libc::RLIMIT_FSIZE, &old), 0);
        result
    }
}

#[test]
fn verif_witness_c04_interrupted_recovery() {
    let temp = TempDir::new().unwrap();
    let before_update = temp.path().join("before_update.feox");
    let image = temp.path().join("image.feox");

    // Workload, part 1: "k" = OLD (no expiry) plus two bystanders.
    {
        let store = open(&before_update).unwrap();
        store.insert(b"a", b"bystander-a").unwrap();
        store.insert(b"k", OLD).unwrap();
        store.insert(b"z", b"bystander-z").unwrap();
        store.flush_all().unwrap();
    }

    // Workload, part 2: "k" replaced by a generation that expires in 1 s.
    fs::copy(&before_update, &image).unwrap();
    {
        let store = open(&image).unwrap();
        assert_eq!(lookup(&store, b"k").as_deref(), Some(OLD));
        store.insert_with_ttl(b"k", NEW, 1).unwrap();
        store.flush_all().unwrap();
    }

    // Crash between the replacement write and the retirement of the replaced
    // extent: the new generation is durable, the old extent still holds g1.
    // Undo the retirement markers by restoring those blocks from the earlier image.
    let total_blocks = DEVICE_SIZE / BLOCK as u64;
    let mut restored = 0;
    for block in DATA_START_BLOCK..total_blocks {
        let now = read_block(&image, block);
        if &now[..8] == b"\0DELETED" {
            let was = read_block(&before_update, block);
            assert_eq!(u16::from_le_bytes([was[0], was[1]]), 0xABCD);
            write_block(&image, block, &was);
            restored += 1;
        }
    }
    assert_eq!(restored, 1, "exactly the replaced generation is restored");

    // Let g2 expire.
    std::thread::sleep(Duration::from_millis(2200));

    // Reference: an uninterrupted recovery of this image.
    let reference = temp.path().join("reference.feox");
    fs::copy(&image, &reference).unwrap();
    {
        let store = open(&reference).unwrap();
        assert_eq!(lookup(&store, b"k"), None, "premise: expired winner hides k");
        assert_eq!(lookup(&store, b"a").as_deref(), Some(&b"bystander-a"[..]));
        assert_eq!(lookup(&store, b"z").as_deref(), Some(&b"bystander-z"[..]));
    }

    // Recovery interrupted inside its own repair writes.
    let crashed = temp.path().join("crashed.feox");
    fs::copy(&image, &crashed).unwrap();
    let interrupted = with_write_limit(DATA_START_BLOCK * BLOCK as u64, || open(&crashed));
    assert!(
        interrupted.is_err(),
        "recovery was expected to be cut at its first data-area write"
    );
    drop(interrupted);

    // Start recovery again on what the interrupted one left on the device (a
    // fresh inode: the crate refuses to reopen a file whose write failed until
    // the process restarts).
    let restarted = temp.path().join("restarted.feox");
    fs::copy(&crashed, &restarted).unwrap();
    for round in 0..2 {
        let store = open(&restarted).unwrap();
        assert_eq!(lookup(&store, b"a").as_deref(), Some(&b"bystander-a"[..]));
        assert_eq!(lookup(&store, b"z").as_deref(), Some(&b"bystander-z"[..]));
        let k = lookup(&store, b"k");
        assert_eq!(
            k.as_ref().map(|value| String::from_utf8_lossy(value).into_owned()),
            None,
            "restarted recovery #{round} disagrees with the uninterrupted one: \
             the replaced generation of k came back"
        );
    }
}
