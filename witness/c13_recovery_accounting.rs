//! Native witness: recovery charges memory for the winning generation only (adapted from the independently seeded demonstration seeded/r2-C13/demo.rs).
// Run with: cd /tmp/mut2/C13 && CARGO_TARGET_DIR=/tmp/mut2/C13/target cargo test --offline --test seeded_C13
// (plain integration test in tests/seeded_C13.rs, public API only, no wiring needed)
//
// C13: after recovery, memory_usage() must equal the sum over live keys of
// (per-record overhead + key length + value length), and return to zero when everything
// is deleted.
//
// Scenario: a crash after the new generation of a key reached the device but before the
// old generation's extent was retired. Both generations are then on disk and recovery
// has to let the newer one win and un-account the older one. The two generations have
// DIFFERENT value lengths.
//
// The crash image is built with the public API plus plain file copying:
//   1. write generation 1 (small value), flush, close, snapshot the device file;
//   2. reopen, overwrite with generation 2 (large value), flush, close
//      (this writes gen 2 to a new extent and retires gen 1's extent);
//   3. put gen 1's extent bytes back from the snapshot at the same sector.

use crate::constants::{FEOX_BLOCK_SIZE, FEOX_DATA_START_BLOCK};
use crate::FeoxStore;
use tempfile::NamedTempFile;

const DEVICE_SIZE: u64 = 2 * 1024 * 1024;
const KEY: &[u8] = b"account:42";

fn open(path: &str) -> FeoxStore {
    FeoxStore::builder()
        .device_path(path.to_string())
        .file_size(DEVICE_SIZE)
        .enable_caching(false)
        .build()
        .unwrap()
}

/// Usage a store reports for exactly one live record `KEY -> value`.
fn reference_usage(value: &[u8]) -> usize {
    let reference = FeoxStore::new(None).unwrap();
    reference.insert(KEY, value).unwrap();
    reference.memory_usage()
}

fn crash_image_with_both_generations(path: &str, small: &[u8], large: &[u8]) {
    {
        let store = open(path);
        store.insert(KEY, small).unwrap();
        store.flush().unwrap();
    }
    let before = std::fs::read(path).unwrap();

    {
        let store = open(path);
        assert_eq!(store.get(KEY).unwrap(), small);
        store.insert(KEY, large).unwrap();
        store.flush().unwrap();
    }
    let mut after = std::fs::read(path).unwrap();
    assert_eq!(before.len(), after.len());

    // Undo only the retirement of generation 1: every data block that held something in
    // the first snapshot and was changed since gets its old bytes back. Generation 2 lives
    // in blocks that were empty in the snapshot, so it is left alone.
    let data_start = FEOX_DATA_START_BLOCK as usize * FEOX_BLOCK_SIZE;
    let mut restored = 0;
    let mut offset = data_start;
    while offset + FEOX_BLOCK_SIZE <= before.len() {
        let old = &before[offset..offset + FEOX_BLOCK_SIZE];
        if old.iter().any(|byte| *byte != 0) && old != &after[offset..offset + FEOX_BLOCK_SIZE] {
            after[offset..offset + FEOX_BLOCK_SIZE].copy_from_slice(old);
            restored += 1;
        }
        offset += FEOX_BLOCK_SIZE;
    }
    assert!(
        restored > 0,
        "scenario not constructed: generation 1 was not retired in place"
    );
    std::fs::write(path, &after).unwrap();
}

#[test]
fn recovery_accounts_only_the_winning_generation() {
    let temp_file = NamedTempFile::new().unwrap();
    let path = temp_file.path().to_str().unwrap().to_string();

    let small = vec![b's'; 10];
    let large = vec![b'L'; 3000];
    crash_image_with_both_generations(&path, &small, &large);

    let store = open(&path);
    assert_eq!(store.get(KEY).unwrap(), large, "newest generation must win");
    assert_eq!(store.len(), 1);
    assert_eq!(
        store.memory_usage(),
        reference_usage(&large),
        "memory_usage after recovery must be that of the single live record"
    );

    store.delete(KEY).unwrap();
    assert_eq!(store.len(), 0);
    assert_eq!(
        store.memory_usage(),
        0,
        "usage must return to zero once everything is deleted"
    );
}

#[test]
fn recovery_accounting_keeps_the_limit_usable() {
    let temp_file = NamedTempFile::new().unwrap();
    let path = temp_file.path().to_str().unwrap().to_string();

    let small = vec![b's'; 10];
    let large = vec![b'L'; 3000];
    crash_image_with_both_generations(&path, &small, &large);

    // Room for the recovered record plus one more of the same size.
    let limit = 2 * reference_usage(&large);
    let store = FeoxStore::builder()
        .device_path(path)
        .file_size(DEVICE_SIZE)
        .enable_caching(false)
        .max_memory(limit)
        .build()
        .unwrap();

    store.delete(KEY).unwrap();
    // An empty store with a generous limit must admit a small write.
    store.insert(b"fresh", b"value").unwrap();
    assert!(store.memory_usage() <= limit);
}
