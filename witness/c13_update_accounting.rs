//! Native witness for the accounting obligation of update_record_with_ttl(_bytes):
//! writer A (ts 300) reads generation R0, is parked after its read; a second writer replaces R0 by R1
//! of a DIFFERENT size with ts 200 < 300; A resumes and publishes. memory_usage must equal the size of
//! the single live record (A's). Deterministic via the crate's own interleaving gate.
use crate::core::store::FeoxStore;
use crate::test_hooks::{gate, AFTER_UPSERT_READ};
use std::sync::mpsc::sync_channel;
use std::sync::Arc;
use std::thread;
use std::time::Duration;

fn expected_usage(value: &[u8]) -> usize {
    let s = FeoxStore::new(None).unwrap();
    s.insert_with_timestamp(b"key", value, Some(300)).unwrap();
    s.memory_usage()
}

fn run(r0: usize, r1: usize, a: usize) {
    let session = gate::session();
    let store = Arc::new(FeoxStore::new(None).unwrap());
    store.insert_with_timestamp(b"key", &vec![1u8; r0], Some(100)).unwrap();
    let (start_tx, start_rx) = sync_channel(0);
    let ws = Arc::clone(&store);
    let va = vec![3u8; a];
    let va2 = va.clone();
    let writer = thread::spawn(move || {
        start_rx.recv().unwrap();
        ws.insert_with_timestamp(b"key", &va2, Some(300))
    });
    let armed = session.arm_for_thread(AFTER_UPSERT_READ, writer.thread().id(), 1);
    start_tx.send(()).unwrap();
    assert!(armed.wait_for_arrivals(1, Duration::from_secs(5)));
    store.insert_with_timestamp(b"key", &vec![2u8; r1], Some(200)).unwrap();
    armed.release();
    writer.join().unwrap().unwrap();
    assert_eq!(store.get(b"key").unwrap(), va);
    assert_eq!(store.memory_usage(), expected_usage(&va), "memory accounting drifted (r0={r0}, r1={r1}, a={a})");
    store.delete_with_timestamp(b"key", Some(400)).unwrap();
    assert_eq!(store.memory_usage(), 0, "usage does not return to zero");
}

#[test]
fn verif_witness_c13_update_accounting() {
    run(16, 4096, 64); // intermediate generation grew
    run(4096, 16, 64); // intermediate generation shrank
    run(64, 64, 4096);
}
