//! Native witness for `site_batch_write_inner_buffers`: after an indeterminate io_uring failure the kernel may still execute
//! the queued writes; the bytes it reads must be the submitted payload, i.e. the in-flight registry must OWN (and leak) them.
//! From the independently seeded demonstration seeded/r5-C20/demo.rs (ring fd redirected to /dev/null, SQPOLL woken through
//! a private dup after the allocator's freed chunks were recycled). Passes vacuously where io_uring/SQPOLL is unavailable.
use std::fs;
use std::os::unix::fs::FileExt;
use std::sync::Arc;
use std::time::{Duration, Instant};

use crate::constants::{FEOX_BLOCK_SIZE, IOURING_SQPOLL_IDLE_MS};
use crate::storage::io::DiskIO;
use crate::FeoxError;

const PAYLOAD: u8 = 0xA5;
const RECYCLED: u8 = 0xEE;
const WRITES: usize = 16;
const FIRST_SECTOR: u64 = 32;
const IORING_ENTER_SQ_WAKEUP: libc::c_uint = 1 << 1;

fn uring_fds() -> Vec<i32> {
    let mut fds = Vec::new();
    for entry in fs::read_dir("/proc/self/fd").unwrap() {
        let entry = entry.unwrap();
        if let Ok(target) = fs::read_link(entry.path()) {
            if target.to_string_lossy().contains("io_uring") {
                fds.push(entry.file_name().to_string_lossy().parse().unwrap());
            }
        }
    }
    fds
}

#[test]
fn verif_witness_c20_inflight_buffers_own_their_bytes() {
    let dir = tempfile::tempdir().unwrap();
    let path = dir.path().join("device.img");
    let file = fs::OpenOptions::new()
        .read(true)
        .write(true)
        .create(true)
        .truncate(true)
        .open(&path)
        .unwrap();
    file.set_len(4 << 20).unwrap();
    let file = Arc::new(file);

    let before = uring_fds();
    let mut disk = DiskIO::new(Arc::clone(&file), false).unwrap();
    let ring_fd = match uring_fds()
        .into_iter()
        .filter(|fd| !before.contains(fd))
        .collect::<Vec<_>>()[..]
    {
        [fd] => fd,
        _ => {
            eprintln!("io_uring is not available here; the in-flight path cannot be exercised");
            return;
        }
    };

    // 2. SQPOLL thread goes to sleep after its idle period.
    std::thread::sleep(Duration::from_millis(IOURING_SQPOLL_IDLE_MS as u64 + 700));

    // 3. Keep the ring alive privately; make the crate's io_uring_enter fail.
    let private_ring = unsafe { libc::dup(ring_fd) };
    assert!(private_ring >= 0);
    unsafe {
        let null = libc::open(c"/dev/null".as_ptr(), libc::O_RDWR);
        assert!(null >= 0);
        assert_eq!(libc::dup2(null, ring_fd), ring_fd);
        libc::close(null);
    }

    // 4. The submission is queued, io_uring_enter fails, outcome unknown.
    let writes: Vec<(u64, Vec<u8>)> = (0..WRITES)
        .map(|i| (FIRST_SECTOR + i as u64, vec![PAYLOAD; FEOX_BLOCK_SIZE]))
        .collect();
    let result = disk.batch_write(writes);
    assert!(
        matches!(result, Err(FeoxError::IndeterminateWrite(_))),
        "expected an indeterminate write, got {result:?}"
    );

    // 5. Whatever the crate released is handed out again and overwritten.
    let recycled: Vec<Vec<u8>> = (0..1024)
        .map(|_| vec![RECYCLED; FEOX_BLOCK_SIZE])
        .collect();

    // 6. The kernel gets to the queued writes only now.
    let woke = unsafe {
        libc::syscall(
            libc::SYS_io_uring_enter,
            private_ring,
            0 as libc::c_uint,
            0 as libc::c_uint,
            IORING_ENTER_SQ_WAKEUP,
            std::ptr::null::<libc::c_void>(),
            0usize,
        )
    };
    assert!(woke >= 0, "wake-up failed: {}", std::io::Error::last_os_error());

    // 7. Wait until the device stops changing, then inspect it.
    let mut image = vec![0u8; WRITES * FEOX_BLOCK_SIZE];
    let deadline = Instant::now() + Duration::from_secs(10);
    let mut written = 0;
    while Instant::now() < deadline {
        std::thread::sleep(Duration::from_millis(100));
        file.read_exact_at(&mut image, FIRST_SECTOR * FEOX_BLOCK_SIZE as u64)
            .unwrap();
        let now_written = image
            .chunks(FEOX_BLOCK_SIZE)
            .filter(|block| block.iter().any(|byte| *byte != 0))
            .count();
        if now_written == WRITES || (now_written > 0 && now_written == written) {
            written = now_written;
            break;
        }
        written = now_written;
    }
    println!("kernel executed {written}/{WRITES} of the queued writes after the failed enter");
    assert!(
        written > 0,
        "inconclusive: the kernel never executed the queued submissions"
    );

    for (index, block) in image.chunks(FEOX_BLOCK_SIZE).enumerate() {
        let foreign = block
            .iter()
            .filter(|byte| **byte != 0 && **byte != PAYLOAD)
            .count();
        assert_eq!(
            foreign,
            0,
            "block {} holds {foreign} bytes that were never submitted (first bytes {:02x?}): \
             the kernel wrote from a buffer that had been released and reused while its \
             submission was still outstanding",
            FIRST_SECTOR + index as u64,
            &block[..8]
        );
    }

    drop(recycled);
    unsafe {
        libc::close(private_ring);
    }
}
