//! Native witness for the cache accounting obligation: replace an entry in place with a value of another
//! length, then remove it – the cache must report exactly 0 bytes and never wrap below zero.
use crate::core::cache::ClockCache;
use crate::stats::Statistics;
use bytes::Bytes;
use std::sync::Arc;

#[test]
fn verif_witness_c16_cache_replace_accounting() {
    for (first, second) in [(16usize, 4096usize), (2048, 8)] {
        let stats = Arc::new(Statistics::new());
        let cache = ClockCache::new(Arc::clone(&stats));
        cache.insert(b"k".to_vec(), Bytes::from(vec![1u8; first]));
        let one = cache.stats().memory_usage;
        cache.insert(b"k".to_vec(), Bytes::from(vec![2u8; second]));
        let two = cache.stats().memory_usage;
        assert_eq!(two as i64 - one as i64, second as i64 - first as i64, "in-place replacement moved the counter by the wrong amount");
        assert_eq!(cache.get(b"k").unwrap().len(), second);
        cache.remove(b"k");
        assert!(cache.get(b"k").is_none());
        assert_eq!(cache.stats().memory_usage, 0, "cache memory does not return to zero ({first} -> {second})");
    }
}
