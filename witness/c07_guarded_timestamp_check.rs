//! Native witness for "ts_new > CURRENT.timestamp under the entry guard": writer A (ts 150) reads the
//! generation with ts 100 and is parked; writer B replaces it with ts 200; A resumes and must be refused –
//! an accepted write never lands on top of a newer timestamp.
use crate::core::store::FeoxStore;
use crate::error::FeoxError;
use crate::test_hooks::{gate, AFTER_UPSERT_READ};
use std::sync::mpsc::sync_channel;
use std::sync::Arc;
use std::thread;
use std::time::Duration;

#[test]
fn verif_witness_c07_guarded_timestamp_check() {
    let session = gate::session();
    let store = Arc::new(FeoxStore::new(None).unwrap());
    store.insert_with_timestamp(b"key", b"base", Some(100)).unwrap();
    let (start_tx, start_rx) = sync_channel(0);
    let ws = Arc::clone(&store);
    let writer = thread::spawn(move || {
        start_rx.recv().unwrap();
        ws.insert_with_timestamp(b"key", b"stale-150", Some(150))
    });
    let armed = session.arm_for_thread(AFTER_UPSERT_READ, writer.thread().id(), 1);
    start_tx.send(()).unwrap();
    assert!(armed.wait_for_arrivals(1, Duration::from_secs(5)));
    store.insert_with_timestamp(b"key", b"newer-200", Some(200)).unwrap();
    armed.release();
    let r = writer.join().unwrap();
    assert!(matches!(r, Err(FeoxError::OlderTimestamp)), "a write with ts 150 was accepted on top of ts 200: {r:?}");
    assert_eq!(store.get(b"key").unwrap(), b"newer-200");
}
