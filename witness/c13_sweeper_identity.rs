//! Native witness for `site_ttl_sweeper_guarded_removal`: the sweeper may remove and un-count only the generation it
//! sampled. Deterministic interleaving through the crate's own gate hook: the sweeper is parked after it sampled an
//! expired record; the key is then replaced by ANOTHER generation (expired as well / live / of a different size);
//! after the sweeper resumes, the accounting must still be exact and the replacement must not have been removed on
//! the sampled generation's behalf.
use crate::error::FeoxError;
use crate::FeoxStore;
use std::sync::{Arc, Barrier};
use std::thread;
use std::time::Duration;

fn park_sweeper_then<F: FnOnce(&FeoxStore)>(store: &Arc<FeoxStore>, between: F) -> (u64, u64) {
    let session = crate::test_hooks::gate::session();
    let start = Arc::new(Barrier::new(2));
    let sweeper_store = Arc::clone(store);
    let sweeper_start = Arc::clone(&start);
    let sweeper = thread::spawn(move || {
        sweeper_start.wait();
        crate::core::ttl_sweep::sample_and_expire_for_test(&sweeper_store)
    });
    let gate = session.arm_for_thread(crate::test_hooks::TTL_AFTER_EXPIRED_SAMPLE, sweeper.thread().id(), 1);
    start.wait();
    assert!(gate.wait_for_arrivals(1, Duration::from_secs(10)), "sweeper did not sample the expired key");
    between(store);
    assert!(gate.release_and_drain(Duration::from_secs(10)));
    sweeper.join().unwrap()
}

#[test]
fn verif_witness_c13_sweeper_identity() {
    // (a) replacement is itself already expired and larger
    let store = Arc::new(FeoxStore::builder().enable_ttl(true).build().unwrap());
    store.insert_with_ttl_and_timestamp(b"k", b"old", 1, Some(1)).unwrap();
    let big = vec![7u8; 5000];
    let (_, expired) = park_sweeper_then(&store, |s| {
        s.insert_with_ttl_and_timestamp(b"k", &big, 1, Some(2)).unwrap();
    });
    assert_eq!(expired, 0, "the sampled generation was replaced: the sweeper must not count a removal for it");
    // the replacement is expired, so it is invisible – but it is still accounted for until somebody removes IT
    assert!(matches!(store.get(b"k"), Err(FeoxError::KeyNotFound)));
    // whoever removes it next (lazy expiry on read above, or this sweep) must un-count exactly its size
    let _ = crate::core::ttl_sweep::sample_and_expire_for_test(&store);
    assert_eq!(store.len(), 0, "expired replacement is gone after a sweep");
    assert_eq!(store.memory_usage(), 0, "memory accounting returns to zero (sampled 3-byte value, replaced by 5000 bytes)");

    // (b) replacement is live: it must survive and be accounted for exactly
    let store = Arc::new(FeoxStore::builder().enable_ttl(true).build().unwrap());
    store.insert_with_ttl_and_timestamp(b"k", b"old", 1, Some(1)).unwrap();
    let baseline = {
        let probe = FeoxStore::builder().enable_ttl(true).build().unwrap();
        probe.insert(b"k", &big).unwrap();
        probe.memory_usage()
    };
    let (_, expired) = park_sweeper_then(&store, |s| {
        s.insert_with_ttl(b"k", &big, 3600).unwrap();
    });
    assert_eq!(expired, 0);
    assert_eq!(store.get(b"k").unwrap(), big, "a live replacement is never removed by the sweeper");
    assert_eq!(store.len(), 1);
    assert_eq!(store.memory_usage(), baseline, "usage = overhead + key + value of the live generation");
    store.delete(b"k").unwrap();
    assert_eq!(store.memory_usage(), 0);

    // (c) replacement expired and SMALLER than the sampled generation
    let store = Arc::new(FeoxStore::builder().enable_ttl(true).build().unwrap());
    store.insert_with_ttl_and_timestamp(b"k", &big, 1, Some(1)).unwrap();
    let _ = park_sweeper_then(&store, |s| {
        s.insert_with_ttl_and_timestamp(b"k", b"x", 1, Some(2)).unwrap();
    });
    let _ = crate::core::ttl_sweep::sample_and_expire_for_test(&store);
    let _ = store.get(b"k");
    assert_eq!(store.len(), 0);
    assert_eq!(store.memory_usage(), 0, "no wrap-around / residue after the smaller replacement was swept");
}
