//! Native witness: the CLOCK sweep stops at the low watermark and spares referenced entries (adapted from the independently seeded demonstration seeded/r2-C16/demo.rs).
// Wiring: copy this file to tests/seeded_C16.rs (integration test, public API only) and run
//   CARGO_TARGET_DIR=/tmp/mut2/C16/target cargo test --offline --test seeded_C16
//
// Property C16 (eviction part): "eviction brings usage down to the low watermark without
// evicting recently referenced entries when unreferenced ones suffice", and the cache's
// reported memory equals the total size of the entries it holds.
//
// Both tests drive ClockCache directly with small watermarks (high 2 MiB, low 1 MiB) and
// 300 KiB values placed in chosen buckets so the CLOCK hand meets them in a known order.

use bytes::Bytes;
use crate::constants::{CACHE_BUCKETS, KB};
use crate::core::cache::ClockCache;
use crate::stats::Statistics;
use crate::utils::hash::murmur3_32;
use std::sync::atomic::Ordering;
use std::sync::Arc;

const VALUE_LEN: usize = 300 * KB;

/// An 8-byte key that the cache places in `bucket`.
fn key_for_bucket(bucket: usize) -> Vec<u8> {
    (0_u64..)
        .map(|candidate| candidate.to_le_bytes().to_vec())
        .find(|key| murmur3_32(key, 0) as usize % CACHE_BUCKETS == bucket)
        .unwrap()
}

fn value() -> Bytes {
    Bytes::from(vec![0xA5_u8; VALUE_LEN])
}

/// Accounted size of one entry (8-byte key, VALUE_LEN value), measured on a scratch cache.
fn entry_size() -> usize {
    let cache = ClockCache::new(Arc::new(Statistics::new()));
    cache.insert(key_for_bucket(0), value());
    cache.stats().memory_usage
}

fn small_cache() -> (ClockCache, Arc<Statistics>) {
    let stats = Arc::new(Statistics::new());
    let cache = ClockCache::new(Arc::clone(&stats));
    cache.adjust_watermarks(2, 1); // high = 2 MiB, low = 1 MiB
    (cache, stats)
}

/// Four equal entries (about 1.2 MiB) against a 1 MiB low watermark: dropping a single entry
/// is enough, so exactly one entry may go and the other three must stay.
#[test]
fn eviction_stops_once_the_low_watermark_is_reached() {
    let size = entry_size();
    let (cache, stats) = small_cache();
    let low = cache.stats().low_watermark;
    assert!(4 * size > low && 3 * size <= low, "test sizing assumption");

    let keys: Vec<Vec<u8>> = [1, 2, 10, 20].iter().map(|b| key_for_bucket(*b)).collect();
    for key in &keys {
        cache.insert(key.clone(), value());
    }
    assert_eq!(cache.stats().memory_usage, 4 * size);

    cache.evict_entries();

    let held: usize = keys.iter().filter(|key| cache.get(key).is_some()).count();
    assert_eq!(
        stats.cache_evictions.load(Ordering::Relaxed),
        1,
        "one eviction brings usage under the low watermark; no more are needed"
    );
    assert_eq!(held, 3, "three of the four entries must survive");
    assert_eq!(cache.stats().memory_usage, held * size);
}

/// One unreferenced entry U and one recently read entry R. Evicting U alone brings usage under
/// the low watermark, so R (and the two fresh inserts) must survive the eviction.
#[test]
fn referenced_entry_survives_when_an_unreferenced_one_suffices() {
    let size = entry_size();
    let (cache, _stats) = small_cache();
    let low = cache.stats().low_watermark;
    assert!(4 * size > low && 3 * size <= low, "test sizing assumption");

    let d1 = key_for_bucket(1);
    let d2 = key_for_bucket(2);
    let u = key_for_bucket(10);
    let r = key_for_bucket(20);
    let w = key_for_bucket(30);
    let x = key_for_bucket(31);

    // Phase 1: age the entries. The sweep clears every reference bit and evicts from the
    // front (d1, possibly d2) until usage is under the low watermark. Whatever it did with the
    // two dummies, drop them explicitly so the state below is the same either way:
    // U and R held, both with their reference bit cleared, hand somewhere before bucket 10.
    for key in [&d1, &d2, &u, &r] {
        cache.insert(key.clone(), value());
    }
    cache.evict_entries();
    cache.remove(&d1);
    cache.remove(&d2);
    assert!(cache.get(&d1).is_none() && cache.get(&d2).is_none());
    assert_eq!(cache.stats().memory_usage, 2 * size, "only U and R are held");

    // Phase 2: R is read (reference bit set), U is not. Two new entries push usage to
    // 4 entries > low watermark, still below the high watermark so insert itself does not evict.
    assert!(cache.get(&r).is_some());
    cache.insert(w.clone(), value());
    cache.insert(x.clone(), value());
    assert_eq!(cache.stats().memory_usage, 4 * size);

    cache.evict_entries();

    // U is unreferenced and comes first: evicting it leaves 3 entries <= low watermark.
    assert!(cache.get(&u).is_none(), "the unreferenced entry is the victim");
    assert!(
        cache.get(&r).is_some(),
        "recently referenced entry was evicted although the unreferenced one sufficed"
    );
    assert!(cache.get(&w).is_some());
    assert!(cache.get(&x).is_some());
    assert_eq!(cache.stats().memory_usage, 3 * size);
}
