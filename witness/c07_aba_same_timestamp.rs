//! Native witness for the pointer-identity clauses of `site_replace_record_if_current` / `site_atomic_increment`:
//! the conditional replacement is conditional on the GENERATION that was read (pointer identity), not on its timestamp.
//! Deterministic ABA through the crate's own gate hook: a JSON patch is parked after it read generation @100; the key is
//! deleted (@200) and re-created with the SAME timestamp 100 and different content; the patch must then be applied to the
//! re-created document, never published from the deleted one. (After the independently seeded demonstration r5-C07.)
use crate::core::store::FeoxStore;
use crate::test_hooks::{gate, AFTER_JSON_PATCH_READ};
use std::sync::mpsc::sync_channel;
use std::sync::Arc;
use std::thread;
use std::time::Duration;

#[test]
fn verif_witness_c07_aba_same_timestamp() {
    let session = gate::session();
    let store = Arc::new(FeoxStore::new(None).unwrap());
    store.insert_with_timestamp(b"json", br#"{"a":0,"b":0}"#, Some(100)).unwrap();

    let (start_tx, start_rx) = sync_channel(0);
    let patch_store = Arc::clone(&store);
    let patcher = thread::spawn(move || {
        start_rx.recv().unwrap();
        patch_store.json_patch_with_timestamp(b"json", br#"[{"op":"replace","path":"/a","value":1}]"#, Some(300))
    });
    let armed = session.arm_for_thread(AFTER_JSON_PATCH_READ, patcher.thread().id(), 1);
    start_tx.send(()).unwrap();
    assert!(armed.wait_for_arrivals(1, Duration::from_secs(10)));

    store.delete_with_timestamp(b"json", Some(200)).unwrap();
    assert!(store.insert_with_timestamp(b"json", br#"{"a":0,"b":2}"#, Some(100)).unwrap());
    armed.release();
    patcher.join().unwrap().expect("a patch newer than every other write is accepted");

    let value: serde_json::Value = serde_json::from_slice(&store.get(b"json").unwrap()).unwrap();
    assert_eq!(value["b"], serde_json::json!(2),
               "the acknowledged re-creation was lost: the patch was published from the deleted generation (same timestamp, different record)");
    assert_eq!(value["a"], serde_json::json!(1));
}
