//! Native witness for C15: offline migration is a faithful, verified, non-destructive copy.
//!
//! A synthesised v2 (and v1) image with more records than one 256-record scan batch, duplicates in both orders,
//! an expired newest generation, multi-block values, timestamp 0, a pending-retirement extent, an active
//! allocation journal and (optionally) an ambiguous all-zero deletion marker is migrated; the destination is then
//! decoded INDEPENDENTLY of the migration's own verification and compared with a newest-timestamp-wins reference
//! computed from the list of records that were written into the image.

use std::collections::BTreeMap;
use std::fs::{self, File, OpenOptions};
use std::io::{Read, Seek, SeekFrom, Write};
use std::path::Path;
use std::sync::atomic::Ordering;

use tempfile::TempDir;

use crate::constants::{DELETION_MARKER, FEOX_BLOCK_SIZE, FEOX_DATA_START_BLOCK, SECTOR_MARKER};
use crate::core::record::Record;
use crate::storage::allocation_journal::{encode_active, ALLOCATION_JOURNAL_START_BLOCK};
use crate::storage::format::{get_format_ref, pending_retirement_block};
use crate::storage::metadata::Metadata;
use crate::{migrate, MigrationError, MigrationOptions};

const DEVICE_SIZE: u64 = 8 * 1024 * 1024;

fn initialize_device(path: &Path, version: u32, device_size: u64) {
    let mut metadata = Metadata::new();
    metadata.version = version;
    metadata.device_size = device_size;
    metadata.update();
    let mut encoded = metadata.encode();
    if version < 3 {
        encoded[64..].fill(0);
    }
    let mut file = File::create(path).unwrap();
    file.set_len(device_size).unwrap();
    file.write_all(&encoded).unwrap();
    file.sync_all().unwrap();
}

fn serialized_record(version: u32, key: &[u8], value: &[u8], timestamp: u64, ttl_expiry: u64) -> Vec<u8> {
    let format = get_format_ref(version);
    let record = Record::new(key.to_vec(), value.to_vec(), timestamp);
    record.ttl_expiry.store(ttl_expiry, Ordering::Release);
    let mut bytes = Vec::new();
    bytes.extend_from_slice(&SECTOR_MARKER.to_le_bytes());
    bytes.extend_from_slice(&0_u16.to_le_bytes());
    bytes.extend_from_slice(&format.serialize_record(&record, true));
    bytes.resize(bytes.len().div_ceil(FEOX_BLOCK_SIZE) * FEOX_BLOCK_SIZE, 0);
    bytes
}

fn write_at(file: &mut File, sector: u64, bytes: &[u8]) {
    file.seek(SeekFrom::Start(sector * FEOX_BLOCK_SIZE as u64)).unwrap();
    file.write_all(bytes).unwrap();
}

type Decoded = BTreeMap<Vec<u8>, (Vec<u8>, u64, u64)>;

/// independent decode of a v3 file: every record extent found by walking the data area
fn decode_v3(path: &Path) -> Vec<(Vec<u8>, Vec<u8>, u64, u64)> {
    let format = get_format_ref(3);
    let mut file = File::open(path).unwrap();
    let total_sectors = file.metadata().unwrap().len() / FEOX_BLOCK_SIZE as u64;
    let mut sector = FEOX_DATA_START_BLOCK;
    let mut out = Vec::new();
    while sector < total_sectors {
        let mut head = vec![0; FEOX_BLOCK_SIZE];
        file.seek(SeekFrom::Start(sector * FEOX_BLOCK_SIZE as u64)).unwrap();
        file.read_exact(&mut head).unwrap();
        if u16::from_le_bytes([head[0], head[1]]) != SECTOR_MARKER {
            sector += 1;
            continue;
        }
        let Some((key, value_len, timestamp, ttl_expiry)) = format.parse_record(&head) else {
            sector += 1;
            continue;
        };
        let extent_size = format.total_size(key.len(), value_len).div_ceil(FEOX_BLOCK_SIZE) * FEOX_BLOCK_SIZE;
        let mut extent = vec![0; extent_size];
        file.seek(SeekFrom::Start(sector * FEOX_BLOCK_SIZE as u64)).unwrap();
        file.read_exact(&mut extent).unwrap();
        let off = format.value_offset(key.len());
        out.push((key, extent[off..off + value_len].to_vec(), timestamp, ttl_expiry));
        sector += (extent_size / FEOX_BLOCK_SIZE) as u64;
    }
    out
}

fn dir_entries(dir: &Path) -> Vec<String> {
    let mut names: Vec<String> = fs::read_dir(dir).unwrap().map(|e| e.unwrap().file_name().to_string_lossy().into_owned()).collect();
    names.sort();
    names
}

/// writes the image; returns the newest-timestamp-wins reference of the records that are LIVE in it
fn build_image(path: &Path, version: u32, ambiguous_marker: bool) -> Decoded {
    initialize_device(path, version, DEVICE_SIZE);
    let mut file = OpenOptions::new().write(true).open(path).unwrap();
    let mut sector = FEOX_DATA_START_BLOCK;
    let mut live: Vec<(Vec<u8>, Vec<u8>, u64, u64)> = Vec::new();
    let put = |file: &mut File, sector: &mut u64, key: &[u8], value: &[u8], ts: u64, exp: u64, counted: bool, live: &mut Vec<(Vec<u8>, Vec<u8>, u64, u64)>| {
        // the v1 record layout has no expiry field
        let exp = if version == 1 { 0 } else { exp };
        let bytes = serialized_record(version, key, value, ts, exp);
        write_at(file, *sector, &bytes);
        *sector += (bytes.len() / FEOX_BLOCK_SIZE) as u64;
        if counted {
            live.push((key.to_vec(), value.to_vec(), ts, exp));
        }
    };

    // records masked by an ACTIVE allocation journal: must not be migrated. The journal lists its extents in
    // DESCENDING sector order (the on-disk format allows any order) with a live record between them.
    let ghost_low = sector;
    put(&mut file, &mut sector, b"ghost-journal-low", b"discard", 900, 0, false, &mut live);
    put(&mut file, &mut sector, b"between-journal-extents", b"kept", 5, 0, true, &mut live);
    let ghost_high = sector;
    put(&mut file, &mut sector, b"ghost-journal-high", &vec![9u8; FEOX_BLOCK_SIZE + 10], 902, 0, false, &mut live);
    write_at(&mut file, ALLOCATION_JOURNAL_START_BLOCK, &encode_active(1, &[(ghost_high, 2), (ghost_low, 1)]).unwrap());

    // a pending retirement of 3 blocks that still contains a record header in its tail
    write_at(&mut file, sector, &pending_retirement_block(sector, 3));
    let tail = serialized_record(version, b"ghost-retired", b"discard", 901, 0);
    write_at(&mut file, sector + 1, &tail);
    sector += 3;

    if ambiguous_marker {
        let mut marker = vec![0; FEOX_BLOCK_SIZE];
        marker[..DELETION_MARKER.len()].copy_from_slice(DELETION_MARKER);
        write_at(&mut file, sector, &marker);
        sector += 1;
    }

    // 300 keys: more than one 256-record batch in copy, verify and layout computation
    for i in 0..300u64 {
        let key = format!("k{:03}", i).into_bytes();
        let len = if i % 50 == 7 { FEOX_BLOCK_SIZE + 137 + i as usize } else { 1 + (i as usize % 40) };
        let value: Vec<u8> = (0..len).map(|b| (b as u64 * 31 + i) as u8).collect();
        // timestamp 0 for the first key; absolute expiries: none, long past (1), far future, and a large odd value
        let ts = i * 7;
        let exp = match i % 4 {
            0 => 0,
            1 => 1,
            2 => u64::MAX / 3,
            _ => 61_000_000_003 + i,
        };
        if i % 10 == 3 {
            // an OLDER generation before the winner
            put(&mut file, &mut sector, &key, b"older-before", ts.saturating_sub(1), 0, false, &mut live);
        }
        put(&mut file, &mut sector, &key, &value, ts + 1, exp, true, &mut live);
        if i % 10 == 6 {
            // a STALE generation after the winner (different length, no expiry): must lose although it is scanned last
            put(&mut file, &mut sector, &key, b"stale-after-the-winner", ts, 0, false, &mut live);
        }
    }
    // an expired newest generation over an unexpired older one: the expired one is what must be migrated
    put(&mut file, &mut sector, b"winner-expired", b"old-but-alive", 10, 0, false, &mut live);
    put(&mut file, &mut sector, b"winner-expired", b"expired", 20, 1, true, &mut live);
    // timestamp exactly 0 with a value
    put(&mut file, &mut sector, b"ts-zero", b"zero", 0, 0, true, &mut live);
    file.sync_all().unwrap();
    assert!(sector * (FEOX_BLOCK_SIZE as u64) < DEVICE_SIZE);

    let mut reference = Decoded::new();
    for (k, v, ts, exp) in live {
        assert!(reference.insert(k, (v, ts, exp)).is_none());
    }
    reference
}

fn check_faithful(version: u32) {
    let temp = TempDir::new().unwrap();
    let source = temp.path().join("source.feox");
    let destination = temp.path().join("destination.feox");
    let reference = build_image(&source, version, false);
    let before = fs::read(&source).unwrap();

    let report = migrate(MigrationOptions::new(&source, &destination).hash_bits(6)).unwrap();

    assert_eq!(fs::read(&source).unwrap(), before, "source bytes changed");
    assert_eq!(report.source_version, version);
    assert_eq!(report.records, reference.len() as u64, "report.records");
    let decoded = decode_v3(&destination);
    assert_eq!(decoded.len(), reference.len(), "the destination holds exactly one extent per live key");
    let mut seen = Decoded::new();
    for (k, v, ts, exp) in decoded {
        assert!(seen.insert(k, (v, ts, exp)).is_none(), "duplicate key in the destination");
    }
    for (k, want) in &reference {
        let got = seen.get(k).unwrap_or_else(|| panic!("key {:?} missing in the destination", String::from_utf8_lossy(k)));
        assert_eq!(got.1, want.1, "timestamp of {:?}", String::from_utf8_lossy(k));
        assert_eq!(got.2, want.2, "absolute expiry of {:?}", String::from_utf8_lossy(k));
        assert!(got.0 == want.0, "value of {:?}", String::from_utf8_lossy(k));
    }
    assert_eq!(dir_entries(temp.path()), vec!["destination.feox".to_string(), "source.feox".to_string()], "temporary files left behind");

    // the destination opened as a store yields the same contents (TTL off: expired generations stay visible as records)
    let opened = crate::FeoxStore::builder().hash_bits(6).device_path(destination.to_str().unwrap()).enable_caching(false).build().unwrap();
    assert_eq!(opened.len(), reference.len());
    for (k, want) in &reference {
        assert_eq!(opened.get(k).unwrap(), want.0);
    }
    drop(opened);

    // an existing destination is never overwritten
    let dest_before = fs::read(&destination).unwrap();
    let error = migrate(MigrationOptions::new(&source, &destination).hash_bits(6)).unwrap_err();
    assert!(matches!(error, MigrationError::DestinationExists(_)), "{error:?}");
    assert!(fs::read(&destination).unwrap() == dest_before, "existing destination modified");
    assert_eq!(fs::read(&source).unwrap(), before);
    assert_eq!(dir_entries(temp.path()), vec!["destination.feox".to_string(), "source.feox".to_string()]);
}

#[test]
fn v2_image_is_migrated_faithfully() {
    check_faithful(2);
}

#[test]
fn v1_image_is_migrated_faithfully() {
    check_faithful(1);
}

#[test]
fn ambiguous_markers_fail_cleanly_unless_allowed() {
    let temp = TempDir::new().unwrap();
    let source = temp.path().join("source.feox");
    let destination = temp.path().join("destination.feox");
    let reference = build_image(&source, 2, true);
    let before = fs::read(&source).unwrap();

    let error = migrate(MigrationOptions::new(&source, &destination).hash_bits(6)).unwrap_err();
    assert!(matches!(error, MigrationError::AmbiguousLegacyRecovery), "{error:?}");
    assert!(!destination.exists(), "a failed migration left a destination");
    assert_eq!(dir_entries(temp.path()), vec!["source.feox".to_string()], "a failed migration left files behind");
    assert_eq!(fs::read(&source).unwrap(), before);

    let report = migrate(MigrationOptions::new(&source, &destination).allow_ambiguous_legacy_recovery(true).hash_bits(6)).unwrap();
    assert_eq!(report.ambiguous_legacy_markers, 1);
    assert_eq!(report.records, reference.len() as u64);
    assert_eq!(decode_v3(&destination).len(), reference.len());
    assert_eq!(fs::read(&source).unwrap(), before);
}

#[test]
fn current_format_source_is_refused_without_creating_anything() {
    let temp = TempDir::new().unwrap();
    let source = temp.path().join("source.feox");
    let destination = temp.path().join("destination.feox");
    initialize_device(&source, 3, DEVICE_SIZE);
    let before = fs::read(&source).unwrap();
    let error = migrate(MigrationOptions::new(&source, &destination).hash_bits(6)).unwrap_err();
    assert!(matches!(error, MigrationError::CurrentFormat(3)), "{error:?}");
    assert_eq!(dir_entries(temp.path()), vec!["source.feox".to_string()]);
    assert_eq!(fs::read(&source).unwrap(), before);
}
