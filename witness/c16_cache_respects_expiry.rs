//! Native witness for `site_resolve_record_value_expiry` under C16/C11: a cached value is never served for a generation
//! whose expiry has passed – cache on and cache off give the same answers across the expiry instant, for every
//! value-reading call, with the value resident or only on disk. (After the independently seeded demonstration
//! seeded/r5-C16/demo.rs; the expiry is placed ~0.6 s ahead through an explicit timestamp to keep the run short.)
use crate::error::FeoxError;
use crate::FeoxStore;
use std::time::{Duration, SystemTime, UNIX_EPOCH};
use tempfile::NamedTempFile;

fn now_ns() -> u64 {
    SystemTime::now().duration_since(UNIX_EPOCH).unwrap().as_nanos() as u64
}

fn outcome(r: crate::Result<Vec<u8>>) -> Option<Vec<u8>> {
    match r {
        Ok(v) => Some(v),
        Err(FeoxError::KeyNotFound) => None,
        Err(e) => panic!("unexpected error {e}"),
    }
}

fn workload(cache: bool, flush_first: bool) -> Option<Vec<Option<Vec<u8>>>> {
    let file = NamedTempFile::new().unwrap();
    let store = FeoxStore::builder()
        .device_path(file.path().to_string_lossy().into_owned())
        .file_size(8 << 20)
        .enable_ttl(true)
        .enable_caching(cache)
        .build()
        .unwrap();
    let mut trace = Vec::new();
    // expiry = ts + 1 s = now + ~0.6 s
    let ts = now_ns() - 400_000_000;
    store.insert_with_ttl_and_timestamp(b"session", &[b'S'; 300], 1, Some(ts)).unwrap();
    store.insert_with_ttl_and_timestamp(b"counter", &7i64.to_le_bytes(), 1, Some(ts)).unwrap();
    store.insert(b"permanent", &[b'P'; 300]).unwrap();
    if flush_first {
        store.flush().unwrap(); // values live on disk only
    }
    for _ in 0..2 {
        trace.push(outcome(store.get(b"session")));
        trace.push(outcome(store.get_bytes(b"session").map(|v| v.to_vec())));
        trace.push(outcome(store.get(b"counter")));
        trace.push(outcome(store.get(b"permanent")));
    }
    if now_ns() >= ts + 1_000_000_000 {
        return None; // machine too slow for this timing: the live reads ran past the expiry – nothing can be concluded
    }
    std::thread::sleep(Duration::from_millis(900));
    trace.push(outcome(store.get(b"session")));
    trace.push(outcome(store.get_bytes(b"session").map(|v| v.to_vec())));
    trace.push(store.range_query(b"a", b"z", 10).unwrap().into_iter().find(|(k, _)| k == b"session").map(|(_, v)| v));
    trace.push(outcome(store.compare_and_swap(b"session", &[b'S'; 300], b"x").map(|ok| vec![ok as u8])));
    trace.push(outcome(store.get(b"permanent")));
    Some(trace)
}

#[test]
fn verif_witness_c16_cache_respects_expiry() {
    for flush_first in [true, false] {
        let (Some(off), Some(on)) = (workload(false, flush_first), workload(true, flush_first)) else {
            eprintln!("witness inconclusive: timing");
            return;
        };
        assert_eq!(off[8], None, "reference (cache off): an expired key reads as missing");
        assert_eq!(off[9], None);
        assert_eq!(off[10], None, "expired key absent from range queries");
        assert_eq!(on, off, "cache on/off give different answers across the expiry instant (values flushed to disk first: {flush_first})");
    }
}
