// VERIF-MOUNT: src/core/store/mod.rs
//! Native witness for the lock-order obligation of C18: no thread waits for the DEVICE lock while it holds the
//! ALLOCATOR (free-space) lock. The failure paths of the write buffer nest device -> allocator, so the opposite
//! nesting anywhere is one half of a deadlock cycle.
//!
//! The test holds the device lock itself (a gate), lets flush()/delete/insert callers and the flush workers run
//! until they are parked on it, and then asks for the allocator lock exclusively: that must succeed promptly,
//! because nobody who is parked on the device lock may be holding the allocator. Releasing the gate, every caller
//! must then finish (watchdog).

use std::sync::mpsc;
use std::sync::Arc;
use std::thread;
use std::time::Duration;

use tempfile::NamedTempFile;

use super::FeoxStore;

fn open(path: &str) -> Arc<FeoxStore> {
    Arc::new(FeoxStore::builder().hash_bits(6).device_path(path.to_string()).file_size(8 * 1024 * 1024).build().unwrap())
}

fn run_scenario(name: &str, prepare: impl Fn(&FeoxStore), op: impl Fn(&FeoxStore) + Send + Sync + 'static) {
    let file = NamedTempFile::new().unwrap();
    let store = open(&file.path().to_string_lossy());
    prepare(&store);
    let device = Arc::clone(store.disk_io.as_ref().unwrap());
    let op = Arc::new(op);
    let (tx, rx) = mpsc::channel();
    let gate = device.write();
    let mut callers = Vec::new();
    for _ in 0..2 {
        let (store, op, tx) = (Arc::clone(&store), Arc::clone(&op), tx.clone());
        callers.push(thread::spawn(move || {
            op(&store);
            let _ = tx.send(());
        }));
    }
    // let the callers and the flush workers run into the gate
    thread::sleep(Duration::from_millis(500));
    let allocator = store.free_space.try_write_for(Duration::from_millis(1500));
    let free = allocator.is_some();
    drop(allocator);
    drop(gate);
    assert!(free, "{name}: the allocator lock is held by a thread that is waiting for the device lock");
    for _ in 0..2 {
        assert!(rx.recv_timeout(Duration::from_secs(20)).is_ok(), "{name}: a caller did not finish within 20 s of the device lock being released");
    }
    for c in callers {
        c.join().unwrap();
    }
}

#[test]
fn flush_of_an_idle_store() {
    run_scenario("flush (metadata only)", |_| {}, |s| s.flush().unwrap());
}

#[test]
fn flush_with_buffered_writes() {
    run_scenario(
        "flush with buffered writes",
        |s| {
            for i in 0..64u32 {
                s.insert(format!("k{i:03}").as_bytes(), &vec![i as u8; 100 + 97 * i as usize]).unwrap();
            }
        },
        |s| s.flush().unwrap(),
    );
}

#[test]
fn flush_with_pending_deletions_and_updates() {
    run_scenario(
        "flush with retirements",
        |s| {
            for i in 0..64u32 {
                s.insert(format!("k{i:03}").as_bytes(), &vec![i as u8; 300]).unwrap();
            }
            s.flush().unwrap();
            for i in 0..64u32 {
                if i % 2 == 0 {
                    s.delete(format!("k{i:03}").as_bytes()).unwrap();
                } else {
                    s.insert(format!("k{i:03}").as_bytes(), &vec![7; 5000]).unwrap();
                }
            }
        },
        |s| s.flush().unwrap(),
    );
}

#[test]
fn reads_of_offloaded_values() {
    run_scenario(
        "get of a flushed value",
        |s| {
            for i in 0..16u32 {
                s.insert(format!("k{i:03}").as_bytes(), &vec![i as u8; 9000]).unwrap();
            }
            s.flush().unwrap();
        },
        |s| {
            for i in 0..16u32 {
                let _ = s.get(format!("k{i:03}").as_bytes());
            }
            s.flush().unwrap();
        },
    );
}
