//! Native witness: a key pinned at u64::MAX does not exhaust its clock shard across a restart (adapted from the independently seeded demonstration seeded/r2-C12/demo.rs).
// Run with: CARGO_TARGET_DIR=/tmp/mut2/C12/target cargo test --offline --test seeded_C12
// (integration test, public API only; place this file at tests/seeded_C12.rs)
//
// C12: a key deliberately pinned at the maximum timestamp may reject automatic
// writes to *itself*, but after a restart every *other* key must still get
// strictly increasing automatic versions and never be rejected as older.

use crate::{FeoxError, FeoxStore};
use tempfile::NamedTempFile;

const PROBE_KEYS: u32 = 1024;

fn probe_key(index: u32) -> Vec<u8> {
    format!("probe:{index:05}").into_bytes()
}

#[test]
fn pinned_key_recovered_from_disk_does_not_exhaust_other_keys() {
    let temp_file = NamedTempFile::new().unwrap();
    let path = temp_file.path().to_string_lossy().into_owned();

    {
        let store = FeoxStore::builder()
            .device_path(path.clone())
            .file_size(128 * 1024 * 1024)
            .build()
            .unwrap();
        store
            .insert_with_timestamp(b"pinned", b"terminal", Some(u64::MAX))
            .unwrap();
        // Same session: the pin is local to the key (the existing suite checks this too).
        for index in 0..PROBE_KEYS {
            let key = probe_key(index);
            store.insert(&key, b"a").unwrap();
            store.insert(&key, b"b").unwrap();
        }
        store.flush().unwrap();
    }

    // Clean restart: the pinned record is recovered from disk.
    let store = FeoxStore::builder().device_path(path).build().unwrap();
    assert_eq!(store.get(b"pinned").unwrap(), b"terminal");
    assert!(matches!(
        store.insert(b"pinned", b"new"),
        Err(FeoxError::OlderTimestamp)
    ));

    // No other key was pinned, so automatic writes, deletes, increments, swaps
    // and re-creations on them must all be accepted, whatever clock shard they share.
    for index in 0..PROBE_KEYS {
        let key = probe_key(index);
        store
            .insert(&key, b"c")
            .unwrap_or_else(|error| panic!("update of {index} rejected: {error:?}"));
        assert!(
            store
                .compare_and_swap(&key, b"c", b"d")
                .unwrap_or_else(|error| panic!("swap of {index} rejected: {error:?}")),
            "swap of {index} did not apply"
        );
        store
            .delete(&key)
            .unwrap_or_else(|error| panic!("delete of {index} rejected: {error:?}"));

        let fresh = format!("fresh:{index:05}").into_bytes();
        store
            .insert(&fresh, b"first")
            .unwrap_or_else(|error| panic!("create of fresh {index} rejected: {error:?}"));
        store
            .insert(&fresh, b"second")
            .unwrap_or_else(|error| panic!("second write of fresh {index} rejected: {error:?}"));
        assert_eq!(store.get(&fresh).unwrap(), b"second");
    }
}
