//! Native witness for the intent-journal coverage obligation of `site_process_write_batch_protocol`: every record write –
//! one-block records included – is announced in the allocation journal, so a sector-torn block write is repaired by replay
//! instead of making the file unopenable. Crash images: last acknowledged image + the intent slot the store really wrote +
//! six sector-tear masks of the one changed data block. From the independently seeded demonstration seeded/r5-C03/demo.rs.
use std::fs;

use crate::error::FeoxError;
use crate::FeoxStore;
use tempfile::TempDir;

const BLOCK: usize = 4096;
const SECTOR: usize = 512;
const DATA_START_BLOCK: usize = 16;
const DEVICE_SIZE: u64 = 4 * 1024 * 1024;

const JOURNAL_START_BLOCK: usize = 1;
const JOURNAL_SLOT_BLOCKS: usize = 3;
const JOURNAL_SLOTS: usize = 2;
const JOURNAL_MAGIC: &[u8; 8] = b"\0FEOXAJ1";
const JOURNAL_ACTIVE: u32 = 1;

const BASE_KEY: &[u8] = b"base";
const BASE_VALUE: &[u8] = b"base-value";
const FRESH_KEY: &[u8] = b"fresh";

fn open(path: &str) -> crate::Result<FeoxStore> {
    FeoxStore::builder()
        .device_path(path.to_string())
        .file_size(DEVICE_SIZE)
        .hash_bits(10)
        .enable_caching(false)
        .build()
}

fn slot_range(slot: usize) -> std::ops::Range<usize> {
    let start = (JOURNAL_START_BLOCK + slot * JOURNAL_SLOT_BLOCKS) * BLOCK;
    start..start + JOURNAL_SLOT_BLOCKS * BLOCK
}

/// (generation, state) of a journal slot that carries the journal magic.
fn slot_header(image: &[u8], slot: usize) -> Option<(u64, u32)> {
    let bytes = &image[slot_range(slot)];
    if &bytes[..8] != JOURNAL_MAGIC {
        return None;
    }
    let generation = u64::from_le_bytes(bytes[16..24].try_into().unwrap());
    let state = u32::from_le_bytes(bytes[24..28].try_into().unwrap());
    Some((generation, state))
}

fn newest_generation(image: &[u8]) -> u64 {
    (0..JOURNAL_SLOTS)
        .filter_map(|slot| slot_header(image, slot))
        .map(|(generation, _)| generation)
        .max()
        .unwrap_or(0)
}

/// A value that fills the record's single block and is non-zero in every sector,
/// so every sector of the block write carries bytes the record token depends on.
fn one_block_value() -> Vec<u8> {
    (0..3900).map(|i| (i % 251) as u8 + 1).collect()
}

#[test]
fn verif_witness_c03_torn_single_block_write() {
    let dir = TempDir::new().unwrap();
    let live = dir.path().join("live.feox");
    let live = live.to_str().unwrap();
    let value = one_block_value();

    let (before, after) = {
        let store = open(live).unwrap();
        store.insert(BASE_KEY, BASE_VALUE).unwrap();
        store.flush().unwrap();
        let before = fs::read(live).unwrap();

        store.insert(FRESH_KEY, &value).unwrap();
        store.flush().unwrap();
        let after = fs::read(live).unwrap();
        (before, after)
    };
    assert_eq!(before.len(), DEVICE_SIZE as usize);
    assert_eq!(after.len(), DEVICE_SIZE as usize);

    // The insert touched exactly one data block: the new one-block record.
    let changed: Vec<usize> = (DATA_START_BLOCK..after.len() / BLOCK)
        .filter(|b| before[b * BLOCK..(b + 1) * BLOCK] != after[b * BLOCK..(b + 1) * BLOCK])
        .collect();
    assert_eq!(changed.len(), 1, "expected one new data block, got {changed:?}");
    let block = changed[0];

    // The intent record, if the store wrote one, is the first journal write after
    // `before`: an ACTIVE slot whose generation directly follows the newest one in
    // `before`. The later CLEAR went to the other slot, so the intent is still in Q.
    let intent_generation = newest_generation(&before) + 1;
    let intent_slot = (0..JOURNAL_SLOTS).find(|&slot| {
        slot_header(&after, slot) == Some((intent_generation, JOURNAL_ACTIVE))
            && before[slot_range(slot)] != after[slot_range(slot)]
    });

    // Which of the block's eight sectors reached the platter before the crash.
    let tears: [u8; 6] = [
        0b0000_0001, // only the head sector
        0b0000_1111, // first half
        0b0111_1111, // all but the last sector
        0b1010_1011, // head plus a scattering
        0b1111_1110, // everything but the head sector
        0b1111_1111, // the whole block, crash before the journal clear
    ];

    for tear in tears {
        let mut image = before.clone();
        if let Some(slot) = intent_slot {
            image[slot_range(slot)].copy_from_slice(&after[slot_range(slot)]);
        }
        for sector in 0..BLOCK / SECTOR {
            if tear & (1 << sector) != 0 {
                let at = block * BLOCK + sector * SECTOR;
                image[at..at + SECTOR].copy_from_slice(&after[at..at + SECTOR]);
            }
        }

        let crashed = dir.path().join(format!("crash-{tear:08b}.feox"));
        fs::write(&crashed, &image).unwrap();

        let store = match open(crashed.to_str().unwrap()) {
            Ok(store) => store,
            Err(error) => panic!(
                "crash image with sectors {tear:08b} of block {block} landed cannot be reopened: {error:?}"
            ),
        };

        assert_eq!(
            store.get(BASE_KEY).unwrap(),
            BASE_VALUE,
            "acknowledged key lost, tear {tear:08b}"
        );
        let mut exposed = 1;
        match store.get(FRESH_KEY) {
            Ok(found) => {
                assert_eq!(found, value, "half-written record surfaced, tear {tear:08b}");
                exposed += 1;
            }
            Err(FeoxError::KeyNotFound) => {}
            Err(error) => panic!("unexpected error for tear {tear:08b}: {error:?}"),
        }
        assert_eq!(store.len(), exposed, "len() disagrees, tear {tear:08b}");
    }
}
