//! Native witness for "a call that fails publishes nothing and changes no shared state": a not-yet-flushed
//! key is overwritten with a value the memory limit refuses; after flush and a clean reopen the key must
//! still read as its last accepted value. (Scenario from the independently seeded demonstration r2-C01.)
use crate::core::store::FeoxStore;
use crate::error::FeoxError;

#[test]
fn verif_witness_c01_failed_overwrite_is_harmless() {
    let dir = tempfile::tempdir().unwrap();
    let path = dir.path().join("c01.feox").to_string_lossy().into_owned();
    let too_big = vec![0x5a_u8; 256 * 1024];
    let key = |i: usize| format!("k-{i}").into_bytes();
    let small = |i: usize| format!("small-{i}").into_bytes();
    {
        let store = FeoxStore::builder().device_path(path.clone()).file_size(16 * 1024 * 1024).max_memory(64 * 1024).build().unwrap();
        for i in 0..8 {
            assert!(store.insert(&key(i), &small(i)).unwrap());
            assert!(matches!(store.insert(&key(i), &too_big), Err(FeoxError::OutOfMemory)));
            assert_eq!(store.get(&key(i)).unwrap(), small(i));
        }
        store.flush().unwrap();
        assert_eq!(store.len(), 8);
    }
    let store = FeoxStore::builder().device_path(path).max_memory(64 * 1024).build().unwrap();
    for i in 0..8 {
        assert_eq!(store.get(&key(i)).ok(), Some(small(i)), "key {i} changed after a rejected overwrite + flush + reopen");
    }
    assert_eq!(store.len(), 8);
}

/// A failing call's explicit timestamp must not be absorbed into the version clock (C12): both insert paths, a
/// future timestamp and `u64::MAX - 1`. (Scenarios from the independently seeded demonstration r5-C12.)
#[test]
fn verif_witness_c01_failed_overwrite_is_harmless_clock() {
    const HOUR: u64 = 3_600_000_000_000;
    let limit = |key: &[u8]| {
        let probe = FeoxStore::builder().build().unwrap();
        probe.insert(key, b"a").unwrap();
        probe.memory_usage()
    };
    for bytes_path in [false, true] {
        let key = b"clock_future";
        let store = FeoxStore::builder().max_memory(limit(key)).build().unwrap();
        store.insert(key, b"a").unwrap();
        let now = store.get_timestamp_pub();
        let refused = if bytes_path {
            store.insert_bytes_with_timestamp(key, crate::Bytes::from_static(b"bb"), Some(now + 2 * HOUR))
        } else {
            store.insert_with_timestamp(key, b"bb", Some(now + 2 * HOUR))
        };
        assert!(matches!(refused, Err(FeoxError::OutOfMemory)));
        assert_eq!(store.get(key).unwrap(), b"a");
        store.insert(key, b"b").unwrap();
        store
            .insert_with_timestamp(key, b"c", Some(now + HOUR))
            .expect("the timestamp of a FAILED call was absorbed into the clock: a legitimate newer explicit version is refused as older");

        let key = b"clock_extreme";
        let store = FeoxStore::builder().max_memory(limit(key)).build().unwrap();
        store.insert(key, b"a").unwrap();
        let refused = if bytes_path {
            store.insert_bytes_with_timestamp(key, crate::Bytes::from_static(b"bb"), Some(u64::MAX - 1))
        } else {
            store.insert_with_timestamp(key, b"bb", Some(u64::MAX - 1))
        };
        assert!(matches!(refused, Err(FeoxError::OutOfMemory)));
        store.insert(key, b"b").unwrap();
        store.insert(key, b"c").expect("automatic write rejected as older after a FAILED explicit write pinned the key");
        store.delete(key).unwrap();
    }
}
