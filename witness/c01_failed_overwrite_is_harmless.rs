//! Native witness for "a call that fails publishes nothing and changes no shared state": a not-yet-flushed
//! key is overwritten with a value the memory limit refuses; after flush and a clean reopen the key must
//! still read as its last accepted value. (Scenario from the independently seeded demonstration r2-C01.)
use crate::core::store::FeoxStore;
use crate::error::FeoxError;

#[test]
fn verif_witness_c01_failed_overwrite_is_harmless() {
    let dir = tempfile::tempdir().unwrap();
    let path = dir.path().join("c01.feox").to_string_lossy().into_owned();
    let too_big = vec![0x5a_u8; 256 * 1024];
    let key = |i: usize| format!("k-{i}").into_bytes();
    let small = |i: usize| format!("small-{i}").into_bytes();
    {
        let store = FeoxStore::builder().device_path(path.clone()).file_size(16 * 1024 * 1024).max_memory(64 * 1024).build().unwrap();
        for i in 0..8 {
            assert!(store.insert(&key(i), &small(i)).unwrap());
            assert!(matches!(store.insert(&key(i), &too_big), Err(FeoxError::OutOfMemory)));
            assert_eq!(store.get(&key(i)).unwrap(), small(i));
        }
        store.flush().unwrap();
        assert_eq!(store.len(), 8);
    }
    let store = FeoxStore::builder().device_path(path).max_memory(64 * 1024).build().unwrap();
    for i in 0..8 {
        assert_eq!(store.get(&key(i)).ok(), Some(small(i)), "key {i} changed after a rejected overwrite + flush + reopen");
    }
    assert_eq!(store.len(), 8);
}
