//! Native witness: an expired newest generation is not replaced by an older one in recovery (adapted from the independently seeded demonstration seeded/r2-C11/demo.rs).
// Run with: CARGO_TARGET_DIR=/tmp/mut2/C11/target cargo test --offline --test seeded_C11
// (drop this file into tests/ as tests/seeded_C11.rs; it only uses the public API.)
//
// Property C11: "when the newest generation of a key has expired no older
// generation of that key ever reappears" (recovery picks the newest generation
// first, then drops it if expired).
//
// Scenario: a key has an old generation without TTL at a HIGH sector. It is
// replaced by a generation with a TTL that the allocator places in a hole at a
// LOWER sector. The process dies after the replacement became durable but before
// the old extent was retired, so both generations are on disk. The TTL then runs
// out. Recovery must report the key as absent; it must never hand back the old
// value.
//
// The crash image is assembled from two snapshots of the same device file taken
// through the public API: every sector of the image holds bytes the store itself
// wrote to exactly that sector.

use std::fs;
use std::thread;
use std::time::{Duration, Instant};

use crate::constants::{FEOX_BLOCK_SIZE, FEOX_DATA_START_BLOCK, SECTOR_MARKER};
use crate::{FeoxError, FeoxStore};
use tempfile::TempDir;

const DEVICE_SIZE: u64 = 2 * 1024 * 1024;
const KEY: &[u8] = b"session";
const FILLER: &[u8] = b"a-filler";
const TTL_SECONDS: u64 = 5;

fn open(path: &str) -> FeoxStore {
    FeoxStore::builder()
        .device_path(path.to_string())
        .file_size(DEVICE_SIZE)
        .enable_ttl(true)
        .build()
        .unwrap()
}

/// Data blocks whose head sector is a live record for `key`.
fn record_blocks(image: &[u8], key: &[u8]) -> Vec<usize> {
    let mut found = Vec::new();
    for block in FEOX_DATA_START_BLOCK as usize..image.len() / FEOX_BLOCK_SIZE {
        let data = &image[block * FEOX_BLOCK_SIZE..(block + 1) * FEOX_BLOCK_SIZE];
        if u16::from_le_bytes([data[0], data[1]]) != SECTOR_MARKER {
            continue;
        }
        let key_len = u16::from_le_bytes([data[4], data[5]]) as usize;
        if key_len == key.len() && &data[6..6 + key_len] == key {
            found.push(block);
        }
    }
    found
}

#[test]
fn expired_replacement_at_a_lower_sector_does_not_resurrect_the_old_value() {
    let dir = TempDir::new().unwrap();
    let device = dir.path().join("device.feox");
    let device = device.to_str().unwrap().to_string();

    // Phase 1: filler at the first data sector, the key's old generation behind
    // it, then the filler is deleted so that a one-sector hole precedes the key.
    {
        let store = open(&device);
        store.insert(FILLER, b"filler").unwrap();
        store.flush().unwrap();
        store.insert(KEY, b"old").unwrap();
        store.flush().unwrap();
        store.delete(FILLER).unwrap();
        store.flush().unwrap();
    }
    let before_replacement = fs::read(&device).unwrap();
    let old_blocks = record_blocks(&before_replacement, KEY);
    assert_eq!(old_blocks.len(), 1, "old generation must be on disk once");
    let old_block = old_blocks[0];

    // Phase 2: replace the key with a generation that carries a TTL. Best-fit
    // allocation puts it into the hole in front of the old generation.
    let written_at = Instant::now();
    {
        let store = open(&device);
        assert_eq!(store.get(KEY).unwrap(), b"old");
        store.insert_with_ttl(KEY, b"new", TTL_SECONDS).unwrap();
        assert_eq!(store.get(KEY).unwrap(), b"new");
        store.flush().unwrap();
    }
    let after_replacement = fs::read(&device).unwrap();
    let new_blocks = record_blocks(&after_replacement, KEY);
    assert_eq!(new_blocks.len(), 1, "only the replacement must be live");
    let new_block = new_blocks[0];
    assert!(
        new_block < old_block,
        "scenario needs the replacement ({new_block}) in front of the old generation ({old_block})"
    );

    // Crash image: the replacement is durable, the old extent not yet retired.
    let mut crash_image = after_replacement.clone();
    let old_range = old_block * FEOX_BLOCK_SIZE..(old_block + 1) * FEOX_BLOCK_SIZE;
    crash_image[old_range.clone()].copy_from_slice(&before_replacement[old_range]);
    assert_eq!(record_blocks(&crash_image, KEY), vec![new_block, old_block]);

    // Control: while the TTL is still running the newest generation wins.
    if written_at.elapsed() < Duration::from_secs(TTL_SECONDS - 2) {
        let control = dir.path().join("control.feox");
        fs::write(&control, &crash_image).unwrap();
        let store = open(control.to_str().unwrap());
        if written_at.elapsed() < Duration::from_secs(TTL_SECONDS - 1) {
            assert_eq!(store.get(KEY).unwrap(), b"new");
        }
    }

    // Let the TTL of the newest generation run out, then recover the crash image.
    let expires_at = Duration::from_secs(TTL_SECONDS + 1);
    if let Some(remaining) = expires_at.checked_sub(written_at.elapsed()) {
        thread::sleep(remaining);
    }
    let crashed = dir.path().join("crashed.feox");
    fs::write(&crashed, &crash_image).unwrap();
    let store = open(crashed.to_str().unwrap());

    let got = store.get(KEY);
    assert!(
        matches!(got, Err(FeoxError::KeyNotFound)),
        "newest generation expired, yet get returned {:?}",
        got.map(|value| String::from_utf8_lossy(&value).into_owned())
    );
    assert!(!store.contains_key(KEY));
    assert!(store.range_query(KEY, KEY, 10).unwrap().is_empty());
    assert!(store.is_empty());

    // And it stays gone over one more restart.
    store.flush().unwrap();
    drop(store);
    let store = open(crashed.to_str().unwrap());
    assert!(matches!(store.get(KEY), Err(FeoxError::KeyNotFound)));
    assert!(store.is_empty());
}
