//! General native witness for the expiry obligations (C11, and the expiry side of C13):
//!   * a key with a TTL is returned by no value-reading call once its expiry instant has passed; keys without TTL,
//!     with TTL 0 or with a long TTL are never hidden or removed – lazily, by the sweeper, or by a restart;
//!   * the absolute expiry survives flush and restart; the sweeper removes exactly the expired generations and the
//!     counters follow (len, memory_usage == model of what is left);
//!   * an increment on an expired counter starts from the absent state and accounts for exactly one record.
use std::sync::Arc;
use std::thread::sleep;
use std::time::{Duration, Instant};

use crate::core::store::FeoxStore;
use crate::core::ttl_sweep::TtlConfig;
use tempfile::NamedTempFile;

fn overhead() -> usize {
    let s = FeoxStore::new(None).unwrap();
    s.insert(b"kk", b"vvv").unwrap();
    s.memory_usage() - 5
}

fn populate(store: &FeoxStore) -> (Vec<Vec<u8>>, Vec<Vec<u8>>) {
    let (mut short, mut lasting) = (Vec::new(), Vec::new());
    for i in 0..40u32 {
        let key = format!("k{i:02}").into_bytes();
        let value = vec![i as u8; 10 + 150 * (i as usize % 5)];
        match i % 4 {
            0 => {
                store.insert_with_ttl(&key, &value, 1).unwrap();
                short.push(key);
            }
            1 => {
                store.insert_with_ttl(&key, &value, 3600).unwrap();
                lasting.push(key);
            }
            2 => {
                store.insert_with_ttl(&key, &value, 0).unwrap();
                lasting.push(key);
            }
            _ => {
                store.insert(&key, &value).unwrap();
                lasting.push(key);
            }
        }
    }
    (short, lasting)
}

fn value_of(key: &[u8]) -> Vec<u8> {
    let i: u32 = std::str::from_utf8(&key[1..]).unwrap().parse().unwrap();
    vec![i as u8; 10 + 150 * (i as usize % 5)]
}

fn assert_visibility(store: &FeoxStore, short: &[Vec<u8>], lasting: &[Vec<u8>], expired: bool, what: &str) {
    for k in lasting {
        assert_eq!(store.get(k).unwrap_or_else(|e| panic!("{what}: lasting key {:?} hidden: {e}", String::from_utf8_lossy(k))), value_of(k), "{what}");
        assert_eq!(store.get_bytes(k).unwrap().to_vec(), value_of(k), "{what}");
    }
    for k in short {
        if expired {
            assert!(store.get(k).is_err(), "{what}: expired key {:?} returned by get", String::from_utf8_lossy(k));
            assert!(store.get_bytes(k).is_err(), "{what}: expired key returned by get_bytes");
            assert!(!store.compare_and_swap(k, &value_of(k), b"swapped").unwrap_or(false), "{what}: compare_and_swap saw an expired value");
            assert!(store.json_patch(k, br#"[{"op":"add","path":"/x","value":1}]"#).is_err(), "{what}: json_patch on an expired key");
        } else {
            assert_eq!(store.get(k).unwrap(), value_of(k), "{what}: short-lived key hidden before its expiry");
        }
    }
    let scanned: Vec<Vec<u8>> = store.range_query(b"k", b"kzz", 1000).unwrap().into_iter().map(|(k, _)| k).collect();
    let mut want: Vec<Vec<u8>> = lasting.to_vec();
    if !expired {
        want.extend_from_slice(short);
    }
    want.sort();
    assert_eq!(scanned, want, "{what}: range query");
}

#[test]
fn expiry_is_exact_in_memory() {
    let store = FeoxStore::builder().enable_ttl(true).build().unwrap();
    let t0 = Instant::now();
    let (short, lasting) = populate(&store);
    if t0.elapsed() < Duration::from_millis(700) {
        assert_visibility(&store, &short, &lasting, false, "before expiry");
        for k in &short {
            assert!(matches!(store.get_ttl(k).unwrap(), Some(0) | Some(1)), "remaining TTL of a 1 s key");
        }
        for k in &lasting {
            let ttl = store.get_ttl(k).unwrap();
            assert!(ttl.is_none() || matches!(ttl, Some(3598..=3600)), "remaining TTL of a lasting key: {ttl:?}");
        }
    }
    sleep(Duration::from_millis(1300));
    assert_visibility(&store, &short, &lasting, true, "after expiry");
    // extending / removing the TTL of a lasting key keeps it; a TTL on an expired key cannot revive it
    store.update_ttl(&lasting[0], 1).unwrap();
    store.persist(&lasting[1]).unwrap();
    assert!(store.update_ttl(&short[0], 3600).is_err(), "update_ttl revived an expired key");
    sleep(Duration::from_millis(1300));
    assert!(store.get(&lasting[0]).is_err(), "a shortened TTL did not take effect");
    assert!(store.get(&lasting[1]).is_ok(), "persist() did not keep the key");
}

#[test]
fn sweeper_removes_exactly_the_expired_generations() {
    let oh = overhead();
    let store = Arc::new(FeoxStore::builder().enable_ttl(true).build().unwrap());
    let (short, lasting) = populate(&store);
    let full = store.len();
    assert_eq!(full, short.len() + lasting.len());
    store.start_ttl_sweeper(Some(TtlConfig {
        sample_size: 64,
        expiry_threshold: 0.1,
        max_iterations: 64,
        max_time_per_run: Duration::from_millis(50),
        sleep_interval: Duration::from_millis(50),
        enabled: true,
    }));
    sleep(Duration::from_millis(500));
    assert_eq!(store.len(), full, "the sweeper removed keys before their expiry");
    let deadline = Instant::now() + Duration::from_secs(20);
    while store.len() > lasting.len() && Instant::now() < deadline {
        sleep(Duration::from_millis(100));
    }
    assert_eq!(store.len(), lasting.len(), "the sweeper did not remove exactly the expired keys");
    sleep(Duration::from_millis(500));
    assert_eq!(store.len(), lasting.len(), "the sweeper removed unexpired keys");
    assert_visibility(&store, &short, &lasting, true, "after the sweep");
    let want: usize = lasting.iter().map(|k| oh + k.len() + value_of(k).len()).sum();
    assert_eq!(store.memory_usage(), want, "memory accounting after the sweep");
    for k in &short {
        assert!(!store.contains_key(k), "a swept key is still indexed");
    }
}

#[test]
fn increment_on_an_expired_counter_starts_over() {
    let oh = overhead();
    let store = FeoxStore::builder().enable_ttl(true).build().unwrap();
    store.insert_with_ttl(b"ctr", &41i64.to_le_bytes(), 1).unwrap();
    store.insert(b"other", b"x").unwrap();
    assert_eq!(store.atomic_increment(b"other-ctr", 5).unwrap(), 5);
    sleep(Duration::from_millis(1300));
    assert_eq!(store.atomic_increment(b"ctr", 1).unwrap(), 1, "an expired counter's value leaked into the increment");
    assert_eq!(store.len(), 3);
    assert_eq!(store.memory_usage(), 3 * oh + 3 + 8 + 5 + 1 + 9 + 8, "accounting after replacing an expired counter");
    assert_eq!(store.get_ttl(b"ctr").unwrap(), None, "the new counter inherited the expired TTL");
}

#[test]
fn absolute_expiry_survives_flush_and_restart() {
    let file = NamedTempFile::new().unwrap();
    let path = file.path().to_string_lossy().into_owned();
    let open = || FeoxStore::builder().hash_bits(6).device_path(path.clone()).file_size(8 * 1024 * 1024).enable_ttl(true).build().unwrap();
    let (short, lasting);
    {
        let store = open();
        let r = populate(&store);
        short = r.0;
        lasting = r.1;
        store.flush().unwrap();
    }
    {
        let store = open();
        for k in &lasting {
            assert_eq!(store.get(k).unwrap(), value_of(k), "lasting key lost over restart");
            let ttl = store.get_ttl(k).unwrap();
            assert!(ttl.is_none() || matches!(ttl, Some(3500..=3600)), "expiry changed over restart: {ttl:?}");
        }
    }
    sleep(Duration::from_millis(1300));
    let store = open();
    assert_visibility(&store, &short, &lasting, true, "after restart past the expiry");
    assert_eq!(store.len(), lasting.len(), "recovery kept expired generations indexed");
}

/// TTLs so long that ttl * 10^9 does not fit in 64 bits saturate to "never within the life of this clock": they must
/// not wrap into an early expiry on any writing path.
#[test]
fn very_long_ttls_never_wrap_into_an_early_expiry() {
    let store = FeoxStore::builder().enable_ttl(true).build().unwrap();
    let huge = [18_446_744_074u64, 18_446_744_073 + 60, 100_000_000_000, 1 << 40, u64::MAX / 1_000_000_000 + 1, u64::MAX - 1, u64::MAX];
    for (i, ttl) in huge.iter().copied().enumerate() {
        let k = |tag: &str| format!("{tag}-{i}").into_bytes();
        store.insert_with_ttl(&k("slice"), b"v", ttl).unwrap();
        store.insert_bytes_with_ttl(&k("bytes"), bytes::Bytes::from_static(b"v"), ttl).unwrap();
        store.insert(&k("cas"), b"old").unwrap();
        assert!(store.compare_and_swap_with_ttl(&k("cas"), b"old", b"v", ttl).unwrap());
        store.atomic_increment_with_ttl(&k("ctr"), 1, ttl).unwrap();
        store.atomic_increment_with_ttl(&k("ctr"), 1, ttl).unwrap();
        store.insert(&k("upd"), b"v").unwrap();
        store.update_ttl(&k("upd"), ttl).unwrap();
    }
    sleep(Duration::from_millis(900));
    for (i, ttl) in huge.iter().copied().enumerate() {
        for tag in ["slice", "bytes", "cas", "ctr", "upd"] {
            let key = format!("{tag}-{i}").into_bytes();
            assert!(store.get(&key).is_ok(), "{tag}: a key written with a TTL of {ttl} s expired within a second");
            let left = store.get_ttl(&key).unwrap().unwrap_or(u64::MAX);
            assert!(left >= 16_000_000_000 || left >= ttl - 2, "{tag}: remaining TTL {left} s after requesting {ttl} s");
        }
    }
    let in_range = store.range_query(b"a", b"z", 1000).unwrap().len();
    assert_eq!(in_range, 5 * huge.len(), "long-lived keys missing from a range query");
}
