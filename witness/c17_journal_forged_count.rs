//! Native witness for the decode_slot panic-freedom obligation: forged journal slot headers (every entry
//! count up to 4200, both states, both versions, complement-consistent checksum fields) must never make
//! `decode` panic.
use crate::storage::allocation_journal::decode;

#[test]
fn verif_witness_c17_journal_forged_count() {
    let mut panics = Vec::new();
    for version in [1u32, 2] {
        for state in [0u32, 1] {
            for count in (0u32..=4200).chain([u32::MAX, 1 << 20]) {
                let mut data = vec![0u8; 6 * 4096];
                data[..8].copy_from_slice(b"\0FEOXAJ1");
                data[8..12].copy_from_slice(&version.to_le_bytes());
                data[12..16].copy_from_slice(&0x1234_5678u32.to_le_bytes());
                data[16..24].copy_from_slice(&7u64.to_le_bytes());
                data[24..28].copy_from_slice(&state.to_le_bytes());
                data[28..32].copy_from_slice(&count.to_le_bytes());
                data[32..36].copy_from_slice(&(!0x1234_5678u32).to_le_bytes());
                let r = std::panic::catch_unwind(|| {
                    let _ = decode(&data, 1 << 20);
                });
                if r.is_err() {
                    panics.push((version, state, count));
                }
            }
        }
    }
    assert!(panics.is_empty(), "decode panicked on forged slot headers (version, state, count): {:?}", &panics[..panics.len().min(8)]);
}
