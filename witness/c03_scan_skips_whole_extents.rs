//! Native witness for the scan-iteration obligation "an accepted record (winner or loser) is skipped as a whole extent".
//! Adapted from the independently seeded demonstration seeded/C03/demo.rs (public API + its own encoders): a crash image with
//! the newer generation at the lower sector and a multi-block older generation whose continuation block holds a valid record image.

use crate::core::store::FeoxStore;
use std::fs::OpenOptions;
use std::io::{Read, Seek, SeekFrom, Write};

const BLOCK: usize = 4096;
const DEVICE_SIZE: u64 = 8 * 1024 * 1024;
const DATA_START: u64 = 16;
const JOURNAL_START: u64 = 1;
const JOURNAL_SLOT_BLOCKS: u64 = 3;
const SECTOR_MARKER: [u8; 2] = 0xABCDu16.to_le_bytes();
const DELETION_MARKER: &[u8; 8] = b"\0DELETED";

// ---- CRC32C (Castagnoli), same chaining convention as the store -------------------------

fn crc32c(seed: u32, data: &[u8]) -> u32 {
    let mut crc = !seed;
    for &byte in data {
        crc ^= byte as u32;
        for _ in 0..8 {
            crc = if crc & 1 != 0 {
                (crc >> 1) ^ 0x82F6_3B78
            } else {
                crc >> 1
            };
        }
    }
    !crc
}

fn fold_token(crc: u32) -> u16 {
    match ((crc >> 16) ^ (crc & 0xFFFF)) as u16 {
        0 => 1,
        token => token,
    }
}

/// One-block v3 record image stamped for `sector`.
fn record_block(sector: u64, key: &[u8], value: &[u8], timestamp: u64) -> Vec<u8> {
    let mut data = Vec::with_capacity(BLOCK);
    data.extend_from_slice(&SECTOR_MARKER);
    data.extend_from_slice(&[0, 0]);
    data.extend_from_slice(&(key.len() as u16).to_le_bytes());
    data.extend_from_slice(key);
    data.extend_from_slice(&(value.len() as u64).to_le_bytes());
    data.extend_from_slice(&timestamp.to_le_bytes());
    data.extend_from_slice(&0u64.to_le_bytes()); // ttl_expiry
    data.extend_from_slice(value);
    assert!(data.len() <= BLOCK);
    data.resize(BLOCK, 0);

    let mut crc = crc32c(0, &sector.to_le_bytes());
    crc = crc32c(crc, &data[..2]);
    crc = crc32c(crc, &[0, 0]);
    crc = crc32c(crc, &data[4..]);
    let token = fold_token(crc);
    data[2..4].copy_from_slice(&token.to_le_bytes());
    data
}

/// First block of an allocation-journal slot image (compact v2 layout).
fn journal_block(generation: u64, extents: &[(u32, u32)]) -> Vec<u8> {
    let mut journal = vec![0u8; BLOCK];
    journal[..8].copy_from_slice(b"\0FEOXAJ1");
    journal[8..12].copy_from_slice(&2u32.to_le_bytes());
    journal[16..24].copy_from_slice(&generation.to_le_bytes());
    let state: u32 = if extents.is_empty() { 0 } else { 1 };
    journal[24..28].copy_from_slice(&state.to_le_bytes());
    journal[28..32].copy_from_slice(&(extents.len() as u32).to_le_bytes());
    for (index, (sector, sectors)) in extents.iter().enumerate() {
        let offset = 40 + index * 8;
        journal[offset..offset + 4].copy_from_slice(&sector.to_le_bytes());
        journal[offset + 4..offset + 8].copy_from_slice(&sectors.to_le_bytes());
    }
    let mut checksum = crc32c(0, &journal[..12]);
    checksum = crc32c(checksum, &[0; 4]);
    checksum = crc32c(checksum, &journal[16..32]);
    checksum = crc32c(checksum, &[0; 4]);
    checksum = crc32c(checksum, &journal[36..]);
    journal[12..16].copy_from_slice(&checksum.to_le_bytes());
    journal[32..36].copy_from_slice(&(!checksum).to_le_bytes());
    journal
}

fn read_blocks(path: &str, sector: u64, blocks: u64) -> Vec<u8> {
    let mut file = OpenOptions::new().read(true).open(path).unwrap();
    let mut bytes = vec![0; blocks as usize * BLOCK];
    file.seek(SeekFrom::Start(sector * BLOCK as u64)).unwrap();
    file.read_exact(&mut bytes).unwrap();
    bytes
}

fn write_blocks(path: &str, sector: u64, bytes: &[u8]) {
    assert_eq!(bytes.len() % BLOCK, 0);
    let mut file = OpenOptions::new().write(true).open(path).unwrap();
    file.seek(SeekFrom::Start(sector * BLOCK as u64)).unwrap();
    file.write_all(bytes).unwrap();
    file.sync_all().unwrap();
}

fn open(path: &str) -> crate::error::Result<FeoxStore> {
    FeoxStore::builder()
        .device_path(path.to_string())
        .file_size(DEVICE_SIZE)
        .enable_caching(false)
        .build()
}

fn head_key(block: &[u8]) -> Option<Vec<u8>> {
    if block[..2] != SECTOR_MARKER {
        return None;
    }
    let key_len = u16::from_le_bytes([block[4], block[5]]) as usize;
    Some(block[6..6 + key_len].to_vec())
}

fn journal_generation(slot_block: &[u8]) -> u64 {
    assert_eq!(&slot_block[..8], b"\0FEOXAJ1");
    u64::from_le_bytes(slot_block[16..24].try_into().unwrap())
}

#[test]
fn verif_witness_c03_scan_skips_whole_extents() {
    let dir = tempfile::tempdir().unwrap();
    let live = dir.path().join("live.feox").to_str().unwrap().to_string();
    let crash = dir.path().join("crash.feox").to_str().unwrap().to_string();

    const VICTIM: &[u8] = b"victim";
    let old_sector = DATA_START + 1;
    let ghost_sector = old_sector + 1;

    // The application's own value for "victim": filler bytes plus a byte-exact image of a
    // valid record, positioned so that it starts exactly at the second block of the extent.
    let value_offset = 4 + 2 + VICTIM.len() + 8 + 8 + 8;
    let ghost = record_block(ghost_sector, b"ghost", b"never stored by the application", 50);
    let mut old_value = vec![b'V'; 2 * BLOCK];
    let at = BLOCK - value_offset;
    old_value[at..at + BLOCK].copy_from_slice(&ghost);

    let store = open(&live).unwrap();

    store.insert(b"pad", b"padding").unwrap();
    store.flush().unwrap();
    assert_eq!(
        head_key(&read_blocks(&live, DATA_START, 1)).as_deref(),
        Some(&b"pad"[..]),
        "layout assumption: pad at the first data sector"
    );

    store.insert(VICTIM, &old_value).unwrap();
    store.flush().unwrap();
    let old_extent = read_blocks(&live, old_sector, 3);
    assert_eq!(head_key(&old_extent).as_deref(), Some(VICTIM));
    assert_eq!(
        &old_extent[BLOCK..2 * BLOCK],
        &ghost[..],
        "layout assumption: the embedded image is block aligned"
    );

    store.delete(b"pad").unwrap();
    store.flush().unwrap();
    assert_eq!(&read_blocks(&live, DATA_START, 1)[..8], DELETION_MARKER);

    // Journal as of the last completed operation: slot 1 holds the newest (clear) image.
    let before = read_blocks(&live, JOURNAL_START, 2 * JOURNAL_SLOT_BLOCKS);
    let clear_before = &before[JOURNAL_SLOT_BLOCKS as usize * BLOCK..][..BLOCK];
    let generation = journal_generation(clear_before);
    assert!(journal_generation(&before[..BLOCK]) < generation);
    assert_eq!(
        clear_before,
        &journal_block(generation, &[])[..],
        "the test's journal encoder must agree with the store's"
    );

    store.insert(VICTIM, b"new").unwrap();
    store.flush().unwrap();
    assert_eq!(store.get(VICTIM).unwrap(), b"new");
    let successor = read_blocks(&live, DATA_START, 1);
    assert_eq!(
        head_key(&successor).as_deref(),
        Some(VICTIM),
        "layout assumption: the successor reuses the hole below its predecessor"
    );
    assert_eq!(&read_blocks(&live, old_sector, 1)[..8], DELETION_MARKER);

    // Assemble the crash image: everything up to and including the successor's journal
    // clear has reached the device, nothing of the predecessor's retirement has.
    std::fs::copy(&live, &crash).unwrap();
    write_blocks(&crash, old_sector, &old_extent);
    write_blocks(
        &crash,
        JOURNAL_START,
        &journal_block(generation + 1, &[(DATA_START as u32, 1)]),
    );
    write_blocks(
        &crash,
        JOURNAL_START + JOURNAL_SLOT_BLOCKS,
        &journal_block(generation + 2, &[]),
    );
    drop(store);

    let reopened = open(&crash).expect("the crash image must reopen");
    assert_eq!(reopened.get(VICTIM).unwrap(), b"new");
    assert!(
        !reopened.contains_key(b"ghost"),
        "bytes embedded in a superseded value surfaced as a key"
    );
    assert!(!reopened.contains_key(b"pad"));
    assert_eq!(reopened.len(), 1, "len() must equal the number of keys exposed");
    let all = reopened.range_query(&[0], &[0xFF; 16], 100).unwrap();
    assert_eq!(all, vec![(VICTIM.to_vec(), b"new".to_vec())]);
}
