//! Native witness for `site_resolve_value_retry_is_bounded`: a read of a record whose sector no longer holds it while it is
//! still the current generation (data area clobbered behind the store's back) must come back – StaleExtent after the bounded
//! retry budget – for get, get_bytes and range_query, and the store must still close. 15 s watchdog per call.
//! From the independently seeded demonstration seeded/r5-C18/demo.rs.
use std::fs::OpenOptions;
use std::os::unix::fs::FileExt;
use std::sync::mpsc;
use std::sync::Arc;
use std::thread;
use std::time::Duration;

use crate::error::FeoxError;
use crate::FeoxStore;
use tempfile::TempDir;

const BLOCK_SIZE: usize = 4096;
const DATA_START_BLOCK: u64 = 16;
const DEVICE_SIZE: u64 = 4 * 1024 * 1024;
const WATCHDOG: Duration = Duration::from_secs(15);

fn with_watchdog<T: Send + 'static>(
    what: &str,
    call: impl FnOnce() -> T + Send + 'static,
) -> T {
    let (tx, rx) = mpsc::channel();
    thread::spawn(move || {
        let _ = tx.send(call());
    });
    match rx.recv_timeout(WATCHDOG) {
        Ok(value) => value,
        Err(_) => panic!("{what} did not return within {WATCHDOG:?}: the call does not terminate"),
    }
}

fn open_store(path: &str) -> Arc<FeoxStore> {
    Arc::new(
        FeoxStore::builder()
            .device_path(path.to_string())
            .file_size(DEVICE_SIZE)
            .enable_caching(false)
            .build()
            .unwrap(),
    )
}

/// Overwrite the whole data area with zeroes behind the store's back.
fn wipe_data_area(path: &str) {
    let file = OpenOptions::new().write(true).open(path).unwrap();
    let start = DATA_START_BLOCK * BLOCK_SIZE as u64;
    let zeroes = vec![0u8; BLOCK_SIZE * 64];
    let mut offset = start;
    while offset < DEVICE_SIZE {
        let len = zeroes.len().min((DEVICE_SIZE - offset) as usize);
        file.write_all_at(&zeroes[..len], offset).unwrap();
        offset += len as u64;
    }
    file.sync_all().unwrap();
}

#[test]
fn verif_witness_c18_read_of_clobbered_record_terminates() {
    let dir = TempDir::new().unwrap();
    let path = dir.path().join("c18.feox").to_string_lossy().into_owned();
    let store = open_store(&path);

    store.insert(b"victim", b"value-on-disk").unwrap();
    store.insert(b"bystander", b"another-value").unwrap();
    store.flush_all().unwrap();

    // The value is offloaded now, so this is served from the device.
    assert_eq!(store.get(b"victim").unwrap(), b"value-on-disk");

    wipe_data_area(&path);

    let reader = Arc::clone(&store);
    let result = with_watchdog("get() of a clobbered record", move || reader.get(b"victim"));
    assert!(
        matches!(result, Err(FeoxError::StaleExtent)),
        "expected the bounded stale-read budget to surface StaleExtent, got {result:?}"
    );

    let reader = Arc::clone(&store);
    let result = with_watchdog("get_bytes() of a clobbered record", move || {
        reader.get_bytes(b"bystander")
    });
    assert!(result.is_err());

    // A scan steps over unreadable records instead of hanging on them.
    let reader = Arc::clone(&store);
    let result = with_watchdog("range_query() over clobbered records", move || {
        reader.range_query(b"a", b"z", 10)
    });
    assert_eq!(result.unwrap().len(), 0);

    // The store still accepts writes, serves them, flushes and closes.
    store.insert(b"victim", b"fresh").unwrap();
    assert_eq!(store.get(b"victim").unwrap(), b"fresh");
    let closer = Arc::clone(&store);
    drop(store);
    with_watchdog("flush_all() + drop", move || {
        let _ = closer.flush_all();
        drop(closer);
    });
}
