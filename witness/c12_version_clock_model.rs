// VERIF-MOUNT: src/core/store/mod.rs
//! Native witness for the version-clock obligations (C12): next() is strictly increasing per shard and never below
//! the wall clock it is given; observe(ts) makes every later next() exceed ts; u64::MAX is never folded in;
//! resolve_timestamp / observe_published_timestamp route explicit timestamps through the clock, so an automatic
//! write, delete, increment, swap, patch or TTL change after an explicit far-future write is accepted and newer.
use std::sync::Arc;
use std::thread;

use super::{FeoxStore, VersionClock};
use ahash::RandomState;

const DAY_NS: u64 = 86_400_000_000_000;

#[test]
fn clock_kernel_is_monotone() {
    let clock = VersionClock::new(RandomState::new());
    let mut last = 0;
    for wall in [5u64, 5, 5, 3, 100, 100, 99, 0, u64::MAX - 2, 7] {
        let t = clock.next(b"k", wall);
        assert!(t > last, "next() did not increase: {last} -> {t} (wall {wall})");
        assert!(t >= wall, "next() fell below the wall clock");
        last = t;
    }
    let clock = VersionClock::new(RandomState::new());
    clock.observe(b"k", 1_000);
    assert!(clock.next(b"k", 10) > 1_000, "an observed timestamp is not exceeded by the next automatic one");
    clock.observe(b"k", 500);
    assert!(clock.next(b"k", 10) > 1_001, "observing an older timestamp moved the clock backwards");
    clock.observe(b"k", u64::MAX);
    let t = clock.next(b"k", 10);
    assert!(t < u64::MAX - 1, "u64::MAX was folded into the clock (next = {t})");
    assert!(clock.next(b"k", 10) > t, "the clock is stuck after observing u64::MAX");
}

#[test]
fn concurrent_next_values_are_unique_per_key() {
    let clock = Arc::new(VersionClock::new(RandomState::new()));
    let mut hs = Vec::new();
    for _ in 0..8 {
        let c = Arc::clone(&clock);
        hs.push(thread::spawn(move || (0..5000).map(|i| c.next(b"same", 1000 + (i % 7))).collect::<Vec<u64>>()));
    }
    let mut all: Vec<u64> = Vec::new();
    for h in hs {
        let v = h.join().unwrap();
        assert!(v.windows(2).all(|w| w[0] < w[1]), "one thread saw a non-increasing sequence");
        all.extend(v);
    }
    let n = all.len();
    all.sort_unstable();
    all.dedup();
    assert_eq!(all.len(), n, "two automatic timestamps of one key collided");
}

#[test]
fn automatic_operations_follow_explicit_timestamps() {
    let store = FeoxStore::builder().enable_ttl(true).build().unwrap();
    let far = store.get_timestamp_pub() + DAY_NS;
    let ts_of = |k: &[u8]| store.hash_table.read(k, |_, r| r.timestamp).unwrap();

    store.insert_with_timestamp(b"a", b"v0", Some(far)).unwrap();
    assert_eq!(ts_of(b"a"), far, "an explicit timestamp was not stored as given");
    store.insert(b"a", b"v1").unwrap();
    assert!(ts_of(b"a") > far, "automatic insert after an explicit timestamp is not newer");
    let t1 = ts_of(b"a");
    assert!(store.compare_and_swap(b"a", b"v1", b"v2").unwrap());
    assert!(ts_of(b"a") > t1);
    let t2 = ts_of(b"a");
    store.update_ttl(b"a", 3600).unwrap();
    assert!(ts_of(b"a") > t2);
    store.delete(b"a").unwrap();
    store.insert(b"a", b"again").unwrap();
    assert!(ts_of(b"a") > t2, "a re-created key went back in time");

    store.insert_with_timestamp(b"n", &7i64.to_le_bytes(), Some(far + 5)).unwrap();
    assert_eq!(store.atomic_increment(b"n", 1).unwrap(), 8, "automatic increment after an explicit timestamp was rejected");
    assert!(ts_of(b"n") > far + 5);

    store.insert_with_timestamp(b"j", br#"{"a":1}"#, Some(far + 9)).unwrap();
    store.json_patch(b"j", br#"[{"op":"replace","path":"/a","value":2}]"#).unwrap();
    assert!(ts_of(b"j") > far + 9);

    // Some(0) means "automatic"
    store.insert_with_timestamp(b"z", b"v", Some(0)).unwrap();
    assert!(ts_of(b"z") > 0, "Some(0) was stored as an explicit timestamp 0");
    store.insert_with_timestamp(b"z", b"w", None).unwrap();

    // successive automatic generations strictly increase
    let mut last = 0;
    for i in 0..200u32 {
        store.insert(b"seq", &i.to_le_bytes()).unwrap();
        let t = ts_of(b"seq");
        assert!(t > last, "automatic timestamps of one key did not increase");
        last = t;
    }
}
