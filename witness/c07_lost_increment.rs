//! Native witness for "the entry is replaced only if it still is the generation whose value was read":
//! concurrent increments and compare-and-swaps on one key must not lose an update.
use crate::core::store::FeoxStore;
use std::sync::Arc;
use std::thread;

#[test]
fn verif_witness_c07_lost_increment() {
    for _round in 0..5 {
        let store = Arc::new(FeoxStore::new(None).unwrap());
        store.insert(b"ctr", &0i64.to_le_bytes()).unwrap();
        let threads = 8;
        let per = 3000;
        let mut hs = Vec::new();
        for _ in 0..threads {
            let s = Arc::clone(&store);
            hs.push(thread::spawn(move || {
                for _ in 0..per {
                    s.atomic_increment(b"ctr", 1).unwrap();
                }
            }));
        }
        for h in hs {
            h.join().unwrap();
        }
        let v = store.get(b"ctr").unwrap();
        let n = i64::from_le_bytes(v[..8].try_into().unwrap());
        assert_eq!(n, (threads * per) as i64, "increments were lost");
    }
}
