//! Native witness: entries of a shard not yet attempted when a batch fails are requeued (adapted from the independently seeded demonstration seeded/r2-C09/demo.rs).
// HOW TO WIRE/RUN: copy to src/tests/seeded_c09.rs, append `#[cfg(test)] pub mod seeded_c09;` to src/tests/mod.rs, then: CARGO_TARGET_DIR=/tmp/mut2/C09/target cargo test --offline --lib seeded_c09
// Seeded-defect demonstration for property C09 (I/O failures are reported, contained and
// never destroy durable data).
//
// Wiring: this file lives at src/tests/seeded_c09.rs and is wired in with one line in
// src/tests/mod.rs:
//     #[cfg(test)]
//     pub mod seeded_c09;
// It has to be a unit test (not tests/*.rs) because the only way to make a record write fail
// while the journal/scrub writes keep working is the crate-private `RECORD_WRITE` fault hook,
// which only exists under cfg(test) of the library.
//
// Run:
//     CARGO_TARGET_DIR=/tmp/mut2/C09/target cargo test --offline --lib seeded_c09 -- --nocapture
//
// Scenario: the device rejects every record write for a while (each flush batch fails
// cleanly: journal intent, three write attempts, scrub, release, requeue) while the
// application keeps writing, so that far more than ALLOCATION_JOURNAL_MAX_ENTRIES (1024)
// entries pile up in every write-buffer shard. flush() must report the failure, reads must
// keep working from memory, and once the device works again one flush() must succeed and
// make *everything* accepted so far durable: recovering the device as it then stands must
// yield every key with its latest value.

use crate::core::store::FeoxStore;
use crate::test_hooks::{fault, gate, RECORD_WRITE};
use tempfile::NamedTempFile;

const DEVICE_SIZE: u64 = 512 * 1024 * 1024;

fn key(i: usize) -> Vec<u8> {
    format!("seeded-c09-key-{i:06}").into_bytes()
}

fn value(i: usize) -> Vec<u8> {
    format!("seeded-c09-value-{i:06}").into_bytes()
}

#[test]
fn flush_after_an_outage_makes_the_whole_backlog_durable() {
    let _session = gate::session();
    let device = NamedTempFile::new().unwrap();
    let path = device.path().to_string_lossy().into_owned();
    let store = FeoxStore::builder()
        .device_path(path.clone())
        .file_size(DEVICE_SIZE)
        .enable_caching(false)
        .build()
        .unwrap();

    // Enough keys that (whatever the CPU count, hence shard count) at least one shard
    // holds well over 1024 pending entries while the outage lasts.
    let shards = (num_cpus::get() / 2).max(1);
    let total = shards * 3 * 1024;

    // Outage: every record write fails from now on (before any byte reaches the device).
    let outage = fault::fail_next(
        RECORD_WRITE,
        store.get_write_buffer().unwrap().fault_scope(),
        usize::MAX / 2,
    );

    for i in 0..total {
        store.insert(&key(i), &value(i)).unwrap();
    }

    // The failure is reported ...
    assert!(
        store.flush().is_err(),
        "flush must report the failing record writes"
    );
    assert!(outage.consumed() > 0, "the outage was never exercised");
    // ... more than once, if asked again while the outage lasts ...
    assert!(store.flush().is_err());

    // ... and reads keep returning the accepted values from memory.
    for i in (0..total).step_by(97) {
        assert_eq!(store.get(&key(i)).unwrap(), value(i));
    }

    // The device works again.
    drop(outage);
    store
        .flush()
        .expect("flush must succeed once the device works again");

    // flush() returned Ok, so everything accepted before it must be durable. Recover the
    // device exactly as it stands now (a copy of the file, the store is still open).
    let image = NamedTempFile::new().unwrap();
    std::fs::copy(&path, image.path()).unwrap();
    let recovered = FeoxStore::builder()
        .device_path(image.path().to_string_lossy().into_owned())
        .enable_caching(false)
        .build()
        .unwrap();

    let missing = (0..total)
        .filter(|&i| recovered.get(&key(i)).ok() != Some(value(i)))
        .count();
    assert_eq!(
        missing, 0,
        "flush() returned Ok after the outage, but {missing} of {total} acknowledged keys are \
         not on the device"
    );
    assert_eq!(recovered.len(), total);

    // The live store still serves every key.
    for i in (0..total).step_by(101) {
        assert_eq!(store.get(&key(i)).unwrap(), value(i));
    }
}
