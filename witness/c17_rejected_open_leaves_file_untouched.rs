//! Native witness: an open rejected for its metadata leaves the file byte-identical (adapted from the independently seeded demonstration seeded/r2-C17/demo.rs).
// Wiring: copy to tests/seeded_C17.rs (integration test, public API only) and run
//   CARGO_TARGET_DIR=/tmp/mut2/C17/target cargo test --offline --test seeded_C17
//
// Property C17: a file that is not recognisably a FeOx device is rejected without
// being modified, and an open that fails for metadata reasons leaves the file
// byte-identical.

use crate::FeoxStore;
use std::fs::OpenOptions;
use std::io::{Seek, SeekFrom, Write};
use tempfile::NamedTempFile;

const BLOCK: usize = 4096;
const DEVICE_SIZE: u64 = 2 * 1024 * 1024;

fn first_difference(before: &[u8], after: &[u8]) -> Option<usize> {
    if before.len() != after.len() {
        return Some(before.len().min(after.len()));
    }
    before.iter().zip(after).position(|(a, b)| a != b)
}

fn assert_rejected_and_untouched(path: &str, what: &str) {
    let before = std::fs::read(path).unwrap();

    let result = FeoxStore::builder()
        .hash_bits(4)
        .device_path(path.to_string())
        .enable_caching(false)
        .build();
    assert!(result.is_err(), "{what}: open unexpectedly succeeded");
    drop(result);

    let after = std::fs::read(path).unwrap();
    if let Some(offset) = first_difference(&before, &after) {
        panic!(
            "{what}: rejected open modified the file (first difference at byte {offset}, block {})",
            offset / BLOCK
        );
    }
}

/// A foreign file of a valid device size: every block carries non-FeOx content.
#[test]
fn foreign_file_is_rejected_byte_identical() {
    let temp_file = NamedTempFile::new().unwrap();
    let path = temp_file.path().to_str().unwrap().to_string();

    let mut image = vec![0u8; DEVICE_SIZE as usize];
    for (index, block) in image.chunks_mut(BLOCK).enumerate() {
        let tag = format!("someone else's data, block {index:06}\n");
        for chunk in block.chunks_mut(tag.len()) {
            chunk.copy_from_slice(&tag.as_bytes()[..chunk.len()]);
        }
    }
    image[..8].copy_from_slice(b"NOTFEOX!");
    std::fs::write(&path, &image).unwrap();

    assert_rejected_and_untouched(&path, "foreign file");
    // A second attempt must behave the same way.
    assert_rejected_and_untouched(&path, "foreign file, second attempt");
}

/// A real device whose two metadata copies were damaged (version field forged to a
/// format this build does not know). The open fails for metadata reasons only.
#[test]
fn device_with_damaged_metadata_is_rejected_byte_identical() {
    let temp_file = NamedTempFile::new().unwrap();
    let path = temp_file.path().to_str().unwrap().to_string();

    {
        let store = FeoxStore::builder()
            .hash_bits(4)
            .device_path(path.clone())
            .file_size(DEVICE_SIZE)
            .enable_caching(false)
            .build()
            .unwrap();
        store.insert(b"key", b"value").unwrap();
        store.flush_all().unwrap();
    }

    {
        let mut file = OpenOptions::new().write(true).open(&path).unwrap();
        // Metadata lives in block 0 with a backup copy in block 7; version is a
        // little-endian u32 at byte 8 of the block.
        for block in [0u64, 7] {
            file.seek(SeekFrom::Start(block * BLOCK as u64 + 8)).unwrap();
            file.write_all(&9u32.to_le_bytes()).unwrap();
        }
        file.sync_all().unwrap();
    }

    assert_rejected_and_untouched(&path, "device with damaged metadata");
}

/// A signature-less file whose only non-zero content sits anywhere – first byte, middle, last scan chunk, last
/// byte – is not a blank device: it must be rejected and left untouched, whatever the device size is relative to
/// the scan's chunking. An all-zero file of the same size IS a blank device and opens.
#[test]
fn sparse_foreign_content_is_never_mistaken_for_a_blank_device() {
    const MIB: usize = 1024 * 1024;
    for size in [MIB, 2 * MIB, 3 * MIB, 2 * MIB + 5 * BLOCK, MIB + BLOCK, 4 * MIB - BLOCK] {
        let positions = [0usize, 9, BLOCK, size / 2, size - MIB / 2, size - MIB, size - BLOCK, size - BLOCK - 1, size - 1];
        for &pos in positions.iter().filter(|p| **p < size) {
            let temp_file = NamedTempFile::new().unwrap();
            let path = temp_file.path().to_str().unwrap().to_string();
            let mut image = vec![0u8; size];
            image[pos] = 0xa5;
            std::fs::write(&path, &image).unwrap();
            assert_rejected_and_untouched(&path, &format!("size {size}, single non-zero byte at {pos}"));
        }
        let temp_file = NamedTempFile::new().unwrap();
        let path = temp_file.path().to_str().unwrap().to_string();
        std::fs::write(&path, vec![0u8; size]).unwrap();
        let store = FeoxStore::builder().hash_bits(4).device_path(path.clone()).enable_caching(false).build();
        assert!(store.is_ok(), "size {size}: an all-zero file of a valid device size was not accepted as a blank device");
    }
}
