//! Native witness for 'an entry ending exactly at the device end is a valid journal extent' (adapted from the independently
//! seeded demonstration seeded/r2-C03/demo.rs: crash images assembled from bytes the store itself wrote).
// Run: cd /tmp/mut2/C03 && CARGO_TARGET_DIR=/tmp/mut2/C03/target cargo test --offline --test seeded_C03
//
// Seeded-defect demonstration for property C03 (crash leaves a file that reopens
// to authentic, untorn contents). Public API only; the crash image is assembled
// from bytes the store itself wrote, so no on-disk format is re-implemented here.
//
// Scenario: the record being written when the machine dies is the one that fills
// the device up to its very last block. The allocation-intent journal is already
// durable, the journal clear has not been written, and only some of the record's
// sectors reached the platter. Recovery must replay the intent (retire the whole
// in-flight extent) before scanning.

use crate::constants::{FEOX_BLOCK_SIZE, FEOX_DATA_START_BLOCK};
use crate::FeoxStore;
use tempfile::NamedTempFile;

const BLOCK: usize = FEOX_BLOCK_SIZE;
const DATA_START: usize = FEOX_DATA_START_BLOCK as usize;
// 16 reserved blocks + 1 block for key "a" + 3 blocks for key "wide".
const DEVICE_BLOCKS: usize = DATA_START + 1 + 3;
const DEVICE_SIZE: u64 = (DEVICE_BLOCKS * BLOCK) as u64;

// Journal geometry: two slots of three blocks each, starting at block 1.
const JOURNAL_SLOT0_BLOCKS: std::ops::Range<usize> = 1..4;

const WIDE_SECTOR: usize = DATA_START + 1; // 17
const WIDE_SECTORS: usize = 3; // 17, 18, 19  -> ends exactly at DEVICE_BLOCKS
const GHOST_SECTOR: usize = WIDE_SECTOR + 1; // 18, a continuation block of "wide"

fn open(path: &str) -> crate::Result<FeoxStore> {
    FeoxStore::builder()
        .device_path(path.to_string())
        .file_size(DEVICE_SIZE)
        .enable_caching(false)
        .build()
}

fn block(image: &[u8], sector: usize) -> &[u8] {
    &image[sector * BLOCK..(sector + 1) * BLOCK]
}

/// Byte-exact image of a valid record for key "ghost" as it would sit at
/// GHOST_SECTOR, obtained from a scratch store in which it really was written there.
fn ghost_block() -> Vec<u8> {
    let scratch = NamedTempFile::new().unwrap();
    let path = scratch.path().to_str().unwrap().to_string();
    {
        let store = open(&path).unwrap();
        for key in [&b"x"[..], b"y", b"ghost"] {
            store.insert(key, b"ghost-value").unwrap();
            store.flush().unwrap();
        }
    }
    let image = std::fs::read(&path).unwrap();
    let ghost = block(&image, GHOST_SECTOR).to_vec();
    assert_eq!(&ghost[..2], &[0xCD, 0xAB], "scratch record marker");
    assert_eq!(&ghost[6..11], b"ghost", "scratch record is not at the expected sector");
    ghost
}

/// Returns (path holder, image before the in-flight write, image after it completed).
fn build_images() -> (NamedTempFile, Vec<u8>, Vec<u8>) {
    let file = NamedTempFile::new().unwrap();
    let path = file.path().to_str().unwrap().to_string();

    // Session 1: one acknowledged key.
    {
        let store = open(&path).unwrap();
        store.insert(b"a", b"alpha").unwrap();
        store.flush().unwrap();
    }
    let before = std::fs::read(&path).unwrap();
    assert_eq!(before.len(), DEVICE_SIZE as usize);

    // Session 2: the write that will be "in flight" at the crash. Its value holds,
    // block-aligned, a byte-exact image of a valid record (the workload class the
    // property explicitly quantifies over).
    let key = b"wide";
    let value_offset = 4 + 2 + key.len() + 8 + 8 + 8;
    let mut value = vec![b'W'; 2 * BLOCK];
    let at = BLOCK - value_offset;
    value[at..at + BLOCK].copy_from_slice(&ghost_block());
    {
        let store = open(&path).unwrap();
        store.insert(key, &value).unwrap();
        store.flush().unwrap();
    }
    let after = std::fs::read(&path).unwrap();

    // Sanity: the record landed on the last three blocks of the device and the
    // intent journal in slot 0 names exactly that extent.
    assert_eq!(&block(&after, WIDE_SECTOR)[..2], &[0xCD, 0xAB]);
    assert_eq!(&block(&after, WIDE_SECTOR)[6..10], b"wide");
    assert_eq!(WIDE_SECTOR + WIDE_SECTORS, DEVICE_BLOCKS);
    let slot0 = block(&after, JOURNAL_SLOT0_BLOCKS.start);
    assert_eq!(u32::from_le_bytes(slot0[24..28].try_into().unwrap()), 1, "slot 0 is not an active intent");
    assert_eq!(u32::from_le_bytes(slot0[28..32].try_into().unwrap()), 1);
    assert_eq!(u32::from_le_bytes(slot0[40..44].try_into().unwrap()) as usize, WIDE_SECTOR);
    assert_eq!(u32::from_le_bytes(slot0[44..48].try_into().unwrap()) as usize, WIDE_SECTORS);

    (file, before, after)
}

/// Device state at a crash after the intent journal became durable, before the
/// journal clear, with only `persisted` of the record's sectors on the platter.
fn crash_image(before: &[u8], after: &[u8], persisted: &[usize]) -> Vec<u8> {
    let mut image = before.to_vec();
    for sector in JOURNAL_SLOT0_BLOCKS.chain(persisted.iter().copied()) {
        image[sector * BLOCK..(sector + 1) * BLOCK].copy_from_slice(block(after, sector));
    }
    image
}

fn assert_only_acknowledged_contents(path: &str) {
    let store = open(path).expect("the file must reopen after a crash");
    assert_eq!(store.get(b"a").unwrap(), b"alpha");
    assert!(
        !store.contains_key(b"ghost"),
        "bytes embedded in another key's value surfaced as a key that was never written"
    );
    if store.contains_key(b"wide") {
        let value = store.get(b"wide").unwrap();
        assert_eq!(value.len(), 2 * BLOCK, "half-written record surfaced");
    }
    let exposed = 1 + usize::from(store.contains_key(b"wide")) + usize::from(store.contains_key(b"ghost"));
    assert_eq!(store.len(), exposed);
    assert_eq!(store.len(), 1);
}

#[test]
fn crash_while_filling_the_last_blocks_only_a_continuation_sector_persisted() {
    let (file, before, after) = build_images();
    let path = file.path().to_str().unwrap().to_string();
    std::fs::write(&path, crash_image(&before, &after, &[GHOST_SECTOR])).unwrap();
    assert_only_acknowledged_contents(&path);
}

#[test]
fn crash_while_filling_the_last_blocks_only_the_head_sector_persisted() {
    let (file, before, after) = build_images();
    let path = file.path().to_str().unwrap().to_string();
    std::fs::write(&path, crash_image(&before, &after, &[WIDE_SECTOR])).unwrap();
    assert_only_acknowledged_contents(&path);
}

/// Control: the same crash one block away from the end of the device.
#[test]
fn control_same_crash_not_touching_the_last_block_recovers() {
    let (file, before, after) = build_images();
    let path = file.path().to_str().unwrap().to_string();
    // Grow the device by one block: the in-flight extent no longer ends at the
    // device boundary. (The store takes the device size from the file length.)
    let mut image = crash_image(&before, &after, &[GHOST_SECTOR]);
    image.extend_from_slice(&vec![0; BLOCK]);
    std::fs::write(&path, image).unwrap();
    let store = FeoxStore::builder()
        .device_path(path)
        .enable_caching(false)
        .build()
        .expect("the file must reopen after a crash");
    assert_eq!(store.get(b"a").unwrap(), b"alpha");
    assert!(!store.contains_key(b"ghost"));
    assert_eq!(store.len(), 1);
}
