//! Native witness for "the sweeper removes the ordered-index slot while it still holds the entry guard" (`site_ttl_sweeper_guarded_removal`):
//! the real background sweeper collects born-expired keys while client threads re-create each key (no TTL) the moment it is
//! gone; afterwards get and range_query must agree on every key. Stress, not a schedule: it cannot fail on code that keeps the
//! index removal under the guard, so it only confirms. From the independently seeded demonstration seeded/r5-C11/demo.rs.
use std::sync::Arc;
use std::thread;
use std::time::{Duration, Instant};

use crate::core::ttl_sweep::TtlConfig;
use crate::FeoxStore;

const KEYS: usize = 4096;
const CLIENTS: usize = 3;
const ROUNDS: usize = 12;
const BUDGET: Duration = Duration::from_secs(40);

fn key(index: usize) -> Vec<u8> {
    format!("session:{index:05}").into_bytes()
}

#[test]
fn verif_witness_c11_sweeper_vs_recreation() {
    let started = Instant::now();
    let store = Arc::new(FeoxStore::builder().enable_ttl(true).build().unwrap());
    store.start_ttl_sweeper(Some(TtlConfig {
        sample_size: KEYS,
        expiry_threshold: 0.25,
        max_iterations: 16,
        max_time_per_run: Duration::from_millis(1),
        sleep_interval: Duration::from_millis(2),
        enabled: true,
    }));

    let keys: Vec<Vec<u8>> = (0..KEYS).map(key).collect();

    for round in 0..ROUNDS {
        if started.elapsed() > BUDGET {
            break;
        }

        // Generation 1: expiry instant = 1ns + 1s after the epoch, i.e. long past.
        for k in &keys {
            store
                .insert_with_ttl_and_timestamp(k, b"expired", 1, Some(1))
                .unwrap();
        }

        // Clients recreate every key (no expiry) as soon as the sweeper collected it.
        let gave_up = std::sync::atomic::AtomicBool::new(false);
        let gave_up = &gave_up;
        thread::scope(|scope| {
            for share in keys.chunks(KEYS.div_ceil(CLIENTS)) {
                let store = &store;
                scope.spawn(move || {
                    let deadline = Instant::now() + Duration::from_secs(20);
                    let mut pending: Vec<&Vec<u8>> = share.iter().collect();
                    while !pending.is_empty() {
                        if Instant::now() >= deadline {
                            gave_up.store(true, std::sync::atomic::Ordering::SeqCst);
                            return;
                        }
                        pending.retain(|k| {
                            if store.contains_key(k) {
                                return true;
                            }
                            store.insert(k, b"live").unwrap();
                            false
                        });
                    }
                });
            }
        });

        if gave_up.load(std::sync::atomic::Ordering::SeqCst) {
            eprintln!("witness inconclusive in round {round}: sweeper too slow on this machine");
            return;
        }
        // Let whatever sweep was in flight finish.
        thread::sleep(Duration::from_millis(50));

        // Every key now has a latest generation without expiry: nothing may hide it.
        let mut hidden_from_get = 0;
        let mut hidden_from_range = 0;
        for k in &keys {
            match store.get(k) {
                Ok(value) => assert_eq!(value, b"live"),
                Err(_) => hidden_from_get += 1,
            }
            let hit = store.range_query(k, k, 1).unwrap();
            if hit.len() != 1 || hit[0].0 != *k || hit[0].1 != b"live" {
                hidden_from_range += 1;
            }
        }
        let all = store
            .range_query(b"session:", b"session:~", KEYS + 1)
            .unwrap();
        assert_eq!(
            (hidden_from_get, hidden_from_range, all.len()),
            (0, 0, KEYS),
            "round {round}: live keys (no expiry) are hidden: {hidden_from_get} from get, \
             {hidden_from_range} from single-key range queries; full range query returned {} of {KEYS}",
            all.len()
        );

        // Reset for the next round.
        for k in &keys {
            store.delete(k).unwrap();
        }
    }
}
