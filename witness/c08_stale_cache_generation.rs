//! Native witness for 'cache lookups are generation-tagged' (adapted from seeded/r2-C08/demo.rs: a get racing an update
//! must never leave the previous generation's bytes to be served after the update completed).
// Demonstration for the seeded C08 defect. Integration test, public API only; cargo picks it up
// automatically:
//   CARGO_TARGET_DIR=/tmp/mut2/C08/target cargo test --offline --test seeded_C08
//
// C08: a read that begins after an update has completed must return a value the key held at
// some moment no earlier than that update (cache on and off, multi-block values, readers
// racing writers and flushers).
//
// Interleaving that is needed:
//   1. generation G1 of the key is flushed, so its value lives only in its disk extent;
//   2. a reader resolves G1 from the index and is still inside its disk read ...
//   3. ... while an update publishes generation G2 and finishes (its cache invalidation for G1
//      finds nothing to remove, because the reader has not populated the cache yet);
//   4. the reader finishes, returns G1's bytes (legal: it overlapped the update) and, as every
//      disk read does, leaves them in the value cache tagged with generation G1;
//   5. G2 is flushed and offloaded, G1's extent is retired;
//   6. a NEW read starts. It must see G2's value: the cache entry belongs to a dead generation.
//
// Step 2/3 is a real race, so the test repeats the round with large (multi-block) values, which
// makes the reader's disk read long compared with the writer's index swap, and with a sliding
// start offset for the writer. The assertion in step 6 can never fail on a correct store; the
// reader's own result is only required to be one of the two complete generations.

use crate::FeoxStore;
use std::sync::{Arc, Barrier};
use std::thread;
use std::time::{Duration, Instant};
use tempfile::NamedTempFile;

const KEY: &[u8] = b"victim";
const VALUE_LEN: usize = 2 * 1024 * 1024;
const DEVICE_SIZE: u64 = 256 * 1024 * 1024;
const ROUNDS: usize = 48;

fn generation(round: usize, new: bool) -> Vec<u8> {
    // Every generation gets its own fill byte, so a stale value is unambiguous.
    vec![(round * 2 + new as usize) as u8 + 1; VALUE_LEN]
}

fn spin_for(delay: Duration) {
    let start = Instant::now();
    while start.elapsed() < delay {
        std::hint::spin_loop();
    }
}

#[test]
fn read_started_after_a_completed_update_never_returns_the_previous_generation() {
    let file = NamedTempFile::new().unwrap();
    let store = Arc::new(
        FeoxStore::builder()
            .device_path(file.path().to_str().unwrap().to_string())
            .file_size(DEVICE_SIZE)
            .enable_caching(true)
            .build()
            .unwrap(),
    );

    let mut overlapped = 0;
    for round in 0..ROUNDS {
        let old = generation(round, false);
        let new = generation(round, true);

        // Step 1: G1 is durable and offloaded; nothing for this generation is cached.
        store.insert(KEY, &old).unwrap();
        store.flush().unwrap();

        // Steps 2-4: one reader races one update.
        let barrier = Arc::new(Barrier::new(2));
        let reader = {
            let store = Arc::clone(&store);
            let barrier = Arc::clone(&barrier);
            thread::spawn(move || {
                barrier.wait();
                store.get(KEY)
            })
        };
        barrier.wait();
        spin_for(Duration::from_micros(((round % 8) * 50) as u64));
        store.insert(KEY, &new).unwrap();

        let seen = reader
            .join()
            .unwrap()
            .expect("reader failed although the key existed throughout");
        assert!(
            seen == old || seen == new,
            "round {round}: racing reader returned bytes of neither generation (first byte {:?})",
            seen.first()
        );
        if seen == old {
            overlapped += 1;
        }

        // Step 5: G2 becomes durable and is offloaded, G1's extent is retired.
        store.flush().unwrap();

        // Step 6: these reads begin after the update and the flush have completed.
        let after = store.get(KEY).unwrap();
        assert!(
            after == new,
            "round {round}: get() started after the update completed but returned the previous \
             generation (first byte {:?}, expected {:?})",
            after.first(),
            new.first()
        );
        let after = store.get_bytes(KEY).unwrap();
        assert!(
            after.as_ref() == new.as_slice(),
            "round {round}: get_bytes() returned the previous generation"
        );
        let range = store.range_query(KEY, KEY, 1).unwrap();
        assert_eq!(range.len(), 1);
        assert!(
            range[0].1 == new,
            "round {round}: range_query() returned the previous generation"
        );
    }

    // Not an assertion: on a correct store the result is the same however often the race hit.
    eprintln!("seeded_C08: reader overlapped the update in {overlapped}/{ROUNDS} rounds");
}
