//! Native witness for 'an acknowledged generation is retired only after its successor is durable' (adapted from the
//! independently seeded demonstration seeded/C02/demo.rs).
// Demonstration for the seeded C02 defect. Public API only; no wiring needed:
//   cd /tmp/mut/C02 && CARGO_TARGET_DIR=/tmp/mut/C02/target cargo test --offline --test seeded_C02
//
// Scenario: a value acknowledged by flush() is replaced twice in a row while the
// device is full. The middle generation is superseded before it is ever written,
// and the last generation does not fit, so its write fails with OutOfSpace. The
// acknowledged generation is then the key's only durable copy and must stay on
// disk: a crash image taken at that point, and the file after a clean close,
// must both still recover the key.

use crate::{FeoxError, FeoxStore};
use tempfile::TempDir;

const BLOCK: u64 = 4096;
const DATA_START_BLOCK: u64 = 16;
const DATA_BLOCKS: u64 = 8;
const KEY: &[u8] = b"survivor";
const ACKED: &[u8] = b"acknowledged-generation";
const MIDDLE: &[u8] = b"middle-generation";

fn open(path: &str) -> FeoxStore {
    FeoxStore::builder()
        .device_path(path.to_string())
        .file_size((DATA_START_BLOCK + DATA_BLOCKS) * BLOCK)
        .enable_caching(false)
        .build()
        .unwrap()
}

fn assert_some_generation(store: &FeoxStore, last: &[u8], what: &str) {
    let value = store.get(KEY).unwrap_or_else(|error| {
        panic!("{what}: flush-acknowledged key was lost on reopen: {error:?}")
    });
    assert!(
        value == ACKED || value == MIDDLE || value == last,
        "{what}: recovered a value that is in nobody's history ({} bytes)",
        value.len()
    );
}

#[test]
fn acknowledged_value_survives_two_unwritable_replacements() {
    let dir = TempDir::new().unwrap();
    let path = dir.path().join("store.feox");
    let path = path.to_str().unwrap().to_string();
    let image = dir.path().join("crash-image.feox");
    let image = image.to_str().unwrap().to_string();
    // Two blocks on disk, so it cannot fit into the single block the
    // acknowledged generation occupies.
    let last = vec![b'L'; 6000];

    {
        let store = open(&path);

        store.insert(KEY, ACKED).unwrap();
        store.flush().expect("the acknowledgement this test relies on");

        // Fill every remaining block with acknowledged one-block records.
        let mut filler = 0;
        loop {
            let key = format!("filler{filler:04}");
            store.insert(key.as_bytes(), b"x").unwrap();
            match store.flush() {
                Ok(()) => filler += 1,
                Err(FeoxError::OutOfSpace) => {
                    // Withdraw the record that did not fit so nothing is left pending.
                    store.delete(key.as_bytes()).unwrap();
                    store.flush().unwrap();
                    break;
                }
                Err(error) => panic!("unexpected flush error while filling: {error:?}"),
            }
            assert!(filler <= DATA_BLOCKS, "device never filled");
        }
        assert!(filler >= 2, "device was unexpectedly small");

        // Two replacements back to back: the middle one is superseded before it
        // is written, the last one cannot be allocated.
        store.insert(KEY, MIDDLE).unwrap();
        store.insert(KEY, &last).unwrap();
        assert!(
            matches!(store.flush(), Err(FeoxError::OutOfSpace)),
            "the oversized replacement cannot be durable on a full device"
        );

        // Crash at this instant: everything issued so far has reached the file.
        std::fs::copy(&path, &image).unwrap();
        // ... and otherwise a clean close.
    }

    let crashed = open(&image);
    assert_some_generation(&crashed, &last, "crash image after the failed flush");
    for index in 0..2 {
        let key = format!("filler{index:04}");
        assert_eq!(crashed.get(key.as_bytes()).unwrap(), b"x");
    }
    drop(crashed);

    let reopened = open(&path);
    assert_some_generation(&reopened, &last, "clean close after the failed flush");
}
