// VERIF-MOUNT: src/core/store/mod.rs
//! General native witness for the accounting / persistence-protocol obligations (C10, C13, C04, C05):
//! a deterministic pseudo-random single-threaded workload against a reference map, on a memory store and on a file
//! store with flushes and clean reopens; after every phase
//!   * contents equal the reference map (last writer wins),
//!   * len() == number of live keys, memory_usage() == sum of (overhead + key + value) over live keys – where the
//!     per-record overhead is measured once from a one-record store – and both return to zero when all is deleted,
//!   * a clean close writes metadata whose counters equal the live totals, leaves both allocation-journal slots
//!     inactive, and three reopens without writing yield the same contents and the same statistics,
//!   * space is reusable: filling, deleting everything and filling again succeeds in the same file.
use std::collections::BTreeMap;

use crate::constants::FEOX_BLOCK_SIZE;
use super::FeoxStore;
use std::sync::atomic::Ordering;
use crate::storage::allocation_journal::ALLOCATION_JOURNAL_START_BLOCK;
use crate::storage::metadata::Metadata;
use tempfile::NamedTempFile;

const DEVICE_SIZE: u64 = 16 * 1024 * 1024;

struct Rng(u64);
impl Rng {
    fn next(&mut self) -> u64 {
        self.0 ^= self.0 << 13;
        self.0 ^= self.0 >> 7;
        self.0 ^= self.0 << 17;
        self.0
    }
}

fn overhead() -> usize {
    let s = FeoxStore::new(None).unwrap();
    s.insert(b"kk", b"vvv").unwrap();
    s.memory_usage() - 2 - 3
}

fn expected_usage(model: &BTreeMap<Vec<u8>, Vec<u8>>, overhead: usize) -> usize {
    model.iter().map(|(k, v)| overhead + k.len() + v.len()).sum()
}

fn check(store: &FeoxStore, model: &BTreeMap<Vec<u8>, Vec<u8>>, overhead: usize, what: &str) {
    assert_eq!(store.len(), model.len(), "{what}: len()");
    for (k, v) in model {
        assert_eq!(&store.get(k).unwrap_or_else(|e| panic!("{what}: get {:?}: {e}", String::from_utf8_lossy(k))), v, "{what}: value of {:?}", String::from_utf8_lossy(k));
    }
    let scanned = store.range_query(b"", &[0xff; 8], usize::MAX).unwrap();
    assert_eq!(scanned.len(), model.len(), "{what}: range scan size");
    for ((k, v), (mk, mv)) in scanned.iter().zip(model.iter()) {
        assert!(k == mk && v == mv, "{what}: range scan differs at {:?}", String::from_utf8_lossy(mk));
    }
    assert_eq!(store.memory_usage(), expected_usage(model, overhead), "{what}: memory_usage()");
}

fn step(store: &FeoxStore, model: &mut BTreeMap<Vec<u8>, Vec<u8>>, rng: &mut Rng) {
    let key = format!("key-{:03}", rng.next() % 40).into_bytes();
    match rng.next() % 10 {
        0..=5 => {
            let len = match rng.next() % 6 {
                0 => 1,
                1 => 4060,
                2 => 4061,
                3 => 9000 + (rng.next() % 3000) as usize,
                _ => 1 + (rng.next() % 700) as usize,
            };
            let fill = rng.next() as u8;
            let value: Vec<u8> = (0..len).map(|i| fill.wrapping_add(i as u8)).collect();
            store.insert(&key, &value).unwrap();
            model.insert(key, value);
        }
        6..=7 => {
            let r = store.delete(&key);
            assert_eq!(r.is_ok(), model.remove(&key).is_some(), "delete result");
        }
        8 => {
            if let Some(cur) = model.get(&key).cloned() {
                let new = vec![0x5a; 1 + (rng.next() % 5000) as usize];
                assert!(store.compare_and_swap(&key, &cur, &new).unwrap());
                model.insert(key, new);
            } else {
                assert!(!store.compare_and_swap(&key, b"x", b"y").unwrap());
            }
        }
        _ => {
            let inserted = store.insert_if_absent(&key, b"fresh").unwrap();
            assert_eq!(inserted, !model.contains_key(&key), "insert_if_absent result");
            model.entry(key).or_insert_with(|| b"fresh".to_vec());
        }
    }
}

#[test]
fn memory_store_matches_the_model() {
    let oh = overhead();
    for seed in [1u64, 0x9e3779b97f4a7c15, 42] {
        let store = FeoxStore::new(None).unwrap();
        let mut model = BTreeMap::new();
        let mut rng = Rng(seed);
        for i in 0..1500 {
            step(&store, &mut model, &mut rng);
            if i % 250 == 249 {
                check(&store, &model, oh, "memory store");
            }
        }
        for k in model.keys().cloned().collect::<Vec<_>>() {
            store.delete(&k).unwrap();
        }
        model.clear();
        check(&store, &model, oh, "memory store emptied");
        assert_eq!(store.memory_usage(), 0, "usage does not return to zero");
    }
}

fn open(path: &str, caching: bool) -> FeoxStore {
    FeoxStore::builder().hash_bits(6).device_path(path.to_string()).file_size(DEVICE_SIZE).enable_caching(caching).build().unwrap()
}

fn file_invariants(path: &str, model: &BTreeMap<Vec<u8>, Vec<u8>>, disk_usage: u64, what: &str) {
    let bytes = std::fs::read(path).unwrap();
    let meta = Metadata::from_bytes(&bytes[..FEOX_BLOCK_SIZE]).unwrap_or_else(|| panic!("{what}: primary metadata unreadable"));
    assert_eq!(meta.total_records as usize, model.len(), "{what}: metadata.total_records");
    assert_eq!(meta.total_size, disk_usage, "{what}: metadata.total_size");
    // both journal slots are inactive after a clean close: the journal area names no extent
    let start = ALLOCATION_JOURNAL_START_BLOCK as usize * FEOX_BLOCK_SIZE;
    let total_sectors = bytes.len() as u64 / FEOX_BLOCK_SIZE as u64;
    let len = crate::storage::allocation_journal::ALLOCATION_JOURNAL_BLOCKS as usize * FEOX_BLOCK_SIZE;
    match crate::storage::allocation_journal::decode(&bytes[start..start + len], total_sectors) {
        Ok(state) => assert!(state.extents.is_empty(), "{what}: the allocation journal is not clear after a clean close: {:?}", state.extents),
        Err(e) => panic!("{what}: the allocation journal does not decode after a clean close: {e}"),
    }
}

#[test]
fn file_store_matches_the_model_across_flush_and_reopen() {
    let oh = overhead();
    for (seed, caching) in [(7u64, false), (0xdeadbeefcafe, true)] {
        let file = NamedTempFile::new().unwrap();
        let path = file.path().to_string_lossy().into_owned();
        let mut model = BTreeMap::new();
        let mut rng = Rng(seed);
        for phase in 0..4 {
            let store = open(&path, caching);
            check(&store, &model, oh, &format!("phase {phase} after reopen"));
            for i in 0..400 {
                step(&store, &mut model, &mut rng);
                if i % 100 == 99 {
                    store.flush().unwrap();
                    check(&store, &model, oh, &format!("phase {phase} after flush"));
                }
            }
            store.flush().unwrap();
            let disk_before = store.stats.disk_usage.load(Ordering::Relaxed);
            drop(store);
            file_invariants(&path, &model, disk_before, &format!("phase {phase}"));
            // reopening without writing: same contents and the same statistics, every time
            let mut seen = None;
            for round in 0..3 {
                let s = open(&path, caching);
                check(&s, &model, oh, &format!("phase {phase} idle reopen {round}"));
                let st = (s.len(), s.memory_usage(), s.stats.disk_usage.load(Ordering::Relaxed));
                assert_eq!(st.2, disk_before, "phase {phase} idle reopen {round}: disk usage differs from the value before close");
                if let Some(prev) = seen {
                    assert_eq!(prev, st, "phase {phase}: statistics differ between idle reopens");
                }
                seen = Some(st);
            }
        }
        // everything deleted: counters return to zero and the space is reusable
        let store = open(&path, caching);
        for k in model.keys().cloned().collect::<Vec<_>>() {
            store.delete(&k).unwrap();
        }
        model.clear();
        store.flush().unwrap();
        check(&store, &model, oh, "file store emptied");
        assert_eq!(store.stats.disk_usage.load(Ordering::Relaxed), 0, "disk usage does not return to zero");
        let big = vec![9u8; 60_000];
        let n = (DEVICE_SIZE as usize / 2) / (big.len() + FEOX_BLOCK_SIZE);
        for round in 0..3 {
            for i in 0..n {
                store.insert(format!("fill-{i:04}").as_bytes(), &big).unwrap();
            }
            store.flush().unwrap_or_else(|e| panic!("fill round {round}: flush failed although everything was freed before: {e}"));
            for i in 0..n {
                store.delete(format!("fill-{i:04}").as_bytes()).unwrap();
            }
            store.flush().unwrap();
            assert_eq!(store.stats.disk_usage.load(Ordering::Relaxed), 0, "fill round {round}: disk usage after deleting everything");
        }
    }
}
