//! Native witness for C04: recovery's repairs touch only blocks that belong to no live record, and reopening
//! without writing yields the same contents every time.
//!
//! Crash image: the replacement of `victim` is durable but the superseded extent was not retired (its blocks are
//! put back from a snapshot), and a live `neighbor` starts in the block right behind the superseded extent. The
//! value length is swept across the one-block and two-block boundaries so that the superseded extent ends exactly
//! at, just before and just after a block boundary.

use crate::constants::{FEOX_BLOCK_SIZE, FEOX_DATA_START_BLOCK};
use crate::FeoxStore;
use tempfile::NamedTempFile;

const DEVICE_SIZE: u64 = 2 * 1024 * 1024;

fn open(path: &str) -> FeoxStore {
    FeoxStore::builder().hash_bits(4).device_path(path.to_string()).file_size(DEVICE_SIZE).enable_caching(false).build().unwrap()
}

/// returns the block indices of the superseded (dead) extent that were put back
fn crash_image(path: &str, old_len: usize) -> Vec<usize> {
    {
        let store = open(path);
        store.insert(b"victim", &vec![b'a'; old_len]).unwrap();
        store.flush().unwrap();
        store.insert(b"neighbor", &vec![b'n'; 700]).unwrap();
        store.flush().unwrap();
    }
    let before = std::fs::read(path).unwrap();
    {
        let store = open(path);
        store.insert(b"victim", &vec![b'b'; 333]).unwrap();
        store.flush().unwrap();
    }
    let mut after = std::fs::read(path).unwrap();
    assert_eq!(before.len(), after.len());
    let data_start = FEOX_DATA_START_BLOCK as usize * FEOX_BLOCK_SIZE;
    let mut restored = Vec::new();
    let mut offset = data_start;
    while offset + FEOX_BLOCK_SIZE <= before.len() {
        let old = &before[offset..offset + FEOX_BLOCK_SIZE];
        if old.iter().any(|b| *b != 0) && old != &after[offset..offset + FEOX_BLOCK_SIZE] {
            after[offset..offset + FEOX_BLOCK_SIZE].copy_from_slice(old);
            restored.push(offset / FEOX_BLOCK_SIZE);
        }
        offset += FEOX_BLOCK_SIZE;
    }
    assert!(!restored.is_empty(), "scenario not constructed: the superseded extent was not retired in place");
    std::fs::write(path, &after).unwrap();
    restored
}

fn contents(store: &FeoxStore) -> Vec<(Vec<u8>, Result<Vec<u8>, String>)> {
    let mut out = Vec::new();
    for key in [&b"victim"[..], &b"neighbor"[..]] {
        if store.contains_key(key) {
            out.push((key.to_vec(), store.get(key).map_err(|e| e.to_string())));
        }
    }
    out
}

fn check(old_len: usize) {
    let file = NamedTempFile::new().unwrap();
    let path = file.path().to_str().unwrap().to_string();
    let dead = crash_image(&path, old_len);
    let image = std::fs::read(&path).unwrap();
    let want = vec![(b"victim".to_vec(), Ok(vec![b'b'; 333])), (b"neighbor".to_vec(), Ok(vec![b'n'; 700]))];

    for round in 1..=3 {
        let store = open(&path);
        assert_eq!(store.len(), 2, "old_len {old_len}, recovery {round}: number of keys");
        assert_eq!(contents(&store), want, "old_len {old_len}, recovery {round}: contents");
        drop(store);
        let now = std::fs::read(&path).unwrap();
        let data_start = FEOX_DATA_START_BLOCK as usize;
        for block in data_start..now.len() / FEOX_BLOCK_SIZE {
            let range = block * FEOX_BLOCK_SIZE..(block + 1) * FEOX_BLOCK_SIZE;
            if now[range.clone()] != image[range] {
                assert!(dead.contains(&block), "old_len {old_len}, recovery {round}: block {block} was rewritten although it is not part of the superseded extent {dead:?}");
            }
        }
    }
}

#[test]
fn superseded_extent_around_one_block() {
    for old_len in 4056..=4064 {
        check(old_len);
    }
}

#[test]
fn superseded_extent_around_two_blocks() {
    for old_len in 8152..=8160 {
        check(old_len);
    }
}

#[test]
fn superseded_extent_small_and_large() {
    for old_len in [1usize, 100, 3000, 20000] {
        check(old_len);
    }
}
