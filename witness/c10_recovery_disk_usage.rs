//! Native witness: metadata total_size equals the live extents after recovering a replaced generation (adapted from the independently seeded demonstration seeded/r2-C10/demo.rs).
// Demonstration for seeded defect C10. Wire/run: place this file at tests/seeded_C10.rs and run
//   CARGO_TARGET_DIR=/tmp/mut2/C10/target cargo test --offline --test seeded_C10
//
// Uses only the public API plus an independent reader of the documented v3 device layout.
//
// Scenario: a key is replaced by a newer version whose extent has a different block count, and
// the process dies after the replacement record is durable but before the old extent receives
// its retirement markers (both generations are on the device, each with a valid sector-and-
// content-bound token). The next open resolves the duplicate (newest timestamp wins). After
// flush() the checksummed metadata counters must equal the live totals found by scanning the
// file.

use std::collections::HashMap;
use std::fs::OpenOptions;
use std::io::{Read, Seek, SeekFrom, Write};
use std::path::Path;

use crate::FeoxStore;
use tempfile::TempDir;

const BLOCK: usize = 4096;
const DATA_START: u64 = 16;
const METADATA_PRIMARY: u64 = 0;
const METADATA_BACKUP: u64 = 7;
const JOURNAL_START: u64 = 1;
const JOURNAL_SLOT_BLOCKS: u64 = 3;
const DEVICE_SIZE: u64 = 256 * BLOCK as u64;
const DELETED: &[u8; 8] = b"\0DELETED";

// ---------------------------------------------------------------------------------------------
// Independent reader of the documented layout (no library code involved).
// ---------------------------------------------------------------------------------------------

fn crc32c(seed: u32, data: &[u8]) -> u32 {
    let mut crc = !seed;
    for &byte in data {
        crc ^= byte as u32;
        for _ in 0..8 {
            crc = if crc & 1 != 0 {
                (crc >> 1) ^ 0x82F6_3B78
            } else {
                crc >> 1
            };
        }
    }
    !crc
}

fn fold(crc: u32) -> u16 {
    match ((crc >> 16) ^ (crc & 0xFFFF)) as u16 {
        0 => 1,
        token => token,
    }
}

fn u16_at(data: &[u8], at: usize) -> u16 {
    u16::from_le_bytes(data[at..at + 2].try_into().unwrap())
}
fn u32_at(data: &[u8], at: usize) -> u32 {
    u32::from_le_bytes(data[at..at + 4].try_into().unwrap())
}
fn u64_at(data: &[u8], at: usize) -> u64 {
    u64::from_le_bytes(data[at..at + 8].try_into().unwrap())
}

fn read_blocks(path: &Path, block: u64, count: u64) -> Vec<u8> {
    let mut file = OpenOptions::new().read(true).open(path).unwrap();
    file.seek(SeekFrom::Start(block * BLOCK as u64)).unwrap();
    let mut data = vec![0; count as usize * BLOCK];
    file.read_exact(&mut data).unwrap();
    data
}

fn write_blocks(path: &Path, block: u64, data: &[u8]) {
    assert_eq!(data.len() % BLOCK, 0);
    let mut file = OpenOptions::new().write(true).open(path).unwrap();
    file.seek(SeekFrom::Start(block * BLOCK as u64)).unwrap();
    file.write_all(data).unwrap();
    file.sync_all().unwrap();
}

#[derive(Debug, Clone, Copy)]
struct Meta {
    version: u32,
    total_records: u64,
    total_size: u64,
    device_size: u64,
    generation: u64,
}

/// One v3 metadata copy: signature, checksum magic, CRC32C + complement over the documented
/// fields, generation counter.
fn parse_metadata_copy(block: &[u8]) -> Option<Meta> {
    if &block[..8] != b"FEOX_SIG" {
        return None;
    }
    let reserved = &block[64..132];
    if &reserved[..4] != b"FM3C" {
        return None;
    }
    let checksum = u32_at(reserved, 4);
    let complement = u32_at(reserved, 8);
    let mut crc = crc32c(0, &block[0..8]); // signature
    crc = crc32c(crc, &block[8..12]); // version
    crc = crc32c(crc, &block[16..24]); // total_records
    crc = crc32c(crc, &block[24..32]); // total_size
    crc = crc32c(crc, &block[32..40]); // device_size
    crc = crc32c(crc, &block[40..44]); // block_size
    crc = crc32c(crc, &block[44..48]); // fragmentation
    crc = crc32c(crc, &block[48..56]); // creation_time
    crc = crc32c(crc, &block[56..64]); // last_update_time
    crc = crc32c(crc, &reserved[12..]); // generation + rest
    if complement != !checksum || crc != checksum {
        return None;
    }
    Some(Meta {
        version: u32_at(block, 8),
        total_records: u64_at(block, 16),
        total_size: u64_at(block, 24),
        device_size: u64_at(block, 32),
        generation: u64_at(reserved, 12),
    })
}

fn read_metadata(path: &Path) -> Meta {
    let primary = parse_metadata_copy(&read_blocks(path, METADATA_PRIMARY, 1));
    let backup = parse_metadata_copy(&read_blocks(path, METADATA_BACKUP, 1));
    match (primary, backup) {
        (Some(primary), Some(backup)) if backup.generation > primary.generation => backup,
        (Some(primary), _) => primary,
        (None, Some(backup)) => backup,
        (None, None) => panic!("no valid metadata copy on the device"),
    }
}

/// The newest valid slot of the two-slot allocation journal must be in the clear state.
fn journal_is_clear(path: &Path) -> bool {
    let mut newest: Option<(u64, u32, u32)> = None;
    for slot in 0..2u64 {
        let data = read_blocks(path, JOURNAL_START + slot * JOURNAL_SLOT_BLOCKS, JOURNAL_SLOT_BLOCKS);
        if &data[..8] != b"\0FEOXAJ1" {
            continue;
        }
        let generation = u64_at(&data, 16);
        let state = u32_at(&data, 24);
        let count = u32_at(&data, 28);
        let image = (40 + count as usize * 8).div_ceil(BLOCK) * BLOCK;
        if image > data.len() {
            continue;
        }
        let checksum = u32_at(&data, 12);
        let complement = u32_at(&data, 32);
        let mut crc = crc32c(0, &data[..12]);
        crc = crc32c(crc, &[0; 4]);
        crc = crc32c(crc, &data[16..32]);
        crc = crc32c(crc, &[0; 4]);
        crc = crc32c(crc, &data[36..image]);
        if complement != !checksum || crc != checksum {
            continue;
        }
        if newest.is_none_or(|(best, _, _)| generation > best) {
            newest = Some((generation, state, count));
        }
    }
    matches!(newest, Some((_, 0, 0)))
}

#[derive(Debug, Clone)]
struct DiskRecord {
    sector: u64,
    blocks: u64,
    key: Vec<u8>,
    value: Vec<u8>,
    timestamp: u64,
    ttl_expiry: u64,
}

/// Scan the data area of a v3 device: skip retired extents by their per-block markers, verify
/// each record's token, return every record found.
fn scan_records(path: &Path, device_size: u64) -> Vec<DiskRecord> {
    let total = device_size / BLOCK as u64;
    let mut sector = DATA_START;
    let mut found = Vec::new();
    while sector < total {
        let head = read_blocks(path, sector, 1);
        if &head[..8] == DELETED {
            let remaining = u64_at(&head, 8);
            assert!(remaining >= 1 && sector + remaining <= total, "bad retirement marker");
            sector += remaining;
            continue;
        }
        if u16_at(&head, 0) != 0xABCD {
            sector += 1;
            continue;
        }
        let token = u16_at(&head, 2);
        let key_len = u16_at(&head, 4) as usize;
        let header = 4 + 2 + key_len + 8 + 8 + 8;
        assert!(key_len > 0 && header <= BLOCK, "record header must fit the head block");
        let value_len = u64_at(&head, 6 + key_len) as usize;
        let timestamp = u64_at(&head, 6 + key_len + 8);
        let ttl_expiry = u64_at(&head, 6 + key_len + 16);
        let blocks = (header + value_len).div_ceil(BLOCK) as u64;
        assert!(sector + blocks <= total, "record extent leaves the device");
        let extent = read_blocks(path, sector, blocks);

        let mut crc = crc32c(0, &sector.to_le_bytes());
        crc = crc32c(crc, &extent[..2]);
        crc = crc32c(crc, &[0, 0]);
        crc = crc32c(crc, &extent[4..]);
        assert_ne!(token, 0, "v3 record token is never zero");
        assert_eq!(token, fold(crc), "record token at sector {sector}");

        found.push(DiskRecord {
            sector,
            blocks,
            key: extent[6..6 + key_len].to_vec(),
            value: extent[header..header + value_len].to_vec(),
            timestamp,
            ttl_expiry,
        });
        sector += blocks;
    }
    found
}

/// Newest timestamp wins.
fn live_records(records: &[DiskRecord]) -> HashMap<Vec<u8>, DiskRecord> {
    let mut live: HashMap<Vec<u8>, DiskRecord> = HashMap::new();
    for record in records {
        match live.get(&record.key) {
            Some(current) if current.timestamp >= record.timestamp => {}
            _ => {
                live.insert(record.key.clone(), record.clone());
            }
        }
    }
    live
}

/// The C10 check proper: what an independent reader sees after flush().
fn assert_file_matches(path: &Path, expected: &[(&[u8], &[u8], u64)]) {
    let metadata = read_metadata(path);
    assert_eq!(metadata.version, 3);
    assert_eq!(metadata.device_size, DEVICE_SIZE);
    assert!(journal_is_clear(path), "allocation journal must be clear after flush");

    let records = scan_records(path, metadata.device_size);
    assert_eq!(
        records.len(),
        expected.len(),
        "exactly the live keys are on the device: {:?}",
        records
            .iter()
            .map(|record| (record.sector, record.blocks, record.timestamp))
            .collect::<Vec<_>>()
    );
    let live = live_records(&records);
    for (key, value, timestamp) in expected {
        let record = live.get(*key).expect("live key present on the device");
        assert_eq!(&record.value[..], *value);
        assert_eq!(record.timestamp, *timestamp);
        assert_eq!(record.ttl_expiry, 0);
    }

    let live_blocks: u64 = live.values().map(|record| record.blocks).sum();
    assert_eq!(
        metadata.total_records,
        live.len() as u64,
        "metadata record counter equals the live key count"
    );
    assert_eq!(
        metadata.total_size,
        live_blocks * BLOCK as u64,
        "metadata size counter equals the live extents' total ({live_blocks} blocks)"
    );
}

// ---------------------------------------------------------------------------------------------
// Workloads
// ---------------------------------------------------------------------------------------------

fn open(path: &Path) -> FeoxStore {
    FeoxStore::builder()
        .device_path(path.to_str().unwrap())
        .file_size(DEVICE_SIZE)
        .hash_bits(8)
        .build()
        .unwrap()
}

const KEY: &[u8] = b"account:42";
const OLD_TS: u64 = 100;
const NEW_TS: u64 = 200;

fn old_value() -> Vec<u8> {
    vec![b'o'; 64] // one block
}

fn new_value() -> Vec<u8> {
    (0..6000u32).map(|i| (i % 251) as u8).collect() // two blocks
}

/// Writes the old generation, then the new one, and returns the image of the old head block as
/// it was before it got retired.
fn write_two_generations(path: &Path) -> Vec<u8> {
    {
        let store = open(path);
        store
            .insert_with_timestamp(KEY, &old_value(), Some(OLD_TS))
            .unwrap();
        store.flush().unwrap();
    }
    let old_block = read_blocks(path, DATA_START, 1);
    assert_eq!(u16_at(&old_block, 0), 0xABCD, "old generation sits at the first data block");

    {
        let store = open(path);
        store
            .insert_with_timestamp(KEY, &new_value(), Some(NEW_TS))
            .unwrap();
        store.flush().unwrap();
        assert_eq!(store.get(KEY).unwrap(), new_value());
    }
    old_block
}

/// Control: the same replacement without a crash is laid out and accounted correctly.
#[test]
fn replacement_without_crash_keeps_metadata_equal_to_live_totals() {
    let temp = TempDir::new().unwrap();
    let path = temp.path().join("control.feox");
    write_two_generations(&path);

    {
        let store = open(&path);
        assert_eq!(store.get(KEY).unwrap(), new_value());
        store.flush().unwrap();
    }
    assert_file_matches(&path, &[(KEY, &new_value(), NEW_TS)]);
}

/// The process died after the replacement record became durable but before the superseded
/// extent was retired: both generations are on the device. Recovery keeps the newest one, and
/// the file written by the following flush() must again satisfy the layout contract.
#[test]
fn metadata_counters_match_live_totals_after_recovering_an_unretired_predecessor() {
    let temp = TempDir::new().unwrap();
    let path = temp.path().join("crashed.feox");
    let old_block = write_two_generations(&path);

    // Undo the retirement of the old extent: this is the device image of a crash between the
    // replacement write and the retirement-marker write.
    assert_eq!(&read_blocks(&path, DATA_START, 1)[..8], DELETED);
    write_blocks(&path, DATA_START, &old_block);
    let before = scan_records(&path, DEVICE_SIZE);
    assert_eq!(before.len(), 2, "both generations are on the device");
    assert_eq!((before[0].blocks, before[1].blocks), (1, 2));
    assert!(before[0].timestamp < before[1].timestamp);

    {
        let store = open(&path);
        assert_eq!(store.len(), 1);
        assert_eq!(store.get(KEY).unwrap(), new_value());
        store.flush().unwrap();
    }
    assert_file_matches(&path, &[(KEY, &new_value(), NEW_TS)]);
}
