// VERIF-MOUNT: src/storage/write_buffer.rs
//! Native witness for the flush lock discipline (adapted from seeded/r2-C02/demo.rs; needs private access to WriteBuffer,
//! so it is mounted as a child module of write_buffer.rs).
// Demonstration for seeded defect C02 (unit test, needs private access to WriteBuffer).
// Wiring: this file lives at src/tests/seeded_C02.rs and is mounted as a child module of
// src/storage/write_buffer.rs by appending these three lines to that file:
//     #[cfg(test)]
//     #[path = "../tests/seeded_C02.rs"]
//     mod seeded_c02;
// Run:  CARGO_TARGET_DIR=/tmp/mut2/C02/target cargo test --offline --lib seeded_c02
//
// Property C02: once flush() has returned Ok, every delete that completed before that
// flush() call began is durable - a crash at any later instant must not bring the key back.
//
// Schedule exercised (two application threads flushing concurrently):
//   main : insert "doomed", flush (ack), delete "doomed"            <- delete completed
//   A    : flush() begins, its workers hand the retirement of "doomed" to the retirement
//          queue, A picks the queue up and is then descheduled before it has written the
//          retirement marker (the test parks A at exactly that point by holding the
//          retirement `flush` mutex, which A needs before it may touch the device)
//   B    : flush() begins after the delete completed, returns Ok     <- acknowledgement
//   crash: the device image is captured right after B's acknowledgement
// Reopening that image must not contain "doomed".  The original code makes B wait for
// the in-flight retirement; the seeded change lets B acknowledge while the retirement is
// still only in A's hands.

use super::*;
use crate::core::store::FeoxStore;
use std::sync::mpsc::{sync_channel, Receiver, RecvTimeoutError};
use std::time::Instant;

const DEVICE_SIZE: u64 = 8 * 1024 * 1024;
const DOOMED: &[u8] = b"doomed";
const SURVIVOR: &[u8] = b"survivor";
const ROUNDS: usize = 4;

fn open(path: &str) -> Arc<FeoxStore> {
    Arc::new(
        FeoxStore::builder()
            .device_path(path.to_string())
            .file_size(DEVICE_SIZE)
            .enable_caching(false)
            .build()
            .unwrap(),
    )
}

fn background_flush(store: &Arc<FeoxStore>) -> (Receiver<Result<()>>, thread::JoinHandle<()>) {
    let store = Arc::clone(store);
    let (tx, rx) = sync_channel(1);
    let handle = thread::spawn(move || {
        let _ = tx.send(store.flush());
    });
    (rx, handle)
}

fn nothing_left_in_the_shards(write_buffer: &WriteBuffer) -> bool {
    write_buffer
        .sharded_buffers
        .iter()
        .all(|shard| shard.count.load(Ordering::Relaxed) == 0)
}

/// One run of the schedule. Returns the keys found after "crash + reopen" of the image
/// captured immediately after flusher B's acknowledgement.
fn crash_image_after_second_flush_ack(round: usize) -> (bool, bool, bool) {
    let dir = tempfile::tempdir().unwrap();
    let path = dir.path().join("device.feox");
    let path = path.to_str().unwrap().to_string();
    let image = dir.path().join(format!("crash-image-{round}.feox"));

    let store = open(&path);
    store.insert(SURVIVOR, &[b'S'; 300]).unwrap();
    store.insert(DOOMED, &[b'D'; 300]).unwrap();
    store.flush().unwrap();

    let write_buffer = Arc::clone(store.get_write_buffer().unwrap());

    // Park point for flusher A: whoever wants to run retirements needs this mutex first.
    let park_a = write_buffer.retirement_queue.flush.lock();

    store.delete(DOOMED).unwrap(); // completed before either flush() below begins

    let (a_rx, a_thread) = background_flush(&store);

    // Wait until the retirement of "doomed" has left the shard buffers (A's workers have
    // drained them) and A has had ample time to reach the retirement step.
    let deadline = Instant::now() + Duration::from_secs(10);
    while !nothing_left_in_the_shards(&write_buffer) {
        assert!(Instant::now() < deadline, "flusher A never drained the shards");
        thread::sleep(Duration::from_millis(1));
    }
    thread::sleep(Duration::from_millis(150));
    assert!(
        matches!(a_rx.try_recv(), Err(std::sync::mpsc::TryRecvError::Empty)),
        "flusher A cannot have finished: it is parked before the retirement step"
    );

    // Flusher B starts strictly after delete(DOOMED) returned.
    let (b_rx, b_thread) = background_flush(&store);
    let acked_while_a_parked = match b_rx.recv_timeout(Duration::from_millis(500)) {
        Ok(result) => {
            result.unwrap();
            // B's flush() returned Ok: crash now.
            std::fs::copy(&path, &image).unwrap();
            true
        }
        Err(RecvTimeoutError::Timeout) => false,
        Err(RecvTimeoutError::Disconnected) => panic!("flusher B died"),
    };

    drop(park_a); // let A (and B, if it was waiting) proceed
    a_rx.recv_timeout(Duration::from_secs(20))
        .expect("flusher A did not finish")
        .unwrap();
    a_thread.join().unwrap();
    if !acked_while_a_parked {
        b_rx.recv_timeout(Duration::from_secs(20))
            .expect("flusher B did not finish")
            .unwrap();
        // B's flush() returned Ok: crash now.
        std::fs::copy(&path, &image).unwrap();
    }
    b_thread.join().unwrap();

    let recovered = open(image.to_str().unwrap());
    let result = (
        recovered.contains_key(DOOMED),
        recovered.contains_key(SURVIVOR),
        acked_while_a_parked,
    );
    drop(recovered);
    drop(store);
    result
}

#[cfg(unix)]
#[test]
fn concurrent_flush_ack_covers_a_retirement_picked_up_by_another_flusher() {
    for round in 0..ROUNDS {
        let (doomed_is_back, survivor_present, acked_while_a_parked) =
            crash_image_after_second_flush_ack(round);
        assert!(survivor_present, "round {round}: flushed key lost");
        assert!(
            !doomed_is_back,
            "round {round}: flush() returned Ok after delete(\"doomed\") had completed, but a \
             crash right after that acknowledgement brings \"doomed\" back \
             (acknowledged while the other flusher was still holding the retirement: \
             {acked_while_a_parked})"
        );
    }
}
