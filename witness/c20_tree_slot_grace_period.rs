//! Native witness: a replaced TreeSlot generation stays alive while an epoch pin exists (adapted from the independently seeded demonstration /tmp/c20u.rs).
// Wiring: add `#[cfg(test)] pub mod seeded_c20;` to src/tests/mod.rs, then run
//   cargo test --offline --lib seeded_c20
//
// C20: a generation swapped out of a TreeSlot must stay alive for as long as a
// reader that loaded it is still pinned, whatever the size of its value.

use crate::core::record::{Record, TreeSlot};
use std::sync::Arc;

fn replaced_generation_survives_pinned_reader(value_len: usize) {
    let first = Arc::new(Record::new(b"key".to_vec(), vec![0xA5; value_len], 100));
    let observer = Arc::downgrade(&first);
    // The slot's box is now the only strong owner of the first generation,
    // which is what a range scan dereferences.
    let slot = TreeSlot::new(first);

    let guard = crossbeam_epoch::pin();
    let loaded = slot.load(&guard);

    // A writer replaces the generation while the reader is still pinned.
    slot.store(Arc::new(Record::new(
        b"key".to_vec(),
        b"second".to_vec(),
        200,
    )));

    // Checked through the Weak first, so a destroyed generation is reported
    // as a test failure instead of being dereferenced.
    assert!(
        observer.upgrade().is_some(),
        "generation with a {value_len}-byte value was destroyed while a pinned reader still held it"
    );
    assert_eq!(loaded.timestamp, 100);
    assert_eq!(loaded.value_len, value_len);
    assert_eq!(slot.load(&guard).timestamp, 200);
}

#[test]
fn small_replaced_generation_survives_pinned_reader() {
    replaced_generation_survives_pinned_reader(5);
}

#[test]
fn block_sized_replaced_generation_survives_pinned_reader() {
    replaced_generation_survives_pinned_reader(8192);
}

#[test]
fn large_replaced_generation_survives_pinned_reader() {
    replaced_generation_survives_pinned_reader(8193);
}

#[test]
fn very_large_replaced_generation_survives_pinned_reader() {
    replaced_generation_survives_pinned_reader(256 * 1024);
}
