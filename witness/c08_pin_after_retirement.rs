//! Native witness for `c08_acquire_extent_interference`: stress of the real acquire/retire/has_readers protocol (two threads,
//! up to 400k trials). On a correct acquire_extent the violation is impossible, so the witness cannot fail spuriously; it only confirms.
//! From the independently seeded demonstration seeded/r5-C08/demo.rs.
use crate::core::record::Record;
use std::hint::spin_loop;
use std::sync::atomic::{AtomicBool, AtomicUsize, Ordering};
use std::sync::Arc;
use std::thread;
use std::time::{Duration, Instant};

const TRIALS_PER_ROUND: usize = 50_000;
const ROUNDS: usize = 8;
const TIME_BUDGET: Duration = Duration::from_secs(40);

struct Trial {
    record: Record,
    /// A reader has started hammering `acquire_extent` on this trial's record.
    reader_active: AtomicBool,
    /// The retirer saw "retired and no readers" and went on to overwrite and
    /// release the extent.
    extent_released: AtomicBool,
}

fn new_round() -> Arc<Vec<Trial>> {
    Arc::new(
        (0..TRIALS_PER_ROUND)
            .map(|i| {
                let record = Record::new(b"victim".to_vec(), vec![b'V'; 8], i as u64 + 1);
                record.sector.store(16, Ordering::Release);
                record.clear_value();
                Trial {
                    record,
                    reader_active: AtomicBool::new(false),
                    extent_released: AtomicBool::new(false),
                }
            })
            .collect(),
    )
}

/// What a disk reader does, minus the pread itself.
fn reader(trials: Arc<Vec<Trial>>, pinned_after_release: Arc<AtomicUsize>) {
    for trial in trials.iter() {
        trial.reader_active.store(true, Ordering::Release);
        // Keep reading the record until it goes stale, as a stream of `get`s does.
        while let Some(pin) = trial.record.acquire_extent() {
            // The pread would happen here, under the pin.
            for _ in 0..4 {
                spin_loop();
            }
            if trial.extent_released.load(Ordering::SeqCst) {
                pinned_after_release.fetch_add(1, Ordering::Relaxed);
            }
            drop(pin);
        }
    }
}

/// What `process_deletions` does for one retired record, minus the device I/O.
fn retirer(trials: Arc<Vec<Trial>>) {
    for (index, trial) in trials.iter().enumerate() {
        while !trial.reader_active.load(Ordering::Acquire) {
            spin_loop();
        }
        // Vary where in the reader's loop the retirement lands.
        for _ in 0..(index % 23) {
            spin_loop();
        }
        trial.record.retire_extent();
        while trial.record.extent_has_readers() {
            spin_loop();
        }
        // Markers written, sectors handed back to the allocator.
        trial.extent_released.store(true, Ordering::SeqCst);
    }
}

#[test]
fn verif_witness_c08_pin_after_retirement() {
    let started = Instant::now();
    let pinned_after_release = Arc::new(AtomicUsize::new(0));
    let mut trials_run = 0;

    for _ in 0..ROUNDS {
        let trials = new_round();
        let read = {
            let trials = Arc::clone(&trials);
            let pinned_after_release = Arc::clone(&pinned_after_release);
            thread::spawn(move || reader(trials, pinned_after_release))
        };
        let retire = {
            let trials = Arc::clone(&trials);
            thread::spawn(move || retirer(trials))
        };
        retire.join().unwrap();
        read.join().unwrap();
        trials_run += TRIALS_PER_ROUND;

        // Every record ends retired and idle, whatever happened on the way.
        assert!(trials.iter().all(|trial| {
            trial.record.acquire_extent().is_none() && !trial.record.extent_has_readers()
        }));

        if pinned_after_release.load(Ordering::Relaxed) != 0 || started.elapsed() > TIME_BUDGET {
            break;
        }
    }

    let violations = pinned_after_release.load(Ordering::Relaxed);
    println!(
        "seeded_c08: {trials_run} trials in {:?}, {violations} pins held on a released extent",
        started.elapsed()
    );
    assert_eq!(
        violations, 0,
        "a reader acquired a pin on an extent after retirement had set the retired bit, \
         seen zero readers and released the extent ({violations} times in {trials_run} trials)"
    );
}
