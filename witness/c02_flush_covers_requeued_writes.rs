//! Native witness for `site_force_flush_exit_condition`: flush() may return Ok only when every worker reported that
//! nothing of what it drained is left over. On a nearly full device a pending write that only fits after a delete pending
//! in the SAME flush has been retired makes a worker answer "run me again" (it requeued the write); flush() must loop.
//! The device file is copied right after the acknowledgement and recovered: the acknowledged value must be there.
//! From the independently seeded demonstration seeded/r5-C02/demo.rs.
use crate::error::FeoxError;
use crate::FeoxStore;
use tempfile::TempDir;

const BLOCK_SIZE: usize = 4096;
const DATA_START_BLOCK: u64 = 16;
/// Data area of 8 blocks; each record below occupies 5 of them, so two
/// generations can never be on the device at the same time.
const DATA_BLOCKS: u64 = 8;
const ROUNDS: usize = 12;

fn value(round: usize) -> Vec<u8> {
    let mut value = vec![b'a' + (round % 26) as u8; 4 * BLOCK_SIZE + 100];
    value[..8].copy_from_slice(&(round as u64).to_le_bytes());
    value
}

fn open(path: &std::path::Path, file_size: Option<u64>) -> FeoxStore {
    let mut builder = FeoxStore::builder().device_path(path.to_str().unwrap());
    if let Some(size) = file_size {
        builder = builder.file_size(size);
    }
    builder.build().unwrap()
}

#[test]
fn verif_witness_c02_flush_covers_requeued_writes() {
    let temp = TempDir::new().unwrap();
    let device = temp.path().join("store.feox");
    let device_size = (DATA_START_BLOCK + DATA_BLOCKS) * BLOCK_SIZE as u64;

    let store = open(&device, Some(device_size));
    store.insert(b"k", &value(0)).unwrap();
    store.flush().unwrap();

    for round in 1..=ROUNDS {
        // The old generation holds 5 of 8 blocks; its replacement needs 5 as well.
        store.delete(b"k").unwrap();
        store.insert(b"k", &value(round)).unwrap();
        store.flush().unwrap();

        // flush() has acknowledged: crash now.
        let image = temp.path().join(format!("crash-{round}.feox"));
        std::fs::copy(&device, &image).unwrap();

        assert_eq!(store.get(b"k").unwrap(), value(round));

        let recovered = open(&image, None);
        match recovered.get(b"k") {
            Ok(found) => assert!(
                found == value(round),
                "round {round}: crash image holds generation {} instead of the acknowledged one",
                u64::from_le_bytes(found[..8].try_into().unwrap())
            ),
            Err(FeoxError::KeyNotFound) => panic!(
                "round {round}: flush() returned Ok but the acknowledged value of `k` is not in the crash image"
            ),
            Err(error) => panic!("round {round}: unexpected error {error}"),
        }
        drop(recovered);
    }
}
