// VERIF-REPLAY {"property": "C19", "harness": "c19_requeue_restores_count_and_order", "file": "src/storage/write_buffer.rs", "fqn": "storage::write_buffer::verif_kani::c19_requeue_restores_count_and_order", "failed_checks": [{"d": "assertion failed: shard.count.load(Ordering::Relaxed) == 3", "loc": {"file": "/verif/kani/write_buffer_k.rs", "line": "159", "column": "5"}, "s": "Failure"}]}
// Re-run with: ./check replay /verif/replays/C19-c19_requeue_restores_count_and_order.rs
// (appends this test to a scratch copy of kani/write_buffer_k.rs injected into a copy of /repo and runs
//  `cargo kani playback` in dev and release profiles; Kani stubs are NOT applied natively.)
/// Test generated for harness `storage::write_buffer::verif_kani::c19_requeue_restores_count_and_order` 
///
/// Check for `assertion`: "assertion failed: shard.count.load(Ordering::Relaxed) == 3"
///
/// # Warning
///
/// Concrete playback tests combined with stubs or contracts is highly
/// experimental, and subject to change.
///
/// The original harness has stubs which are not applied to this test.
/// This may cause a mismatch of non-deterministic values if the stub
/// creates any non-deterministic value.
/// The execution path may also differ, which can be used to refine the stub
/// logic.

#[test]
fn kani_concrete_playback_c19_requeue_restores_count_and_order_5832590843970394802() {
    let concrete_vals: Vec<Vec<u8>> = vec![
        // 1
        vec![1],
    ];
    kani::concrete_playback_run(concrete_vals, c19_requeue_restores_count_and_order);
}
