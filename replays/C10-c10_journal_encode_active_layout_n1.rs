// VERIF-REPLAY {"property": "C10", "harness": "c10_journal_encode_active_layout_n1", "file": "src/storage/allocation_journal.rs", "fqn": "storage::allocation_journal::verif_kani::c10_journal_encode_active_layout_n1", "failed_checks": []}
// Re-run with: ./check replay /verif/replays/C10-c10_journal_encode_active_layout_n1.rs
// (appends this test to a scratch copy of kani/journal_k.rs injected into a copy of /repo and runs
//  `cargo kani playback` in dev and release profiles; Kani stubs are NOT applied natively.)
/// Test generated for harness `storage::allocation_journal::verif_kani::c10_journal_encode_active_layout_n1` 
///
/// Check for `cover`: "entry rejected"

#[test]
fn kani_concrete_playback_c10_journal_encode_active_layout_n1_16724304303735225899() {
    let concrete_vals: Vec<Vec<u8>> = vec![
        // 9223372036854775808ul
        vec![0, 0, 0, 0, 0, 0, 0, 128],
        // 2147483648ul
        vec![0, 0, 0, 128, 0, 0, 0, 0],
        // 0ul
        vec![0, 0, 0, 0, 0, 0, 0, 0],
        // 0ul
        vec![0, 0, 0, 0, 0, 0, 0, 0],
        // 0ul
        vec![0, 0, 0, 0, 0, 0, 0, 0],
    ];
    kani::concrete_playback_run(concrete_vals, c10_journal_encode_active_layout_n1);
}
