// VERIF-REPLAY {"property": "C10", "harness": "c10_journal_encode_clear_layout", "file": "src/storage/allocation_journal.rs", "fqn": "storage::allocation_journal::verif_kani::c10_journal_encode_clear_layout", "failed_checks": []}
// Kani produced no concrete playback test
