// VERIF-REPLAY {"property": "C10", "harness": "c10_metadata_block_padding", "file": "src/storage/io.rs", "fqn": "storage::io::verif_kani::c10_metadata_block_padding", "failed_checks": []}
// Kani produced no concrete playback test
