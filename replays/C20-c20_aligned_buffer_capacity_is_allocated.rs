// VERIF-REPLAY {"property": "C20", "harness": "c20_aligned_buffer_capacity_is_allocated", "file": "src/utils/allocator.rs", "fqn": "utils::allocator::verif_kani::c20_aligned_buffer_capacity_is_allocated", "failed_checks": [{"d": "assertion failed: usable_size(b.as_ptr()) >= cap", "loc": {"file": "/verif/kani/allocator_k.rs", "line": "37", "column": "9"}, "s": "Failure"}]}
// Re-run with: ./check replay /verif/replays/C20-c20_aligned_buffer_capacity_is_allocated.rs
// (appends this test to a scratch copy of kani/allocator_k.rs injected into a copy of /repo and runs
//  `cargo kani playback` in dev and release profiles; Kani stubs are NOT applied natively.)
/// Test generated for harness `utils::allocator::verif_kani::c20_aligned_buffer_capacity_is_allocated` 
///
/// Check for `assertion`: "assertion failed: usable_size(b.as_ptr()) >= cap"
///
/// # Warning
///
/// Concrete playback tests combined with stubs or contracts is highly
/// experimental, and subject to change.
///
/// The original harness has stubs which are not applied to this test.
/// This may cause a mismatch of non-deterministic values if the stub
/// creates any non-deterministic value.
/// The execution path may also differ, which can be used to refine the stub
/// logic.

#[test]
fn kani_concrete_playback_c20_aligned_buffer_capacity_is_allocated_13206164271193169290() {
    let concrete_vals: Vec<Vec<u8>> = vec![
        // 4097ul
        vec![1, 16, 0, 0, 0, 0, 0, 0],
    ];
    kani::concrete_playback_run(concrete_vals, c20_aligned_buffer_capacity_is_allocated);
}
