// VERIF-REPLAY {"property": "C05", "harness": "c05_release_allocations_rollback", "file": "src/storage/write_buffer.rs", "fqn": "storage::write_buffer::verif_kani::c05_release_allocations_rollback", "failed_checks": [{"d": "assertion failed: reserved_sector(&w[0].entry).is_none()", "loc": {"file": "/verif/kani/write_buffer_k.rs", "line": "72", "column": "5"}, "s": "Failure"}]}
// Re-run with: ./check replay /verif/replays/C05-c05_release_allocations_rollback.rs
// (appends this test to a scratch copy of kani/write_buffer_k.rs injected into a copy of /repo and runs
//  `cargo kani playback` in dev and release profiles; Kani stubs are NOT applied natively.)
/// Test generated for harness `storage::write_buffer::verif_kani::c05_release_allocations_rollback` 
///
/// Check for `assertion`: "assertion failed: reserved_sector(&w[0].entry).is_none()"
///
/// # Warning
///
/// Concrete playback tests combined with stubs or contracts is highly
/// experimental, and subject to change.
///
/// The original harness has stubs which are not applied to this test.
/// This may cause a mismatch of non-deterministic values if the stub
/// creates any non-deterministic value.
/// The execution path may also differ, which can be used to refine the stub
/// logic.

#[test]
fn kani_concrete_playback_c05_release_allocations_rollback_2725803752685014757() {
    let concrete_vals: Vec<Vec<u8>> = vec![
        // 62ul
        vec![62, 0, 0, 0, 0, 0, 0, 0],
        // 16ul
        vec![16, 0, 0, 0, 0, 0, 0, 0],
        // 0
        vec![0],
        // 0
        vec![0],
    ];
    kani::concrete_playback_run(concrete_vals, c05_release_allocations_rollback);
}
