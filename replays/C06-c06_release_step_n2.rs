// VERIF-REPLAY {"property": "C06", "harness": "c06_release_step_n2", "file": "src/storage/free_space.rs", "fqn": "storage::free_space::verif_kani::c06_release_step_n2", "failed_checks": [{"d": "assertion failed: after.free_b == was_free && after.blocks == blocks && after.count == n", "loc": {"file": "/verif/kani/free_space_k.rs", "line": "182", "column": "9"}, "s": "Failure"}]}
// Re-run with: ./check replay /verif/replays/C06-c06_release_step_n2.rs
// (appends this test to a scratch copy of kani/free_space_k.rs injected into a copy of /repo and runs
//  `cargo kani playback` in dev and release profiles; Kani stubs are NOT applied natively.)
/// Test generated for harness `storage::free_space::verif_kani::c06_release_step_n2` 
///
/// Check for `assertion`: "assertion failed: after.free_b == was_free && after.blocks == blocks && after.count == n"
///
/// # Warning
///
/// Concrete playback tests combined with stubs or contracts is highly
/// experimental, and subject to change.
///
/// The original harness has stubs which are not applied to this test.
/// This may cause a mismatch of non-deterministic values if the stub
/// creates any non-deterministic value.
/// The execution path may also differ, which can be used to refine the stub
/// logic.

#[test]
fn kani_concrete_playback_c06_release_step_n2_11727038916462231294() {
    let concrete_vals: Vec<Vec<u8>> = vec![
        // 268435456ul
        vec![0, 0, 0, 16, 0, 0, 0, 0],
        // 2ul
        vec![2, 0, 0, 0, 0, 0, 0, 0],
        // 32768ul
        vec![0, 128, 0, 0, 0, 0, 0, 0],
        // 4ul
        vec![4, 0, 0, 0, 0, 0, 0, 0],
        // 32773ul
        vec![5, 128, 0, 0, 0, 0, 0, 0],
        // 268402683ul
        vec![251, 127, 255, 15, 0, 0, 0, 0],
        // 32772ul
        vec![4, 128, 0, 0, 0, 0, 0, 0],
        // 268173311ul
        vec![255, 255, 251, 15, 0, 0, 0, 0],
        // 33554431ul
        vec![255, 255, 255, 1, 0, 0, 0, 0],
    ];
    kani::concrete_playback_run(concrete_vals, c06_release_step_n2);
}
