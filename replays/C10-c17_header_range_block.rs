// VERIF-REPLAY {"property": "C10", "harness": "c17_header_range_block", "file": "src/storage/seq_token.rs", "fqn": "storage::seq_token::verif_kani::c17_header_range_block", "failed_checks": [{"d": "assertion failed: r1.is_some() == (kl >= 1 && kl <= MAX_RECOVERABLE_KEY_SIZE_V1)", "loc": {"file": "/verif/kani/seq_token_k.rs", "line": "310", "column": "5"}, "s": "Failure"}, {"d": "assertion failed: r2.is_some() == (kl >= 1 && kl <= MAX_RECOVERABLE_KEY_SIZE)", "loc": {"file": "/verif/kani/seq_token_k.rs", "line": "311", "column": "5"}, "s": "Failure"}]}
// Re-run with: ./check replay /verif/replays/C10-c17_header_range_block.rs
// (appends this test to a scratch copy of kani/seq_token_k.rs injected into a copy of /repo and runs
//  `cargo kani playback` in dev and release profiles; Kani stubs are NOT applied natively.)
/// Test generated for harness `storage::seq_token::verif_kani::c17_header_range_block` 
///
/// Check for `assertion`: "assertion failed: r1.is_some() == (kl >= 1 && kl <= MAX_RECOVERABLE_KEY_SIZE_V1)"
///
/// # Warning
///
/// Concrete playback tests combined with stubs or contracts is highly
/// experimental, and subject to change.
///
/// The original harness has stubs which are not applied to this test.
/// This may cause a mismatch of non-deterministic values if the stub
/// creates any non-deterministic value.
/// The execution path may also differ, which can be used to refine the stub
/// logic.

#[test]
fn kani_concrete_playback_c17_header_range_block_18400148055798386712() {
    let concrete_vals: Vec<Vec<u8>> = vec![
        // 234
        vec![234],
        // 15
        vec![15],
    ];
    kani::concrete_playback_run(concrete_vals, c17_header_range_block);
}

/// Test generated for harness `storage::seq_token::verif_kani::c17_header_range_block` 
///
/// Check for `assertion`: "assertion failed: r2.is_some() == (kl >= 1 && kl <= MAX_RECOVERABLE_KEY_SIZE)"
///
/// # Warning
///
/// Concrete playback tests combined with stubs or contracts is highly
/// experimental, and subject to change.
///
/// The original harness has stubs which are not applied to this test.
/// This may cause a mismatch of non-deterministic values if the stub
/// creates any non-deterministic value.
/// The execution path may also differ, which can be used to refine the stub
/// logic.

#[test]
fn kani_concrete_playback_c17_header_range_block_8476533856778607089() {
    let concrete_vals: Vec<Vec<u8>> = vec![
        // 226
        vec![226],
        // 15
        vec![15],
    ];
    kani::concrete_playback_run(concrete_vals, c17_header_range_block);
}
