// VERIF-REPLAY {"property": "C02", "harness": "c02_successor_durability_walk_chain2", "file": "src/core/record.rs", "fqn": "core::record::verif_kani::c02_successor_durability_walk_chain2", "failed_checks": [{"d": "assertion failed: got == want", "loc": {"file": "/verif/kani/record_k.rs", "line": "103", "column": "5"}, "s": "Failure"}]}
// Re-run with: ./check replay /verif/replays/C02-c02_successor_durability_walk_chain2.rs
// (appends this test to a scratch copy of kani/record_k.rs injected into a copy of /repo and runs
//  `cargo kani playback` in dev and release profiles; Kani stubs are NOT applied natively.)
/// Test generated for harness `core::record::verif_kani::c02_successor_durability_walk_chain2` 
///
/// Check for `assertion`: "assertion failed: got == want"
///
/// # Warning
///
/// Concrete playback tests combined with stubs or contracts is highly
/// experimental, and subject to change.
///
/// The original harness has stubs which are not applied to this test.
/// This may cause a mismatch of non-deterministic values if the stub
/// creates any non-deterministic value.
/// The execution path may also differ, which can be used to refine the stub
/// logic.

#[test]
fn kani_concrete_playback_c02_successor_durability_walk_chain2_15653994986665318777() {
    let concrete_vals: Vec<Vec<u8>> = vec![
        // 0ul
        vec![0, 0, 0, 0, 0, 0, 0, 0],
        // 0ul
        vec![0, 0, 0, 0, 0, 0, 0, 0],
        // 0
        vec![0, 0, 0, 0],
        // 2147483648
        vec![0, 0, 0, 128],
    ];
    kani::concrete_playback_run(concrete_vals, c02_successor_durability_walk_chain2);
}
