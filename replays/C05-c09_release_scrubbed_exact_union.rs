// VERIF-REPLAY {"property": "C05", "harness": "c09_release_scrubbed_exact_union", "file": "src/storage/write_buffer.rs", "fqn": "storage::write_buffer::verif_kani::c09_release_scrubbed_exact_union", "failed_checks": [{"d": "assertion failed: r.is_ok()", "loc": {"file": "/verif/kani/write_buffer_k.rs", "line": "116", "column": "5"}, "s": "Failure"}, {"d": "assertion failed: is_free(&fs, b) == (in0 || (in1 && !q1))", "loc": {"file": "/verif/kani/write_buffer_k.rs", "line": "120", "column": "5"}, "s": "Failure"}, {"d": "assertion failed: fs.get_total_free() == released * FEOX_BLOCK_SIZE as u64", "loc": {"file": "/verif/kani/write_buffer_k.rs", "line": "122", "column": "5"}, "s": "Failure"}]}
// Re-run with: ./check replay /verif/replays/C05-c09_release_scrubbed_exact_union.rs
// (appends this test to a scratch copy of kani/write_buffer_k.rs injected into a copy of /repo and runs
//  `cargo kani playback` in dev and release profiles; Kani stubs are NOT applied natively.)
/// Test generated for harness `storage::write_buffer::verif_kani::c09_release_scrubbed_exact_union` 
///
/// Check for `assertion`: "assertion failed: r.is_ok()"
///
/// # Warning
///
/// Concrete playback tests combined with stubs or contracts is highly
/// experimental, and subject to change.
///
/// The original harness has stubs which are not applied to this test.
/// This may cause a mismatch of non-deterministic values if the stub
/// creates any non-deterministic value.
/// The execution path may also differ, which can be used to refine the stub
/// logic.

#[test]
fn kani_concrete_playback_c09_release_scrubbed_exact_union_10434610061961110239() {
    let concrete_vals: Vec<Vec<u8>> = vec![
        // 1ul
        vec![1, 0, 0, 0, 0, 0, 0, 0],
        // 3ul
        vec![3, 0, 0, 0, 0, 0, 0, 0],
        // 62ul
        vec![62, 0, 0, 0, 0, 0, 0, 0],
        // 59ul
        vec![59, 0, 0, 0, 0, 0, 0, 0],
        // 0
        vec![0],
    ];
    kani::concrete_playback_run(concrete_vals, c09_release_scrubbed_exact_union);
}

/// Test generated for harness `storage::write_buffer::verif_kani::c09_release_scrubbed_exact_union` 
///
/// Check for `assertion`: "assertion failed: is_free(&fs, b) == (in0 || (in1 && !q1))"
///
/// # Warning
///
/// Concrete playback tests combined with stubs or contracts is highly
/// experimental, and subject to change.
///
/// The original harness has stubs which are not applied to this test.
/// This may cause a mismatch of non-deterministic values if the stub
/// creates any non-deterministic value.
/// The execution path may also differ, which can be used to refine the stub
/// logic.

#[test]
fn kani_concrete_playback_c09_release_scrubbed_exact_union_13185990404341054532() {
    let concrete_vals: Vec<Vec<u8>> = vec![
        // 1ul
        vec![1, 0, 0, 0, 0, 0, 0, 0],
        // 3ul
        vec![3, 0, 0, 0, 0, 0, 0, 0],
        // 32ul
        vec![32, 0, 0, 0, 0, 0, 0, 0],
        // 29ul
        vec![29, 0, 0, 0, 0, 0, 0, 0],
        // 0
        vec![0],
        // 33ul
        vec![33, 0, 0, 0, 0, 0, 0, 0],
    ];
    kani::concrete_playback_run(concrete_vals, c09_release_scrubbed_exact_union);
}

/// Test generated for harness `storage::write_buffer::verif_kani::c09_release_scrubbed_exact_union` 
///
/// Check for `assertion`: "assertion failed: fs.get_total_free() == released * FEOX_BLOCK_SIZE as u64"
///
/// # Warning
///
/// Concrete playback tests combined with stubs or contracts is highly
/// experimental, and subject to change.
///
/// The original harness has stubs which are not applied to this test.
/// This may cause a mismatch of non-deterministic values if the stub
/// creates any non-deterministic value.
/// The execution path may also differ, which can be used to refine the stub
/// logic.

#[test]
fn kani_concrete_playback_c09_release_scrubbed_exact_union_6689087356843057422() {
    let concrete_vals: Vec<Vec<u8>> = vec![
        // 3ul
        vec![3, 0, 0, 0, 0, 0, 0, 0],
        // 2ul
        vec![2, 0, 0, 0, 0, 0, 0, 0],
        // 53ul
        vec![53, 0, 0, 0, 0, 0, 0, 0],
        // 51ul
        vec![51, 0, 0, 0, 0, 0, 0, 0],
        // 0
        vec![0],
        // 31ul
        vec![31, 0, 0, 0, 0, 0, 0, 0],
    ];
    kani::concrete_playback_run(concrete_vals, c09_release_scrubbed_exact_union);
}
