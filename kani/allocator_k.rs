//! C20: AlignedBuffer – the slice it hands out never exceeds the allocation (CBMC pointer checks).
use super::*;

/// Native oracle for the replay: glibc's usable size of the allocation. Under Kani it is stubbed to
/// "unbounded" (CBMC's own pointer checks decide); natively (concrete playback applies no stubs) it makes an
/// undersized allocation a deterministic assertion failure instead of silent heap corruption.
fn usable_size(p: *const u8) -> usize {
    unsafe { libc::malloc_usable_size(p as *mut libc::c_void) }
}
/// Under Kani: the size that was actually requested from the allocator (recorded by the stubbed
/// `allocate_aligned`, which otherwise allocates exactly that many bytes with the requested alignment), so an
/// undersized request is an assertion failure Kani can concretise – on top of CBMC's own pointer checks.
static mut LAST_REQUEST: usize = 0;
fn usable_size_model(_p: *const u8) -> usize {
    unsafe { LAST_REQUEST }
}
fn allocate_aligned_model(size: usize, alignment: usize) -> Result<NonNull<u8>> {
    unsafe {
        LAST_REQUEST = size;
    }
    let layout = Layout::from_size_align(size, alignment).map_err(|_| FeoxError::AllocationFailed)?;
    NonNull::new(unsafe { alloc(layout) }).ok_or(FeoxError::AllocationFailed)
}

/// new(n) for a symbolic small n: capacity is the block-rounded size, set_len(capacity) is accepted and
/// the first and last byte of the advertised slice are inside the allocation.
#[kani::proof]
#[kani::unwind(3)]
#[kani::stub(usable_size, usable_size_model)]
#[kani::stub(FeoxAllocator::allocate_aligned, allocate_aligned_model)]
fn c20_aligned_buffer_capacity_is_allocated() {
    let n: usize = kani::any();
    kani::assume(n >= 1 && n <= 2 * FEOX_BLOCK_SIZE);
    if let Ok(mut b) = AlignedBuffer::new(n) {
        let cap = b.capacity();
        assert!(cap >= n && cap % FEOX_BLOCK_SIZE == 0 && cap < n + FEOX_BLOCK_SIZE);
        assert!(usable_size(b.as_ptr()) >= cap);
        b.set_len(cap);
        let s = b.as_mut_slice();
        assert!(s.len() == cap);
        s[0] = 1;
        s[cap - 1] = 2; // out of bounds if fewer than `capacity` bytes were allocated
        kani::cover!(n % FEOX_BLOCK_SIZE != 0, "unaligned request");
        std::mem::forget(b);
    }
}
