//! parking_lot slow paths (parking, thread-local parker, intrinsics Kani 0.68 ICEs on) are cut with
//! assume(false): harnesses are sequential, locks are always uncontended, the fast paths are the real code.
pub(crate) fn s_lock_ex(_t: &parking_lot::RawRwLock, _timeout: Option<std::time::Instant>) -> bool {
    kani::assume(false);
    true
}
pub(crate) fn s_unlock_ex(_t: &parking_lot::RawRwLock, _f: bool) {
    kani::assume(false);
}
pub(crate) fn s_lock_sh(_t: &parking_lot::RawRwLock, _r: bool, _timeout: Option<std::time::Instant>) -> bool {
    kani::assume(false);
    true
}
pub(crate) fn s_unlock_sh(_t: &parking_lot::RawRwLock) {
    kani::assume(false);
}
pub(crate) fn s_mutex_lock(_t: &parking_lot::RawMutex, _timeout: Option<std::time::Instant>) -> bool {
    kani::assume(false);
    true
}
pub(crate) fn s_mutex_unlock(_t: &parking_lot::RawMutex, _f: bool) {
    kani::assume(false);
}

/// `Arc::drop_slow` (runs the pointee's drop glue when the last strong reference goes) is cut to a no-op:
/// Record's drop glue (Bytes vtable dispatch, recursive successor chain) is what makes harnesses over
/// Arc<Record> explode, although the harnesses never let a count reach zero. Effect of the stub: a
/// value whose last Arc is dropped is leaked instead of freed – invisible to the properties checked.
pub(crate) fn noop_drop_slow<T: ?Sized, A: std::alloc::Allocator>(_this: &mut std::sync::Arc<T, A>) {}
pub(crate) fn stub_eprint(_: std::fmt::Arguments<'_>) {}
