//! C20 InFlightBuffers, C17/C05 coalesce_extents, C10 metadata placement; device-level protocol harnesses.
use super::*;

// ---------------------------------------------------------------- C20: InFlightBuffers
static mut DROPS: [u8; 4] = [0; 4];
struct Tracked(usize);
impl Drop for Tracked {
    fn drop(&mut self) {
        unsafe {
            DROPS[self.0] += 1;
        }
    }
}

/// 3 buffers, any sequence of 4 mark_* calls on symbolic indices, then drop: a buffer whose in-flight bit
/// is still set is leaked (never freed while the kernel may still read it); every other buffer is freed
/// exactly once; nothing is freed twice; get() never goes out of range for pushed indices.
#[kani::proof]
#[kani::unwind(6)]
fn c20_inflight_buffers_drop_exactly_once() {
    let mut b: InFlightBuffers<Tracked> = InFlightBuffers::with_capacity(3);
    b.push(Tracked(0));
    b.push(Tracked(1));
    b.push(Tracked(2));
    let mut model: u8 = 0;
    let mut step = 0;
    while step < 4 {
        let op: u8 = kani::any();
        let i: usize = kani::any();
        kani::assume(op < 3 && i < 3);
        assert!(b.get(i).0 == i);
        match op {
            0 => {
                b.mark_in_flight(i);
                model |= 1 << i;
            }
            1 => {
                b.mark_unqueued(i);
                model &= !(1 << i);
            }
            _ => {
                let was = b.mark_complete(i);
                assert!(was == (model & (1 << i) != 0));
                model &= !(1 << i);
            }
        }
        step += 1;
    }
    drop(b);
    let mut i = 0;
    while i < 3 {
        let in_flight = model & (1 << i) != 0;
        unsafe {
            assert!(DROPS[i] == if in_flight { 0 } else { 1 });
        }
        i += 1;
    }
    kani::cover!(model == 0b101, "two buffers still in flight at drop");
    kani::cover!(model == 0, "all completed");
}

// ---------------------------------------------------------------- C17 / C05: coalesce_extents
/// coalesce_extents on 3 arbitrary extents: Err exactly for an empty extent, an end overflow or an
/// overlap; Ok => sorted, pairwise disjoint AND non-adjacent, covering exactly the same blocks (checked
/// for an arbitrary block b).
#[kani::proof]
#[kani::unwind(5)]
fn c17_coalesce_extents_three() {
    let e: [(u64, usize); 3] = [(kani::any(), kani::any()), (kani::any(), kani::any()), (kani::any(), kani::any())];
    let r = coalesce_extents(&e);
    let end = |x: (u64, usize)| x.0.checked_add(x.1 as u64);
    let mut bad = false;
    let mut i = 0;
    while i < 3 {
        if e[i].1 == 0 || end(e[i]).is_none() {
            bad = true;
        }
        i += 1;
    }
    let overlap = |a: (u64, usize), b: (u64, usize)| a.0 < b.0 + b.1 as u64 && b.0 < a.0 + a.1 as u64;
    if !bad && (overlap(e[0], e[1]) || overlap(e[0], e[2]) || overlap(e[1], e[2])) {
        bad = true;
    }
    match r {
        Ok(out) => {
            assert!(!bad);
            assert!(out.len() >= 1 && out.len() <= 3);
            let b: u64 = kani::any();
            let mut in_out = false;
            let mut prev_end = 0u64;
            let mut k = 0;
            while k < out.len() {
                let (s, n) = out[k];
                assert!(n >= 1);
                if k > 0 {
                    assert!(s > prev_end); // disjoint and not even adjacent
                }
                prev_end = s + n as u64;
                if b >= s && b - s < n as u64 {
                    in_out = true;
                }
                k += 1;
            }
            let in_in = (b >= e[0].0 && b - e[0].0 < e[0].1 as u64)
                || (b >= e[1].0 && b - e[1].0 < e[1].1 as u64)
                || (b >= e[2].0 && b - e[2].0 < e[2].1 as u64);
            assert!(in_in == in_out);
            kani::cover!(out.len() == 1, "three extents merged into one");
            kani::cover!(out.len() == 3, "nothing merged");
            std::mem::forget(out);
        }
        Err(er) => {
            assert!(bad);
            kani::cover!(true, "rejected");
            std::mem::forget(er);
        }
    }
}

#[kani::proof]
#[kani::unwind(140)]
fn c10_metadata_block_padding() {
    let m: [u8; 136] = kani::any();
    let r = metadata_block(&m);
    assert!(r.is_ok());
    let blk = r.unwrap();
    assert!(blk.len() == FEOX_BLOCK_SIZE);
    let mut i = 0;
    while i < 136 {
        assert!(blk[i] == m[i]);
        i += 1;
    }
    assert!(blk[136] == 0 && blk[2000] == 0 && blk[4095] == 0);
    std::mem::forget(blk);
}
