//! C05 / C09 / C19: the allocation bookkeeping of the write path – reservation word, roll-back of a batch's
//! allocations, release of scrubbed allocations, shard requeue – against the real FreeSpaceManager
//! (compiled against the bounded BTreeMap model).
use super::*;
use crate::storage::free_space::verif_kani::{is_free, mk_full, noop_frag};
#[path = "lock_stubs.rs"]
mod lock_stubs;
use lock_stubs::*;


fn mk_write(sector: Option<u64>, sectors_needed: usize) -> PreparedWrite {
    let rec = Arc::new(Record::new(vec![b'k'], Vec::new(), 1));
    let entry = WriteEntry::new(Operation::Insert, rec);
    if let Some(s) = sector {
        reserve_sector(&entry, s);
    }
    PreparedWrite { data: Vec::new(), sectors_needed, entry, sector }
}

/// the reservation word: sector in the low 30 bits, DIRTY bit 31, QUARANTINED bit 30
#[kani::proof]
fn c05_reservation_word() {
    let rec = Arc::new(Record::new(vec![b'k'], Vec::new(), 1));
    let e = WriteEntry::new(Operation::Insert, rec);
    assert!(reserved_sector(&e).is_none() && !reservation_is_dirty(&e) && !reservation_is_quarantined(&e));
    let s: u64 = kani::any();
    kani::assume(s >= 16 && s < (1u64 << 30));
    reserve_sector(&e, s);
    assert!(reserved_sector(&e) == Some(s) && !reservation_is_dirty(&e) && !reservation_is_quarantined(&e));
    mark_reservation_dirty(&e);
    assert!(reserved_sector(&e) == Some(s) && reservation_is_dirty(&e) && !reservation_is_quarantined(&e));
    quarantine_reservation(&e);
    assert!(reserved_sector(&e) == Some(s) && reservation_is_dirty(&e) && reservation_is_quarantined(&e));
    mark_reservation_clean(&e);
    assert!(reserved_sector(&e) == Some(s) && !reservation_is_dirty(&e) && reservation_is_quarantined(&e));
    clear_reserved_sector(&e);
    assert!(reserved_sector(&e).is_none() && !reservation_is_dirty(&e) && !reservation_is_quarantined(&e));
    kani::cover!(true, "reservation word life cycle");
    std::mem::forget(e);
}

/// release_allocations (roll-back when a later allocation of the batch fails): every allocated, clean
/// entry gives its blocks back AND forgets its reservation (so a retry allocates afresh instead of writing
/// to blocks it no longer owns); dirty or unallocated entries are left exactly as they were.
#[kani::proof]
#[kani::unwind(5)]
#[kani::stub(FreeSpaceManager::update_fragmentation, noop_frag)]
#[kani::stub(std::io::_eprint, stub_eprint)]
#[kani::stub(parking_lot::raw_rwlock::RawRwLock::lock_exclusive_slow, s_lock_ex)]
#[kani::stub(parking_lot::raw_rwlock::RawRwLock::unlock_exclusive_slow, s_unlock_ex)]
#[kani::stub(parking_lot::raw_rwlock::RawRwLock::lock_shared_slow, s_lock_sh)]
#[kani::stub(parking_lot::raw_rwlock::RawRwLock::unlock_shared_slow, s_unlock_sh)]
fn c05_release_allocations_rollback() {
    let free_space = Arc::new(RwLock::new(mk_full(64)));
    let stats = Statistics::new();
    let s0: u64 = kani::any();
    let s1: u64 = kani::any();
    kani::assume(s0 >= 16 && s0 < 64 && s1 >= 16 && s1 < 64 && s0 + 2 <= 64 && s1 + 1 <= 64);
    kani::assume(s0 + 2 <= s1 || s1 + 1 <= s0); // two distinct allocations handed out by the allocator
    let second_allocated: bool = kani::any();
    let second_dirty: bool = kani::any();
    let w = [mk_write(Some(s0), 2), mk_write(if second_allocated { Some(s1) } else { None }, 1)];
    if second_dirty && second_allocated {
        mark_reservation_dirty(&w[1].entry);
    }
    stats.disk_usage.store(3 * FEOX_BLOCK_SIZE as u64, Ordering::Relaxed);
    let r = release_allocations(&free_space, &w, &stats);
    assert!(r.is_ok());
    let fs = free_space.read();
    // first allocation: released and forgotten
    assert!(is_free(&fs, s0) && is_free(&fs, s0 + 1));
    assert!(reserved_sector(&w[0].entry).is_none());
    let second_released = second_allocated && !second_dirty;
    assert!(is_free(&fs, s1) == second_released);
    if second_released {
        assert!(reserved_sector(&w[1].entry).is_none());
    } else if second_allocated {
        assert!(reserved_sector(&w[1].entry) == Some(s1) && reservation_is_dirty(&w[1].entry));
    }
    let released = 2 + if second_released { 1 } else { 0 };
    assert!(fs.get_total_free() == released * FEOX_BLOCK_SIZE as u64);
    assert!(stats.disk_usage.load(Ordering::Relaxed) == (3 - released) * FEOX_BLOCK_SIZE as u64);
    kani::cover!(second_released, "both allocations rolled back");
    kani::cover!(second_allocated && second_dirty, "dirty allocation kept");
    drop(fs);
    std::mem::forget((w, free_space, r));
}

/// release_scrubbed_allocations (after a failed batch was scrubbed): the blocks given back are exactly the
/// union of the non-quarantined allocations' extents – checked for an arbitrary block b – including
/// adjacent allocations of DIFFERENT sizes that are merged into one release; released entries lose
/// their reservation, quarantined ones keep it; disk usage moves by the same amount.
#[kani::proof]
#[kani::unwind(5)]
#[kani::stub(FreeSpaceManager::update_fragmentation, noop_frag)]
#[kani::stub(std::io::_eprint, stub_eprint)]
fn c09_release_scrubbed_exact_union() {
    let mut fs = mk_full(64);
    let stats = Statistics::new();
    let n0: usize = kani::any();
    let n1: usize = kani::any();
    kani::assume(n0 >= 1 && n0 <= 3 && n1 >= 1 && n1 <= 3);
    let s0: u64 = kani::any();
    let s1: u64 = kani::any();
    kani::assume(s0 >= 16 && s0 < 64 && s1 >= 16 && s1 < 64 && s0 + n0 as u64 <= 64 && s1 + n1 as u64 <= 64);
    kani::assume(s0 + n0 as u64 <= s1 || s1 + n1 as u64 <= s0); // disjoint, possibly adjacent, either order
    let q1: bool = kani::any();
    let w = [mk_write(Some(s0), n0), mk_write(Some(s1), n1)];
    mark_reservation_dirty(&w[0].entry);
    mark_reservation_dirty(&w[1].entry);
    if q1 {
        quarantine_reservation(&w[1].entry);
    }
    stats.disk_usage.store(10 * FEOX_BLOCK_SIZE as u64, Ordering::Relaxed);
    let r = release_scrubbed_allocations(&mut fs, &w, &stats);
    assert!(r.is_ok());
    let b: u64 = kani::any();
    let in0 = b >= s0 && b - s0 < n0 as u64;
    let in1 = b >= s1 && b - s1 < n1 as u64;
    assert!(is_free(&fs, b) == (in0 || (in1 && !q1)));
    let released = n0 as u64 + if q1 { 0 } else { n1 as u64 };
    assert!(fs.get_total_free() == released * FEOX_BLOCK_SIZE as u64);
    assert!(stats.disk_usage.load(Ordering::Relaxed) == (10 - released) * FEOX_BLOCK_SIZE as u64);
    assert!(reserved_sector(&w[0].entry).is_none() && !reservation_is_dirty(&w[0].entry));
    if q1 {
        assert!(reserved_sector(&w[1].entry) == Some(s1) && reservation_is_quarantined(&w[1].entry));
    } else {
        assert!(reserved_sector(&w[1].entry).is_none() && !reservation_is_dirty(&w[1].entry));
    }
    kani::cover!(!q1 && s0 + n0 as u64 == s1 && n0 != n1, "adjacent allocations of different sizes merged");
    kani::cover!(!q1 && s1 + n1 as u64 == s0 && n0 != n1, "adjacent, reverse order");
    kani::cover!(q1, "quarantined allocation kept");
    std::mem::forget((w, fs, r));
}

/// requeue_entries: entries a failed flush puts back are counted again (the periodic coordinator only
/// wakes a worker whose shard has count > 0) and go to the FRONT in their original order.
#[kani::proof]
#[kani::unwind(6)]
#[kani::stub(std::io::_eprint, stub_eprint)]
#[kani::stub(parking_lot::raw_mutex::RawMutex::lock_slow, s_mutex_lock)]
#[kani::stub(parking_lot::raw_mutex::RawMutex::unlock_slow, s_mutex_unlock)]
#[kani::stub(std::sync::Arc::drop_slow, noop_drop_slow)]
fn c19_requeue_restores_count_and_order() {
    let shard = ShardedWriteBuffer::new(0);
    let stats = Arc::new(Statistics::new());
    let shutdown = AtomicBool::new(false);
    let mk = |ts: u64| WriteEntry::new(Operation::Insert, Arc::new(Record::new(vec![b'k'], Vec::new(), ts)));
    let r = shard.add_entries([mk(1), mk(2)], &shutdown);
    assert!(r.is_ok());
    assert!(shard.count.load(Ordering::Relaxed) == 2);
    let drained = shard.drain_entries();
    assert!(drained.len() == 2 && shard.count.load(Ordering::Relaxed) == 0 && shard.size.load(Ordering::Relaxed) == 0);
    // a new write arrives while the batch is in flight, then the failed batch is put back
    let r2 = shard.add_entries([mk(3)], &shutdown);
    assert!(r2.is_ok());
    let failed: bool = kani::any();
    shard.requeue_entries(drained, &stats, failed);
    assert!(shard.count.load(Ordering::Relaxed) == 3);
    let buf = shard.buffer.lock();
    assert!(buf.len() == 3);
    assert!(buf[0].record.timestamp == 1 && buf[1].record.timestamp == 2 && buf[2].record.timestamp == 3);
    assert!(buf[0].retry_count.load(Ordering::Relaxed) == if failed { 1 } else { 0 });
    let one = buf[0].record.calculate_size();
    assert!(shard.size.load(Ordering::Relaxed) == 3 * one);
    kani::cover!(failed, "requeue after a failed flush");
    std::mem::forget((buf, r, r2));
    std::mem::forget((shard, stats));
}

/// The retirement path sizes an extent with format_extent_size; the allocate side uses the format's
/// total_size.div_ceil(4096). They must agree in EVERY format version (v1 headers are 8 bytes shorter).
#[kani::proof]
#[kani::unwind(4)]
#[kani::stub(std::sync::Arc::drop_slow, noop_drop_slow)]
#[kani::stub(parking_lot::raw_rwlock::RawRwLock::lock_exclusive_slow, s_lock_ex)]
#[kani::stub(parking_lot::raw_rwlock::RawRwLock::unlock_exclusive_slow, s_unlock_ex)]
#[kani::stub(parking_lot::raw_rwlock::RawRwLock::lock_shared_slow, s_lock_sh)]
#[kani::stub(parking_lot::raw_rwlock::RawRwLock::unlock_shared_slow, s_unlock_sh)]
fn c05_format_extent_size_agrees() {
    let version: u32 = kani::any();
    kani::assume(version >= 1 && version <= 3);
    let vl: usize = kani::any();
    kani::assume(vl >= 1 && vl <= MAX_VALUE_SIZE);
    let mut rec = Record::new(vec![b'a', b'b', b'c'], Vec::new(), 1);
    rec.value_len = vl;
    let entry = WriteEntry::new(Operation::Delete, Arc::new(rec));
    let f = get_format_ref(version);
    assert!(format_extent_size(&entry, f) == f.total_size(3, vl).div_ceil(FEOX_BLOCK_SIZE));
    kani::cover!(version == 1 && f.total_size(3, vl) % FEOX_BLOCK_SIZE == 0, "v1 record that exactly fills its blocks");
    std::mem::forget(entry);
}
