//! C03/C10/C17: the pure helpers of the recovery scan – the reader's side of the token, marker acceptance,
//! journal overlap, scanner index arithmetic.
use super::*;
use crate::storage::seq_token::verif_kani::{rec_matches, rec_value, ref_fold, ref_token_msg, use_recorder, REC};

/// The recovery scan recomputes a record's token as record_token(crc32c(record_crc_head(sector, head),
/// tail)). It must feed the CRC exactly the writer's message (sector_le || extent with bytes 2..4 zeroed)
/// and fold it the same way, or every record written by this version fails to recover.
#[kani::proof]
#[kani::unwind(66)]
fn c03_reader_token_equals_writer_token() {
    use_recorder();
    let data: [u8; 40] = kani::any(); // "head block" = first 24 bytes, "tail blocks" = the rest
    let sector: u64 = kani::any();
    let head_len: usize = kani::any();
    kani::assume(head_len >= 6 && head_len <= 40);
    let crc_head = record_crc_head(sector, &data[..head_len]);
    let crc = crc32c(crc_head, &data[head_len..]);
    let reader = record_token(crc);
    let mut want = [0u8; 56];
    let n = ref_token_msg(sector, &data, &mut want);
    assert!(rec_matches(0, &want, n));
    assert!(unsafe { REC.n } == 1);
    assert!(reader == ref_fold(rec_value(n)) && reader != 0);
    // the writer's side, second message: identical bytes, identical fold
    let writer = crate::storage::seq_token::record_seq_token(sector, &data);
    assert!(rec_matches(1, &want, n));
    assert!(writer == reader);
    kani::cover!(head_len < 40, "multi-block record");
}

#[kani::proof]
fn c03_record_token_fold() {
    let crc: u32 = kani::any();
    let t = record_token(crc);
    assert!(t == ref_fold(crc) && t != 0);
}

/// is_complete_retirement_block accepts exactly: >= 19 bytes, tag, remaining field == expected, state
/// COMPLETE, token == marker token for THIS sector (CRC recorder: token field == fold(recorder value)).
#[kani::proof]
#[kani::unwind(66)]
fn c10_complete_retirement_block_acceptance() {
    use_recorder();
    let data: [u8; 24] = kani::any();
    let len: usize = kani::any();
    kani::assume(len <= 24);
    let sector: u64 = kani::any();
    let remaining: u64 = kani::any();
    let got = is_complete_retirement_block(&data[..len], sector, remaining);
    let want = len >= 19
        && &data[..8] == b"\0DELETED"
        && u64::from_le_bytes([data[8], data[9], data[10], data[11], data[12], data[13], data[14], data[15]]) == remaining
        && data[18] == 1
        && u16::from_le_bytes([data[16], data[17]]) == ref_fold(rec_value(25));
    assert!(got == want);
    if got {
        let mut msg = [0u8; 25];
        msg[..8].copy_from_slice(&sector.to_le_bytes());
        msg[8..24].copy_from_slice(&data[..16]);
        msg[24] = data[18];
        assert!(rec_matches(0, &msg, 25));
    }
    kani::cover!(got, "complete marker accepted");
    kani::cover!(!got && len >= 19 && &data[..8] == b"\0DELETED", "marker rejected");
}

#[kani::proof]
#[kani::unwind(4)]
fn c17_journal_overlaps_total() {
    let j: [(u64, usize); 2] = [(kani::any(), kani::any()), (kani::any(), kani::any())];
    let len: usize = kani::any();
    kani::assume(len <= 2);
    let index: usize = kani::any();
    let end: u64 = kani::any();
    let got = journal_overlaps(&j[..len], index, end);
    assert!(got == (index < len && j[if index < 2 { index } else { 0 }].0 < end));
}
