//! C08(a) extent pin/retire word, C02 successor durability walk, C07 retirement timestamp – sequential
//! semantics of the real methods from arbitrary states (interference is covered by the MIR/SMT engine).
use super::*;
#[path = "lock_stubs.rs"]
mod lock_stubs;
use lock_stubs::*;

fn rec(ts: u64) -> Record {
    Record::new(vec![b'k'], Vec::new(), ts)
}

/// acquire / guard-drop / retire / has_readers from ANY extent word (reader count < 2^31 - 1):
/// acquire succeeds iff RETIRED is clear and then adds exactly one reader; dropping the guard removes
/// exactly one; retire only sets bit 31; once RETIRED no acquire succeeds; has_readers <=> count != 0.
#[kani::proof]
#[kani::unwind(3)]
fn c08_extent_word_sequential() {
    let r: &'static Record = Box::leak(Box::new(rec(1)));
    let w: u32 = kani::any();
    kani::assume(w & EXTENT_READERS != EXTENT_READERS);
    r.extent_state.store(w, Ordering::Release);
    let g = r.acquire_extent();
    // compare_exchange_weak may fail spuriously forever in Kani: the unwind bound cuts those paths
    match g {
        Some(guard) => {
            assert!(w & EXTENT_RETIRED == 0);
            assert!(r.extent_state.load(Ordering::Acquire) == w + 1);
            assert!(r.extent_has_readers());
            r.retire_extent();
            assert!(r.extent_state.load(Ordering::Acquire) == (w + 1) | EXTENT_RETIRED);
            assert!(r.acquire_extent().is_none()); // no new reader after retirement
            assert!(r.extent_has_readers()); // ... but the pinned one is still seen
            drop(guard);
            assert!(r.extent_state.load(Ordering::Acquire) == w | EXTENT_RETIRED);
            assert!(r.extent_has_readers() == (w & EXTENT_READERS != 0));
            kani::cover!(w == 0, "first reader, then retired, then released");
        }
        None => {
            assert!(w & EXTENT_RETIRED != 0);
            assert!(r.extent_state.load(Ordering::Acquire) == w);
            kani::cover!(true, "acquire refused on a retired extent");
        }
    }
}

/// successor_is_durable_or_deleted on chains of up to two successors: true iff there is no successor, or
/// walking the successor chain reaches a generation that is durable (sector > 0) / already marked safe
/// before reaching an unpublished live tail; a live (refcount != 0) non-durable tail => false.
#[kani::proof]
#[kani::unwind(5)]
#[kani::stub(parking_lot::raw_rwlock::RawRwLock::lock_exclusive_slow, s_lock_ex)]
#[kani::stub(parking_lot::raw_rwlock::RawRwLock::unlock_exclusive_slow, s_unlock_ex)]
#[kani::stub(parking_lot::raw_rwlock::RawRwLock::lock_shared_slow, s_lock_sh)]
#[kani::stub(parking_lot::raw_rwlock::RawRwLock::unlock_shared_slow, s_unlock_sh)]
#[kani::stub(std::sync::Arc::drop_slow, noop_drop_slow)]
fn c02_successor_durability_walk() {
    successor_walk(kani::any())
}

/// quick-tier instance: the two-successor chain only
#[kani::proof]
#[kani::unwind(5)]
#[kani::stub(parking_lot::raw_rwlock::RawRwLock::lock_exclusive_slow, s_lock_ex)]
#[kani::stub(parking_lot::raw_rwlock::RawRwLock::unlock_exclusive_slow, s_unlock_ex)]
#[kani::stub(parking_lot::raw_rwlock::RawRwLock::lock_shared_slow, s_lock_sh)]
#[kani::stub(parking_lot::raw_rwlock::RawRwLock::unlock_shared_slow, s_unlock_sh)]
#[kani::stub(std::sync::Arc::drop_slow, noop_drop_slow)]
fn c02_successor_durability_walk_chain2() {
    successor_walk(2)
}

fn successor_walk(n: u8) {
    let old = Arc::new(rec(1));
    kani::assume(n <= 2);
    let s1_sector: u64 = kani::any();
    let s2_sector: u64 = kani::any();
    let s1_ref: u32 = kani::any();
    let s2_ref: u32 = kani::any();
    let s1 = Arc::new(rec(2));
    let s2 = Arc::new(rec(3));
    s1.sector.store(s1_sector, Ordering::Release);
    s2.sector.store(s2_sector, Ordering::Release);
    s1.refcount.store(s1_ref, Ordering::Release);
    s2.refcount.store(s2_ref, Ordering::Release);
    if n >= 1 {
        old.link_successor(&s1);
    }
    if n >= 2 {
        s1.link_successor(&s2);
    }
    let got = old.successor_is_durable_or_deleted();
    let want = if n == 0 {
        true
    } else if s1_sector > 0 {
        true
    } else if n == 1 {
        s1_ref == 0 // an unpublished tail counts only when it was deleted (refcount 0)
    } else if s2_sector > 0 {
        true
    } else {
        s2_ref == 0
    };
    assert!(got == want);
    // the memo is sound: a record is marked `successor_safe` only if ITS OWN successor chain is durable or deleted – a walk that
    // answers `false` must not leave a shortcut behind that makes the next evaluation answer `true`
    let s1_safe = if n < 2 { true } else { s2_sector > 0 || s2_ref == 0 };
    assert!(!old.successor_safe.load(Ordering::Acquire) || want);
    assert!(!s1.successor_safe.load(Ordering::Acquire) || s1_safe);
    // evaluating again (the retirement queue is re-examined on every flush round) gives the same answer
    let again = old.successor_is_durable_or_deleted();
    assert!(again == want);
    kani::cover!(n == 2 && !got && !again, "second evaluation of a live non-durable tail");
    kani::cover!(n == 2 && got && s1_sector == 0, "durable second successor");
    kani::cover!(n == 2 && !got, "live non-durable tail");
    std::mem::forget((old, s1, s2));
}

/// retirement_timestamp = max(retired_at) over the record and its whole successor chain
#[kani::proof]
#[kani::unwind(5)]
#[kani::stub(std::sync::Arc::drop_slow, noop_drop_slow)]
fn c07_retirement_timestamp_is_chain_max() {
    let old = Arc::new(rec(1));
    let s1 = Arc::new(rec(2));
    let s2 = Arc::new(rec(3));
    let (a, b, c): (u64, u64, u64) = (kani::any(), kani::any(), kani::any());
    old.retired_at.store(a, Ordering::Release);
    s1.retired_at.store(b, Ordering::Release);
    s2.retired_at.store(c, Ordering::Release);
    let n: u8 = kani::any();
    kani::assume(n <= 2);
    if n >= 1 {
        old.link_successor(&s1);
    }
    if n >= 2 {
        s1.link_successor(&s2);
    }
    let got = old.retirement_timestamp();
    let mut want = a;
    if n >= 1 && b > want {
        want = b;
    }
    if n >= 2 && c > want {
        want = c;
    }
    assert!(got == want);
    kani::cover!(n == 2 && c > a && c > b, "tail carries the newest retirement");
    std::mem::forget((old, s1, s2));
}

/// C13: calculate_size = fixed overhead + key capacity + value length (what the accounting charges)
#[kani::proof]
#[kani::unwind(3)]
fn c13_record_size_formula() {
    let mut r = rec(1);
    let vl: usize = kani::any();
    kani::assume(vl <= MAX_VALUE_SIZE);
    r.value_len = vl;
    assert!(r.calculate_size() == std::mem::size_of::<Record>() + r.key.capacity() + vl);
    assert!(r.key.capacity() == r.key.len());
    std::mem::forget(r);
}
