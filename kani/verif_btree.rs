//! Bounded model of the std::collections::BTreeMap API subset used by storage::free_space
//! (new / insert / remove / contains_key / len / iter / range + next / next_back).
//! Entries live in CAP unordered slots that are only ever indexed by constants, so every map
//! operation is a fixed mux network for the SAT solver; ordering is recovered by min/max search.
use std::ops::{Bound, RangeBounds};
pub const CAP: usize = 4;
pub struct BTreeMap<K, V> {
    slots: [Option<(K, V)>; CAP],
}
fn own<K: Copy>(b: Bound<&K>) -> Bound<K> {
    match b {
        Bound::Unbounded => Bound::Unbounded,
        Bound::Included(k) => Bound::Included(*k),
        Bound::Excluded(k) => Bound::Excluded(*k),
    }
}
impl<K: Ord + Copy, V> BTreeMap<K, V> {
    pub fn new() -> Self {
        Self { slots: [const { None }; CAP] }
    }
    pub fn len(&self) -> usize {
        let mut n = 0;
        let mut i = 0;
        while i < CAP {
            if self.slots[i].is_some() {
                n += 1;
            }
            i += 1;
        }
        n
    }
    pub fn contains_key(&self, k: &K) -> bool {
        let mut hit = false;
        let mut i = 0;
        while i < CAP {
            if let Some((kk, _)) = &self.slots[i] {
                if *kk == *k {
                    hit = true;
                }
            }
            i += 1;
        }
        hit
    }
    pub fn insert(&mut self, k: K, v: V) -> Option<V> {
        let mut i = 0;
        while i < CAP {
            let same = matches!(&self.slots[i], Some((kk, _)) if *kk == k);
            if same {
                let old = self.slots[i].take().unwrap();
                self.slots[i] = Some((k, v));
                return Some(old.1);
            }
            i += 1;
        }
        let mut i = 0;
        while i < CAP {
            if self.slots[i].is_none() {
                self.slots[i] = Some((k, v));
                return None;
            }
            i += 1;
        }
        panic!("verif BTreeMap model capacity exceeded");
    }
    pub fn remove(&mut self, k: &K) -> Option<V> {
        let mut i = 0;
        while i < CAP {
            let same = matches!(&self.slots[i], Some((kk, _)) if *kk == *k);
            if same {
                return self.slots[i].take().map(|e| e.1);
            }
            i += 1;
        }
        None
    }
    pub fn range<R: RangeBounds<K>>(&self, r: R) -> Iter<'_, K, V> {
        Iter { m: self, lo: own(r.start_bound()), hi: own(r.end_bound()) }
    }
    /// harness-only view of the unordered slots (constant indices)
    pub fn verif_slot(&self, i: usize) -> Option<(&K, &V)> {
        self.slots[i].as_ref().map(|e| (&e.0, &e.1))
    }
    pub fn iter(&self) -> Iter<'_, K, V> {
        Iter { m: self, lo: Bound::Unbounded, hi: Bound::Unbounded }
    }
}
pub struct Iter<'a, K, V> {
    m: &'a BTreeMap<K, V>,
    lo: Bound<K>,
    hi: Bound<K>,
}
impl<'a, K: Ord + Copy, V> Iter<'a, K, V> {
    fn inside(&self, k: &K) -> bool {
        let a = match &self.lo {
            Bound::Unbounded => true,
            Bound::Included(x) => k >= x,
            Bound::Excluded(x) => k > x,
        };
        let b = match &self.hi {
            Bound::Unbounded => true,
            Bound::Included(x) => k <= x,
            Bound::Excluded(x) => k < x,
        };
        a && b
    }
}
impl<'a, K: Ord + Copy, V> Iterator for Iter<'a, K, V> {
    type Item = (&'a K, &'a V);
    fn next(&mut self) -> Option<Self::Item> {
        let mut best: Option<(&'a K, &'a V)> = None;
        let mut i = 0;
        while i < CAP {
            if let Some((k, v)) = &self.m.slots[i] {
                if self.inside(k) && best.map_or(true, |(bk, _)| k < bk) {
                    best = Some((k, v));
                }
            }
            i += 1;
        }
        if let Some((k, _)) = best {
            self.lo = Bound::Excluded(*k);
        }
        best
    }
}
impl<'a, K: Ord + Copy, V> DoubleEndedIterator for Iter<'a, K, V> {
    fn next_back(&mut self) -> Option<Self::Item> {
        let mut best: Option<(&'a K, &'a V)> = None;
        let mut i = 0;
        while i < CAP {
            if let Some((k, v)) = &self.m.slots[i] {
                if self.inside(k) && best.map_or(true, |(bk, _)| k > bk) {
                    best = Some((k, v));
                }
            }
            i += 1;
        }
        if let Some((k, _)) = best {
            self.hi = Bound::Excluded(*k);
        }
        best
    }
}
