//! std's slice sort (pattern-defeating quicksort / smallsort networks / heapsort fallback) explodes under
//! lengths CBMC cannot constant-propagate; harnesses replace `<[T]>::sort_unstable_by_key` by this
//! insertion sort (same contract: a permutation sorted by key; stability is promised by neither).
pub(crate) trait SortModel<T> {
    fn sort_unstable_by_key_model<K, F>(&mut self, f: F)
    where
        F: FnMut(&T) -> K,
        K: Ord;
}
impl<T> SortModel<T> for [T] {
    fn sort_unstable_by_key_model<K, F>(&mut self, mut f: F)
    where
        F: FnMut(&T) -> K,
        K: Ord,
    {
        let n = self.len();
        let mut i = 1;
        while i < n {
            let mut j = i;
            while j > 0 && f(&self[j - 1]) > f(&self[j]) {
                self.swap(j - 1, j);
                j -= 1;
            }
            i += 1;
        }
    }
}
