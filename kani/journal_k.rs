//! C10/C03/C17: allocation journal – encoder layout, checksum coverage (CRC recorder), decoder on hostile
//! headers (CRC havoc), newest-valid-slot selection.
use super::*;
use crate::storage::seq_token::verif_kani::{rec_value, use_const, use_havoc, use_recorder, CONST_CRC, REC, REC_CAP};

fn rd32(b: &[u8], o: usize) -> u32 {
    u32::from_le_bytes([b[o], b[o + 1], b[o + 2], b[o + 3]])
}
fn rd64(b: &[u8], o: usize) -> u64 {
    u64::from_le_bytes([b[o], b[o + 1], b[o + 2], b[o + 3], b[o + 4], b[o + 5], b[o + 6], b[o + 7]])
}

/// documented image: magic "\0FEOXAJ1" @0 | version=2 u32 @8 | crc u32 @12 | generation u64 @16 |
/// state u32 @24 (0 clear / 1 active) | count u32 @28 | !crc u32 @32 | pad @36 | entries @40: (sector u32, sectors u32)*
/// size = ceil((40 + 8n)/4096)*4096; crc over the image with bytes 12..16 and 32..36 read as zero.
fn check_image(j: &[u8], generation: u64, state: u32, n: usize, e0: (u64, usize), e1: (u64, usize)) {
    assert!(j.len() == (40 + 8 * n).div_ceil(4096) * 4096);
    assert!(&j[..8] == b"\0FEOXAJ1");
    assert!(rd32(j, 8) == 2);
    assert!(rd64(j, 16) == generation);
    assert!(rd32(j, 24) == state);
    assert!(rd32(j, 28) == n as u32);
    assert!(rd32(j, 36) == 0);
    if n >= 1 {
        assert!(rd32(j, 40) as u64 == e0.0 && rd32(j, 44) as usize == e0.1);
    }
    if n >= 2 {
        assert!(rd32(j, 48) as u64 == e1.0 && rd32(j, 52) as usize == e1.1);
    }
    // entries area after the last entry is zero (sampled at constant offsets) and so is the block's tail
    if n == 0 {
        assert!(j[40] == 0 && j[47] == 0);
    }
    if n <= 1 {
        assert!(j[48] == 0 && j[55] == 0);
    }
    assert!(j[56] == 0 && j[63] == 0 && j[2048] == 0 && j[4095] == 0);
    // checksum coverage, from the CRC recorder: one chained message = the whole image with both
    // checksum fields zeroed; stored checksum = recorder value, complement = !checksum
    unsafe {
        assert!(REC.chain_ok && REC.n == 1 && REC.total[0] == j.len());
        let mut i = 0;
        while i < REC_CAP {
            let want = if (i >= 12 && i < 16) || (i >= 32 && i < 36) { 0 } else { j[i] };
            assert!(REC.bytes[0][i] == want);
            i += 1;
        }
    }
    let c = rec_value(j.len());
    assert!(rd32(j, 12) == c && rd32(j, 32) == !c);
}

fn encode_active_layout(n: usize) {
    use_recorder();
    let generation: u64 = kani::any();
    let e0: (u64, usize) = (kani::any(), kani::any());
    let e1: (u64, usize) = (kani::any(), kani::any());
    let both = [e0, e1];
    let r = encode_active(generation, &both[..n]);
    let fits = |e: (u64, usize)| e.0 >= 16 && e.0 <= u32::MAX as u64 && e.1 >= 1 && e.1 <= u32::MAX as usize;
    let valid = generation != 0 && fits(e0) && (n < 2 || fits(e1));
    match r {
        Ok(j) => {
            assert!(valid);
            check_image(&j, generation, 1, n, e0, e1);
            kani::cover!(n >= 1, "active image accepted");
            std::mem::forget(j);
        }
        Err(e) => {
            assert!(!valid);
            kani::cover!(generation != 0, "entry rejected");
            std::mem::forget(e);
        }
    }
}
// the entry count is concrete per harness: a symbolic count makes the image a symbolic-size allocation
#[kani::proof]
#[kani::unwind(134)]
fn c10_journal_encode_active_layout_n1() { encode_active_layout(1) }
#[kani::proof]
#[kani::unwind(134)]
fn c10_journal_encode_active_layout_n2() { encode_active_layout(2) }

#[kani::proof]
#[kani::unwind(134)]
fn c10_journal_encode_clear_layout() {
    use_recorder();
    let generation: u64 = kani::any();
    match encode_clear(generation) {
        Ok(j) => {
            assert!(generation != 0);
            check_image(&j, generation, 0, 0, (0, 0), (0, 0));
            kani::cover!(true, "clear image");
            std::mem::forget(j);
        }
        Err(e) => {
            assert!(generation == 0);
            std::mem::forget(e);
        }
    }
}

#[kani::proof]
fn c10_journal_geometry() {
    // two slots of three blocks each in blocks 1..7, before the backup metadata block 7 and the data area
    assert!(ALLOCATION_JOURNAL_START_BLOCK == 1 && ALLOCATION_JOURNAL_SLOT_BLOCKS == 3 && ALLOCATION_JOURNAL_SLOTS == 2);
    assert!(ALLOCATION_JOURNAL_BLOCKS == 6);
    assert!(ALLOCATION_JOURNAL_START_BLOCK + ALLOCATION_JOURNAL_BLOCKS <= crate::constants::FEOX_METADATA_BACKUP_BLOCK);
    // a full journal (1024 entries) fits one slot
    assert!(journal_image_size(ALLOCATION_JOURNAL_MAX_ENTRIES) <= JOURNAL_SLOT_SIZE);
    let n: usize = kani::any();
    kani::assume(n <= ALLOCATION_JOURNAL_MAX_ENTRIES);
    assert!(journal_image_size(n) >= 40 + 8 * n && journal_image_size(n) % 4096 == 0 && journal_image_size(n) < 40 + 8 * n + 4096);
    kani::cover!(journal_image_size(n) == 3 * 4096, "three-block image");
}

/// decode_slot on a hostile header (64 symbolic bytes, the rest of the slot zero), checksum comparison
/// havocked (CRC returns an arbitrary u32: every accept/reject outcome of the comparison is explored):
/// never panics; anything accepted has generation != 0, a legal state/count pair and only extents
/// inside [16,total) that are non-empty and pairwise disjoint.
fn decode_slot_hostile(count: u32) {
    use_havoc();
    // no harness loops (memcpy only): the unwind bound is sized for decode_slot's own loops (count + 2).
    // CBMC cannot see that `count` (parsed back out of the buffer) is a constant, so std's slice sort is
    // explored up to the unwind bound; the unwinding assertions (left on) are then discharged by the solver.
    let mut slot = [0u8; JOURNAL_SLOT_SIZE];
    let a: [u8; 28] = kani::any();
    let b: [u8; 32] = kani::any();
    slot[..28].copy_from_slice(&a);
    slot[28..32].copy_from_slice(&count.to_le_bytes());
    slot[32..64].copy_from_slice(&b);
    let mut head = [0u8; 64];
    head.copy_from_slice(&slot[..64]);
    let total: u64 = kani::any();
    let r = decode_slot(&slot, total, 1);
    if let Ok(st) = r {
        assert!(st.generation != 0 && st.generation == rd64(&head, 16));
        assert!(st.slot == 1);
        assert!(&head[..8] == b"\0FEOXAJ1");
        let version = rd32(&head, 8);
        assert!(version == 1 || version == 2);
        let state = rd32(&head, 24);
        assert!((state == 0 && count == 0) || (state == 1 && count >= 1));
        assert!(rd32(&head, 32) == !rd32(&head, 12));
        assert!(st.extents.len() == count as usize);
        let mut k = 0;
        while k < st.extents.len() {
            let (s, n) = st.extents[k];
            assert!(s >= 16 && n >= 1 && s + n as u64 <= total);
            assert!(s == rd32(&head, 40 + 8 * k) as u64 && n == rd32(&head, 44 + 8 * k) as usize);
            let mut l = 0;
            while l < k {
                let (s2, n2) = st.extents[l];
                assert!(s + n as u64 <= s2 || s2 + n2 as u64 <= s);
                l += 1;
            }
            k += 1;
        }
        kani::cover!(true, "hostile header accepted (checksum havocked)");
        std::mem::forget(st);
    } else {
        kani::cover!(&head[..8] == b"\0FEOXAJ1", "journal slot with magic rejected");
        std::mem::forget(r);
    }
}

#[kani::proof]
#[kani::unwind(3)]
fn c17_journal_decode_slot_count0() { decode_slot_hostile(0) }
#[kani::proof]
#[kani::unwind(3)]
fn c17_journal_decode_slot_count1() { decode_slot_hostile(1) }
#[kani::proof]
#[kani::unwind(4)]
fn c17_journal_decode_slot_count2() { decode_slot_hostile(2) }
#[kani::proof]
#[kani::unwind(5)]
fn c17_journal_decode_slot_count3() { decode_slot_hostile(3) }

/// count beyond the maximum, or an entry table that would leave the slot, is rejected without panic
#[kani::proof]
#[kani::unwind(6)]
fn c17_journal_decode_slot_huge_count() {
    use_havoc();
    let mut slot = vec![0u8; JOURNAL_SLOT_SIZE];
    let head: [u8; 64] = kani::any();
    slot[..64].copy_from_slice(&head);
    kani::assume(rd32(&head, 28) > ALLOCATION_JOURNAL_MAX_ENTRIES as u32);
    let r = decode_slot(&slot, kani::any(), 0);
    assert!(r.is_err());
    kani::cover!(true, "oversized count rejected");
    std::mem::forget((r, slot));
}

/// decode(): newest valid slot wins, a torn/invalid newer slot falls back to the other one, an all-zero
/// slot counts as "missing" (fresh device), nothing valid and nothing missing is an error.
/// CRC = constant, so a slot's checksum validity is a free choice of the symbolic header.
#[kani::proof]
#[kani::unwind(12300)]
fn c03_journal_decode_selects_newest_valid() {
    use_const();
    let mut data = vec![0u8; 2 * JOURNAL_SLOT_SIZE];
    let zero0: bool = kani::any();
    let zero1: bool = kani::any();
    let mut heads = [[0u8; 40]; 2];
    let mut sl = 0;
    while sl < 2 {
        let zero = if sl == 0 { zero0 } else { zero1 };
        if !zero {
            let h: [u8; 40] = kani::any();
            // clear or active-with-no-entries only: extents are the subject of the decode_slot harnesses
            kani::assume(rd32(&h, 28) == 0);
            let mut nz = false;
            let mut i = 0;
            while i < 40 {
                data[sl * JOURNAL_SLOT_SIZE + i] = h[i];
                if h[i] != 0 {
                    nz = true;
                }
                i += 1;
            }
            kani::assume(nz);
            heads[sl] = h;
        }
        sl += 1;
    }
    let total: u64 = kani::any();
    let ok = |h: &[u8; 40]| {
        &h[..8] == b"\0FEOXAJ1"
            && (rd32(h, 8) == 1 || rd32(h, 8) == 2)
            && rd64(h, 16) != 0
            && rd32(h, 24) == 0
            && rd32(h, 12) == CONST_CRC
            && rd32(h, 32) == !CONST_CRC
    };
    let v0 = !zero0 && ok(&heads[0]);
    let v1 = !zero1 && ok(&heads[1]);
    let g0 = rd64(&heads[0], 16);
    let g1 = rd64(&heads[1], 16);
    match decode(&data, total) {
        Ok(st) => {
            if v0 || v1 {
                let pick1 = v1 && (!v0 || g1 >= g0);
                assert!(st.slot == if pick1 { 1 } else { 0 });
                assert!(st.generation == if pick1 { g1 } else { g0 });
                kani::cover!(v0 && v1 && g0 > g1, "older slot 1 loses to newer slot 0");
                kani::cover!(!v0 && v1 && !zero0 && g0 > g1, "torn newer slot falls back to the valid older one");
            } else {
                assert!(zero0 || zero1);
                assert!(st.generation == 0);
                assert!(st.slot == if zero1 { 1 } else { 0 });
                kani::cover!(zero0 && zero1, "fresh device");
            }
            assert!(st.extents.is_empty());
            std::mem::forget(st);
        }
        Err(e) => {
            assert!(!v0 && !v1 && !zero0 && !zero1);
            kani::cover!(true, "both slots damaged");
            std::mem::forget(e);
        }
    }
    std::mem::forget(data);
}

#[kani::proof]
fn c17_journal_decode_wrong_length() {
    let len: usize = kani::any();
    kani::assume(len <= 64 && len != 2 * JOURNAL_SLOT_SIZE);
    let buf = [0u8; 64];
    let r = decode(&buf[..len], kani::any());
    assert!(r.is_err());
    std::mem::forget(r);
}
