//! C10/C17: metadata block – every 136-byte input; reference validator written from the documented layout.
use super::*;
use crate::storage::seq_token::verif_kani::{rec_matches, rec_value, use_const, use_recorder, REC};

fn rd32(b: &[u8], o: usize) -> u32 {
    u32::from_le_bytes([b[o], b[o + 1], b[o + 2], b[o + 3]])
}
fn rd64(b: &[u8], o: usize) -> u64 {
    u64::from_le_bytes([b[o], b[o + 1], b[o + 2], b[o + 3], b[o + 4], b[o + 5], b[o + 6], b[o + 7]])
}

/// Documented layout: sig[0..8] "FEOX_SIG" | version u32 @8 | (pad 12..16) | total_records u64 @16 |
/// total_size u64 @24 | device_size u64 @32 | block_size u32 @40 | fragmentation u32 @44 |
/// creation u64 @48 | last_update u64 @56 | reserved[68] @64: "FM3C" | crc u32 | !crc u32 | generation u64 | ..
/// CRC-32C over sig, version, total_records, total_size, device_size, block_size, fragmentation,
/// creation, last_update, reserved[12..]  (i.e. bytes 0..12, 16..64, 76..132 of the image: 116 bytes).
fn ref_structure(b: &[u8; 136]) -> (bool, bool) {
    // (structurally valid, checksum required/present)
    if &b[..8] != b"FEOX_SIG" {
        return (false, false);
    }
    if rd32(b, 40) != 4096 {
        return (false, false);
    }
    let version = rd32(b, 8);
    if version == 0 || version > 3 {
        return (false, false);
    }
    let dev = rd64(b, 32);
    if dev == 0 || dev > (1u64 << 40) {
        return (false, false);
    }
    let has = &b[64..68] == b"FM3C";
    if version >= 3 && !has {
        return (false, false);
    }
    (true, has)
}
fn ref_crc_message(b: &[u8; 136]) -> [u8; 116] {
    let mut msg = [0u8; 116];
    msg[..12].copy_from_slice(&b[..12]);
    msg[12..60].copy_from_slice(&b[16..64]);
    msg[60..].copy_from_slice(&b[76..132]);
    msg
}

/// from_bytes on ALL 136-byte inputs, CRC recorder: accepts exactly when the documented validator does
/// (signature, block size, version 1..3, device size, magic, checksum == CRC(the documented 116-byte
/// message), complement), feeds the CRC exactly that message, and every field is the documented
/// little-endian slice.
#[kani::proof]
#[kani::unwind(140)]
fn c10_metadata_from_bytes_total() {
    use_recorder();
    let bytes: [u8; 136] = kani::any();
    let (structural, has) = ref_structure(&bytes);
    let crc = rd32(&bytes, 68);
    let comp = rd32(&bytes, 72);
    let want = structural && (!has || (comp == !crc && crc == rec_value(116)));
    let r = Metadata::from_bytes(&bytes);
    if structural && has && comp == !crc {
        // the checksum was computed (the complement test short-circuits first): over exactly the
        // documented message, chained
        assert!(rec_matches(0, &ref_crc_message(&bytes), 116));
        assert!(unsafe { REC.n } == 1);
    }
    match r {
        Some(m) => {
            assert!(want);
            assert!(m.version == rd32(&bytes, 8));
            assert!(m.total_records == rd64(&bytes, 16));
            assert!(m.total_size == rd64(&bytes, 24));
            assert!(m.device_size == rd64(&bytes, 32));
            assert!(m.block_size == 4096);
            assert!(m.fragmentation == rd32(&bytes, 44));
            assert!(m.creation_time == rd64(&bytes, 48));
            assert!(m.last_update_time == rd64(&bytes, 56));
            if has {
                assert!(m.generation() == rd64(&bytes, 76));
            }
            // re-encoding reproduces every byte except the two uncovered pads 12..16 and 132..136
            let e = m.encode();
            let i: usize = kani::any();
            kani::assume(i < 132 && !(i >= 12 && i < 16));
            assert!(e[i] == bytes[i]);
            kani::cover!(m.version == 3, "checksummed v3 metadata accepted");
            kani::cover!(m.version == 1 && !has, "legacy metadata without checksum accepted");
        }
        None => {
            assert!(!want);
            kani::cover!(structural, "structurally fine metadata with a wrong checksum rejected");
        }
    }
}

/// the same with the REAL software CRC kernel: never panics, anything accepted is in range
#[kani::proof]
#[kani::unwind(140)]
fn c17_metadata_from_bytes_real_crc() {
    let bytes: [u8; 136] = kani::any();
    if let Some(m) = Metadata::from_bytes(&bytes) {
        assert!(m.version >= 1 && m.version <= 3);
        assert!(m.device_size != 0 && m.device_size <= MAX_DEVICE_SIZE);
        assert!(m.block_size == 4096 && m.signature == *b"FEOX_SIG");
        kani::cover!(m.version == 3, "v3 accepted with a genuine CRC");
    }
}

/// short inputs never panic and are rejected
#[kani::proof]
#[kani::unwind(140)]
fn c17_metadata_short_input() {
    let bytes: [u8; 136] = kani::any();
    let len: usize = kani::any();
    kani::assume(len < 136);
    assert!(Metadata::from_bytes(&bytes[..len]).is_none());
    kani::cover!(len == 135, "one byte short");
}

/// advance_generation: generation + 1, image stays valid, fields unchanged; u64::MAX -> Err, unmodified.
#[kani::proof]
#[kani::unwind(10)]
fn c10_metadata_advance_generation() {
    use_const();
    let bytes: [u8; 136] = kani::any();
    kani::assume(&bytes[64..68] == b"FM3C");
    if let Some(mut m) = Metadata::from_bytes(&bytes) {
        let g = m.generation();
        let before = m.encode();
        let r = m.advance_generation();
        let after = m.encode();
        if g == u64::MAX {
            assert!(r.is_err());
            let i: usize = kani::any();
            kani::assume(i < 136);
            assert!(after[i] == before[i]);
        } else {
            assert!(r.is_ok());
            assert!(m.generation() == g + 1);
            assert!(m.validate());
            assert!(rd32(&after, 72) == !rd32(&after, 68) && &after[64..68] == b"FM3C");
            let i: usize = kani::any();
            kani::assume(i < 64);
            assert!(after[i] == before[i]);
            kani::cover!(true, "generation advanced");
        }
        std::mem::forget(r);
    }
}
