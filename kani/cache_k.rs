//! C16: the generation guard of the read cache.
use super::*;
#[path = "lock_stubs.rs"]
mod lock_stubs;
use lock_stubs::*;

fn rec(ts: u64, refcount: u32) -> Arc<Record> {
    let r = Record::new(vec![b'k'], Vec::new(), ts);
    r.refcount.store(refcount, Ordering::Release);
    Arc::new(r)
}

/// can_replace_generation over every combination of {no cached tag, dead weak tag, live cached
/// generation} x {untagged insert, same generation, other generation} with symbolic timestamps and
/// refcounts: a retired (refcount 0) incoming generation is never cached; an incoming generation never
/// displaces a LIVE cached generation that is not older; everything else is allowed.

#[kani::proof]
#[kani::unwind(3)]
#[kani::stub(std::sync::Arc::drop_slow, noop_drop_slow)]
fn c16_can_replace_generation() {
    let ts_c: u64 = kani::any();
    let ts_i: u64 = kani::any();
    let rc_c: u32 = kani::any();
    let rc_i: u32 = kani::any();
    let cached_kind: u8 = kani::any(); // 0 none, 1 dead weak, 2 live
    let incoming_kind: u8 = kani::any(); // 0 none, 1 same as cached, 2 other
    kani::assume(cached_kind <= 2 && incoming_kind <= 2);
    kani::assume(!(incoming_kind == 1 && cached_kind != 2));
    let c = rec(ts_c, rc_c);
    let other = rec(ts_i, rc_i);
    // a tag whose generation is gone (upgrade() == None). Weak::new() instead of dropping a real
    // Arc<Record>: Record's drop glue (Bytes vtable dispatch) is what makes this harness explode.
    let dead_weak: Weak<Record> = Weak::new();
    let live_weak = Arc::downgrade(&c);
    let cached: Option<&Weak<Record>> = match cached_kind {
        0 => None,
        1 => Some(&dead_weak),
        _ => Some(&live_weak),
    };
    let incoming: Option<&Arc<Record>> = match incoming_kind {
        0 => None,
        1 => Some(&c),
        _ => Some(&other),
    };
    let got = can_replace_generation(cached, incoming);
    let want = match incoming_kind {
        0 => true,
        1 => rc_c != 0,
        _ => {
            if rc_i == 0 {
                false
            } else if cached_kind != 2 {
                true
            } else {
                rc_c == 0 || ts_c < ts_i
            }
        }
    };
    assert!(got == want);
    kani::cover!(cached_kind == 2 && incoming_kind == 2 && !got && rc_i != 0, "older generation refused over a live newer one");
    kani::cover!(cached_kind == 1 && incoming_kind == 2 && got, "dead tag replaced");
    std::mem::forget((c, other, dead_weak, live_weak));
}
