//! C10 (record layout, retirement markers), C17 (parse_record on hostile bytes), C08 (post-read identity
//! check), C05 (one extent length everywhere) – against reference code written from the documented layout.
use super::*;
#[path = "lock_stubs.rs"]
mod lock_stubs;
use lock_stubs::*;
use crate::storage::seq_token::verif_kani::{rec_matches, rec_value, ref_fold, use_recorder, REC};

const KMAX: usize = 4;

/// key of concrete length `kl` (1..=KMAX) with symbolic bytes. Symbolic key LENGTHS are covered by the
/// parse_* / size harnesses; here they would only add symbolic-size allocations (18 min vs seconds).
fn sym_key_n(kl: usize) -> Vec<u8> {
    let kb: [u8; KMAX] = kani::any();
    let mut key = Vec::with_capacity(KMAX);
    let mut i = 0;
    while i < kl {
        key.push(kb[i]);
        i += 1;
    }
    key
}
fn sym_key() -> Vec<u8> {
    sym_key_n(3)
}
fn sym_key_symlen() -> Vec<u8> {
    let kl: usize = kani::any();
    kani::assume(kl >= 1 && kl <= KMAX);
    let kb: [u8; KMAX] = kani::any();
    let mut key = Vec::with_capacity(KMAX);
    let mut i = 0;
    while i < KMAX {
        if i < kl {
            key.push(kb[i]);
        }
        i += 1;
    }
    key
}

/// documented layout (after the 4-byte sector header): key_len u16 | key | value_len u64 | ts u64 | [expiry u64]
fn ref_header(key: &[u8], value_len: u64, ts: u64, expiry: Option<u64>) -> ([u8; 2 + KMAX + 24], usize) {
    let mut out = [0u8; 2 + KMAX + 24];
    let mut n = 0;
    let kl = (key.len() as u16).to_le_bytes();
    out[0] = kl[0];
    out[1] = kl[1];
    n += 2;
    let mut i = 0;
    while i < key.len() {
        out[n] = key[i];
        n += 1;
        i += 1;
    }
    let mut put = |v: u64, n: &mut usize| {
        let b = v.to_le_bytes();
        let mut j = 0;
        while j < 8 {
            out[*n] = b[j];
            *n += 1;
            j += 1;
        }
    };
    put(value_len, &mut n);
    put(ts, &mut n);
    if let Some(e) = expiry {
        put(e, &mut n);
    }
    (out, n)
}

fn mk_record(key: Vec<u8>, value_len: usize, ts: u64, expiry: u64) -> Record {
    let mut r = Record::new(key, Vec::new(), ts);
    r.value_len = value_len;
    r.ttl_expiry.store(expiry, Ordering::Release);
    r
}

#[kani::proof]
#[kani::unwind(10)]
#[kani::stub(parking_lot::raw_rwlock::RawRwLock::lock_exclusive_slow, s_lock_ex)]
#[kani::stub(parking_lot::raw_rwlock::RawRwLock::unlock_exclusive_slow, s_unlock_ex)]
#[kani::stub(parking_lot::raw_rwlock::RawRwLock::lock_shared_slow, s_lock_sh)]
#[kani::stub(parking_lot::raw_rwlock::RawRwLock::unlock_shared_slow, s_unlock_sh)]
fn c10_serialize_header_v2() {
    let key = sym_key();
    let value_len: usize = kani::any();
    let ts: u64 = kani::any();
    let expiry: u64 = kani::any();
    let (want, n) = ref_header(&key, value_len as u64, ts, Some(expiry));
    let rec = mk_record(key, value_len, ts, expiry);
    let mut data = Vec::with_capacity(64);
    FormatV2.serialize_record_into(&rec, false, &mut data);
    assert!(data.len() == n);
    assert!(data.len() + SECTOR_HEADER_SIZE == FormatV2.record_header_size(rec.key.len()));
    let i: usize = kani::any();
    kani::assume(i < n);
    assert!(data[i] == want[i]);
    kani::cover!(rec.key.len() == 3, "3-byte key");
    std::mem::forget((rec, data));
}

#[kani::proof]
#[kani::unwind(10)]
#[kani::stub(parking_lot::raw_rwlock::RawRwLock::lock_exclusive_slow, s_lock_ex)]
#[kani::stub(parking_lot::raw_rwlock::RawRwLock::unlock_exclusive_slow, s_unlock_ex)]
#[kani::stub(parking_lot::raw_rwlock::RawRwLock::lock_shared_slow, s_lock_sh)]
#[kani::stub(parking_lot::raw_rwlock::RawRwLock::unlock_shared_slow, s_unlock_sh)]
fn c10_serialize_header_v1() {
    let key = sym_key();
    let value_len: usize = kani::any();
    let ts: u64 = kani::any();
    let (want, n) = ref_header(&key, value_len as u64, ts, None);
    let rec = mk_record(key, value_len, ts, kani::any());
    let mut data = Vec::with_capacity(64);
    FormatV1.serialize_record_into(&rec, false, &mut data);
    assert!(data.len() == n);
    assert!(data.len() + SECTOR_HEADER_SIZE == FormatV1.record_header_size(rec.key.len()));
    let i: usize = kani::any();
    kani::assume(i < n);
    assert!(data[i] == want[i]);
    kani::cover!(rec.key.len() == 3, "3-byte key");
    std::mem::forget((rec, data));
}

fn rd64(d: &[u8], o: usize) -> u64 {
    u64::from_le_bytes([d[o], d[o + 1], d[o + 2], d[o + 3], d[o + 4], d[o + 5], d[o + 6], d[o + 7]])
}

/// parse_record on ANY buffer of <= 64 bytes: never panics, returns exactly the documented fields or
/// None exactly when the buffer is too short for the declared key length.
fn parse_total(v1: bool) {
    let data: [u8; 64] = kani::any();
    let len: usize = kani::any();
    kani::assume(len <= 64);
    let fixed = if v1 { 16 } else { 24 };
    let r = if v1 { FormatV1.parse_record(&data[..len]) } else { FormatV2.parse_record(&data[..len]) };
    let kl = if len >= 6 { u16::from_le_bytes([data[4], data[5]]) as usize } else { 0 };
    let fits = len >= 6 && 6 + kl + fixed <= len;
    match r {
        Some((key, value_len, ts, exp)) => {
            assert!(fits);
            assert!(key.len() == kl);
            let i: usize = kani::any();
            kani::assume(i < kl);
            assert!(key[i] == data[6 + i]);
            let o = 6 + kl;
            assert!(value_len as u64 == rd64(&data, o));
            assert!(ts == rd64(&data, o + 8));
            if v1 { assert!(exp == 0) } else { assert!(exp == rd64(&data, o + 16)) }
            kani::cover!(kl > 0, "parsed a keyed record");
            std::mem::forget(key);
        }
        None => {
            assert!(!fits);
            kani::cover!(len >= 6, "rejected as too short for its key length");
        }
    }
}

#[kani::proof]
#[kani::unwind(66)]
fn c17_parse_record_v2_total() { parse_total(false) }

#[kani::proof]
#[kani::unwind(66)]
fn c17_parse_record_v1_total() { parse_total(true) }

/// serialize -> parse round trip, including the expiry field bit-exactly (C11: expiry survives restart).
#[kani::proof]
#[kani::unwind(10)]
#[kani::stub(parking_lot::raw_rwlock::RawRwLock::lock_exclusive_slow, s_lock_ex)]
#[kani::stub(parking_lot::raw_rwlock::RawRwLock::unlock_exclusive_slow, s_unlock_ex)]
#[kani::stub(parking_lot::raw_rwlock::RawRwLock::lock_shared_slow, s_lock_sh)]
#[kani::stub(parking_lot::raw_rwlock::RawRwLock::unlock_shared_slow, s_unlock_sh)]
fn c10_roundtrip_v2() {
    let key = sym_key();
    let value_len: usize = kani::any();
    let ts: u64 = kani::any();
    let expiry: u64 = kani::any();
    let rec = mk_record(key, value_len, ts, expiry);
    let mut data = Vec::with_capacity(64);
    data.extend_from_slice(&SECTOR_MARKER.to_le_bytes());
    data.extend_from_slice(&[0, 0]);
    FormatV2.serialize_record_into(&rec, false, &mut data);
    let parsed = FormatV2.parse_record(&data);
    assert!(parsed.is_some());
    let (k, vl, t, e) = parsed.unwrap();
    assert!(k.len() == rec.key.len());
    let i: usize = kani::any();
    kani::assume(i < k.len());
    assert!(k[i] == rec.key[i]);
    assert!(vl == value_len && t == ts && e == expiry);
    kani::cover!(expiry == u64::MAX, "extreme expiry");
    std::mem::forget((rec, data, k));
}

/// C05(i): the extent length is the same expression at every site that derives it, for every key and
/// value length the API admits, in every format version; and the value fits in the extent.
#[kani::proof]
#[kani::stub(parking_lot::raw_rwlock::RawRwLock::lock_exclusive_slow, s_lock_ex)]
#[kani::stub(parking_lot::raw_rwlock::RawRwLock::unlock_exclusive_slow, s_unlock_ex)]
#[kani::stub(parking_lot::raw_rwlock::RawRwLock::lock_shared_slow, s_lock_sh)]
#[kani::stub(parking_lot::raw_rwlock::RawRwLock::unlock_shared_slow, s_unlock_sh)]
fn c05_extent_length_agreement() {
    let kl: usize = kani::any();
    let vl: usize = kani::any();
    kani::assume(kl >= 1 && kl <= MAX_KEY_SIZE && vl >= 1 && vl <= MAX_VALUE_SIZE);
    let version: u32 = kani::any();
    kani::assume(version >= 1 && version <= 3);
    let f = get_format_ref(version);
    let fixed = if version == 1 { 16 } else { 24 };
    // documented sizes
    assert!(f.record_header_size(kl) == SECTOR_HEADER_SIZE + 2 + kl + fixed);
    assert!(f.value_offset(kl) == f.record_header_size(kl));
    assert!(f.total_size(kl, 0) == f.record_header_size(kl));
    assert!(f.total_size(kl, vl) == f.record_header_size(kl) + vl);
    // writer (padded image length), reader / retirement / recovery (div_ceil) agree
    let total = f.total_size(kl, vl);
    let padded = total.div_ceil(FEOX_BLOCK_SIZE) * FEOX_BLOCK_SIZE;
    let blocks = total.div_ceil(FEOX_BLOCK_SIZE);
    assert!(blocks >= 1 && padded / FEOX_BLOCK_SIZE == blocks);
    assert!((blocks - 1) * FEOX_BLOCK_SIZE < total && total <= blocks * FEOX_BLOCK_SIZE);
    assert!(f.value_offset(kl) + vl <= blocks * FEOX_BLOCK_SIZE);
    kani::cover!(blocks > 1, "multi-block extent");
}

#[kani::proof]
#[kani::unwind(6)]
fn c05_record_disk_size_agrees_v2() {
    let key = sym_key();
    let vl: usize = kani::any();
    kani::assume(vl >= 1 && vl <= MAX_VALUE_SIZE);
    let rec = mk_record(key, vl, 1, 0);
    let blocks = FormatV2.total_size(rec.key.len(), vl).div_ceil(FEOX_BLOCK_SIZE);
    assert!(rec.calculate_disk_size() == blocks * FEOX_BLOCK_SIZE);
    kani::cover!(blocks == 2, "two blocks");
    std::mem::forget(rec);
}

/// C08(b): sector_holds_record(buf, rec) == true only if the buffer really is this generation's head:
/// record marker, key length, key bytes, value length and timestamp all equal. So another key's block,
/// a retirement marker block or zero padding is never accepted.
#[kani::proof]
#[kani::unwind(10)]
fn c08_sector_holds_record_sound() {
    let data: [u8; 64] = kani::any();
    let len: usize = kani::any();
    kani::assume(len <= 64);
    let key = sym_key_symlen();
    let rec = mk_record(key, kani::any(), kani::any(), kani::any());
    let ok = sector_holds_record(&data[..len], &rec);
    let kl = rec.key.len();
    let mut same = len >= 6 + kl + 16
        && data[0] == 0xCD
        && data[1] == 0xAB
        && u16::from_le_bytes([data[4], data[5]]) as usize == kl;
    let mut i = 0;
    while i < KMAX {
        if i < kl && same && data[6 + i] != rec.key[i] {
            same = false;
        }
        i += 1;
    }
    if same {
        same = rd64(&data, 6 + kl) == rec.value_len as u64 && rd64(&data, 6 + kl + 8) == rec.timestamp;
    }
    assert!(ok == same);
    if data[0] == 0 && data[1] == b'D' {
        assert!(!ok); // "\0DELETED" retirement marker block
    }
    kani::cover!(ok, "identity accepted");
    kani::cover!(!ok && len >= 30, "identity rejected");
    std::mem::forget(rec);
}

/// reference retirement marker: tag(8) | remaining u64 | token u16 | state(1); the token is the fold of
/// the CRC over the 25-byte message sector_le || first 16 bytes || state  (CRC recorder: `crc_after_25`)
fn ref_marker(remaining: u64, state: u8) -> [u8; 19] {
    let mut m = [0u8; 19];
    let tag = *b"\0DELETED";
    let mut i = 0;
    while i < 8 {
        m[i] = tag[i];
        m[8 + i] = remaining.to_le_bytes()[i];
        i += 1;
    }
    m[18] = state;
    let t = ref_fold(rec_value(25)).to_le_bytes();
    m[16] = t[0];
    m[17] = t[1];
    m
}
fn ref_marker_msg(sector: u64, remaining: u64, state: u8) -> [u8; 25] {
    let mut msg = [0u8; 25];
    msg[..8].copy_from_slice(&sector.to_le_bytes());
    msg[8..16].copy_from_slice(b"\0DELETED");
    msg[16..24].copy_from_slice(&remaining.to_le_bytes());
    msg[24] = state;
    msg
}

#[kani::proof]
#[kani::unwind(66)]
fn c10_retirement_marker_layout() {
    use_recorder();
    let sector: u64 = kani::any();
    let remaining: usize = kani::any();
    let mut m = [0u8; DELETION_MARKER_SIZE];
    fill_retirement_marker(&mut m, sector, remaining);
    let want = ref_marker(remaining as u64, 1);
    let i: usize = kani::any();
    kani::assume(i < 19);
    assert!(m[i] == want[i]);
    assert!(DELETION_MARKER_SIZE == 19);
    assert!(rec_matches(0, &ref_marker_msg(sector, remaining as u64, 1), 25));
    kani::cover!(true, "marker written");
}

/// fill_retirement_markers over 2 blocks: block j gets the marker for (sector+j, remaining-j) in its
/// first 19 bytes and every other byte of the buffer is left alone.
#[kani::proof]
#[kani::unwind(66)]
fn c10_retirement_markers_two_blocks() {
    use_recorder();
    let fill: u8 = kani::any();
    let mut buf = [fill; 2 * FEOX_BLOCK_SIZE];
    let sector: u64 = kani::any();
    kani::assume(sector < u64::MAX - 4);
    let remaining: usize = kani::any();
    kani::assume(remaining >= 2);
    fill_retirement_markers(&mut buf, sector, remaining);
    let w0 = ref_marker(remaining as u64, 1);
    let w1 = ref_marker(remaining as u64 - 1, 1);
    // constant indices only: a symbolic index into an 8 KiB array makes CBMC run out of memory
    let mut i = 0;
    while i < 19 {
        assert!(buf[i] == w0[i]);
        assert!(buf[FEOX_BLOCK_SIZE + i] == w1[i]);
        i += 1;
    }
    assert!(rec_matches(0, &ref_marker_msg(sector, remaining as u64, 1), 25));
    assert!(rec_matches(1, &ref_marker_msg(sector + 1, remaining as u64 - 1, 1), 25));
    assert!(unsafe { REC.n } == 2);
    // bytes outside the two 19-byte markers are untouched (sampled at the boundaries of each block)
    assert!(buf[19] == fill && buf[20] == fill && buf[2048] == fill && buf[4095] == fill);
    assert!(buf[4096 + 19] == fill && buf[4096 + 20] == fill && buf[6000] == fill && buf[8191] == fill);
    kani::cover!(remaining > 2, "marker run continues past this write");
}

/// retirement_marker_token covers sector_le || marker[0..16] || marker[18] (the state byte), nothing else
#[kani::proof]
#[kani::unwind(66)]
fn c10_marker_token_binds_sector_and_state() {
    use_recorder();
    let m: [u8; 19] = kani::any();
    let sector: u64 = kani::any();
    let t = retirement_marker_token(sector, &m);
    let mut msg = [0u8; 25];
    msg[..8].copy_from_slice(&sector.to_le_bytes());
    msg[8..24].copy_from_slice(&m[..16]);
    msg[24] = m[18];
    assert!(rec_matches(0, &msg, 25));
    assert!(t == ref_fold(rec_value(25)));
    kani::cover!(true, "token");
}

#[kani::proof]
#[kani::stub(parking_lot::raw_rwlock::RawRwLock::lock_exclusive_slow, s_lock_ex)]
#[kani::stub(parking_lot::raw_rwlock::RawRwLock::unlock_exclusive_slow, s_unlock_ex)]
#[kani::stub(parking_lot::raw_rwlock::RawRwLock::lock_shared_slow, s_lock_sh)]
#[kani::stub(parking_lot::raw_rwlock::RawRwLock::unlock_shared_slow, s_unlock_sh)]
fn c10_format_selection() {
    let v: u32 = kani::any();
    let kl: usize = kani::any();
    kani::assume(kl <= MAX_KEY_SIZE);
    let f = get_format_ref(v);
    let b = get_format(v);
    if v == 1 {
        assert!(f.record_header_size(kl) == 4 + 2 + kl + 16);
    } else {
        assert!(f.record_header_size(kl) == 4 + 2 + kl + 24);
    }
    assert!(b.record_header_size(kl) == f.record_header_size(kl));
    kani::cover!(v == 3, "v3");
    std::mem::forget(b);
}
