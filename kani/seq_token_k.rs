//! C10/C17/C03: CRC-32C kernel, record token, header_range – against an independent bitwise reference.
use super::*;
#[path = "lock_stubs.rs"]
mod lock_stubs;
use lock_stubs::*;
use crate::storage::format::{FormatV1, FormatV2};

// ---- CRC selection under cfg(kani) -------------------------------------------------------------------
// `select_crc32c` (cpuid / SSE4.2 / ARM intrinsics: not encodable) gets one cfg(kani) line in the scratch
// copy that asks `crc_override()` first (lib/kanirun.py REWRITES). Because this is source-level and not a
// kani::stub, it is also in force when a counterexample is replayed natively with `cargo kani playback`.
//   mode 0: the crate's own portable kernel `crc32c_sw` (default)
//   mode 1: recorder – logs exactly which bytes are fed, in which order, and checks the seed chaining
//   mode 2: havoc – an arbitrary u32 per call (sound over-approximation for panic-freedom checks)
//   mode 3: constant (for slot-selection logic)
pub(crate) static mut CRC_MODE: u8 = 0;
pub(crate) fn crc_override() -> Option<Crc32c> {
    Some(match unsafe { CRC_MODE } {
        1 => rec_crc,
        2 => havoc_crc,
        3 => const_crc,
        _ => crc32c_sw,
    })
}
pub(crate) fn use_recorder() {
    unsafe {
        CRC_MODE = 1;
    }
}
pub(crate) fn use_havoc() {
    unsafe {
        CRC_MODE = 2;
    }
}
pub(crate) fn use_const() {
    unsafe {
        CRC_MODE = 3;
    }
}
/// mode 3: a constant – deterministic, so "this slot's stored checksum is right" is decided by the
/// symbolic header alone (used for slot-selection logic, where the CRC value itself is irrelevant)
pub(crate) const CONST_CRC: u32 = 0x1357_9BDF;
fn const_crc(_seed: u32, _data: &[u8]) -> u32 {
    CONST_CRC
}
fn havoc_crc(_seed: u32, _data: &[u8]) -> u32 {
    kani::any()
}

pub(crate) const REC_CAP: usize = 128;
pub(crate) const REC_MSGS: usize = 4;
pub(crate) struct Recorder {
    pub n: usize,
    pub total: [usize; REC_MSGS],
    pub bytes: [[u8; REC_CAP]; REC_MSGS],
    pub chain_ok: bool,
}
pub(crate) static mut REC: Recorder =
    Recorder { n: 0, total: [0; REC_MSGS], bytes: [[0; REC_CAP]; REC_MSGS], chain_ok: true };
/// the recorder's "crc" after `total` message bytes: never 0, a function of the length only
pub(crate) fn rec_value(total: usize) -> u32 {
    0x5A00_0000u32.wrapping_add(total as u32).wrapping_add(1)
}
fn rec_crc(seed: u32, data: &[u8]) -> u32 {
    unsafe {
        if seed == 0 {
            assert!(REC.n < REC_MSGS, "verif recorder: too many CRC messages");
            REC.n += 1;
        } else if REC.n == 0 || seed != rec_value(REC.total[REC.n - 1]) {
            REC.chain_ok = false; // a segment was not chained onto the running value
            if REC.n == 0 {
                REC.n = 1;
            }
        }
        let m = REC.n - 1;
        let mut i = 0;
        while i < data.len() && REC.total[m] + i < REC_CAP {
            REC.bytes[m][REC.total[m] + i] = data[i];
            i += 1;
        }
        REC.total[m] += data.len();
        rec_value(REC.total[m])
    }
}
/// message `m` recorded so far equals `want[..len]` (compared at one symbolic position)
pub(crate) fn rec_matches(m: usize, want: &[u8], len: usize) -> bool {
    unsafe {
        if !(REC.chain_ok && m < REC.n && REC.total[m] == len) {
            return false;
        }
        let i: usize = kani::any();
        kani::assume(i < len && i < REC_CAP);
        REC.bytes[m][i] == want[i]
    }
}

/// Independent reference: bit-at-a-time reflected CRC-32C (Castagnoli, 0x1EDC6F41 reflected = 0x82F63B78).
pub(crate) fn ref_crc32c(seed: u32, data: &[u8]) -> u32 {
    let mut crc = !seed;
    let mut i = 0;
    while i < data.len() {
        crc ^= data[i] as u32;
        let mut b = 0;
        while b < 8 {
            let lsb = crc & 1;
            crc >>= 1;
            if lsb != 0 {
                crc ^= 0x82F6_3B78;
            }
            b += 1;
        }
        i += 1;
    }
    !crc
}

pub(crate) fn ref_fold(crc: u32) -> u16 {
    let t = ((crc >> 16) as u16) ^ (crc as u16);
    if t == 0 { 1 } else { t }
}

/// documented token message: sector_le || extent with bytes 2..4 zeroed
pub(crate) fn ref_token_msg(sector: u64, data: &[u8], out: &mut [u8; 8 + 48]) -> usize {
    let s = sector.to_le_bytes();
    let mut i = 0;
    while i < 8 {
        out[i] = s[i];
        i += 1;
    }
    let mut i = 0;
    while i < data.len() {
        out[8 + i] = if i == 2 || i == 3 { 0 } else { data[i] };
        i += 1;
    }
    8 + data.len()
}

/// one byte from ANY running state: table-driven step == 8 bitwise steps (with streaming, this is
/// table == bitwise for every length by induction on the message)
#[kani::proof]
#[kani::unwind(10)]
fn c10_crc32c_byte_step() {
    let b: u8 = kani::any();
    let seed: u32 = kani::any();
    assert!(crc32c_sw(seed, &[b]) == ref_crc32c(seed, &[b]));
    assert!(crc32c_sw(seed, &[]) == seed);
    kani::cover!(true, "byte step");
}

/// the writer's fold of a CRC into the 16-bit token, for ALL 2^32 CRC values: hi16 ^ lo16, with 0 stored as 1 (the released rule, which
/// recovery's private copy `record_token` and every independent reader apply as well)
#[kani::proof]
fn c10_writer_token_fold() {
    let crc: u32 = kani::any();
    let t = nonzero_token(crc);
    assert!(t == ref_fold(crc) && t != 0);
    kani::cover!(((crc >> 16) as u16) == (crc as u16), "a CRC whose halves cancel");
}

#[kani::proof]
#[kani::unwind(10)]
fn c10_crc32c_sw_matches_bitwise_3() {
    let data: [u8; 3] = kani::any();
    let len: usize = kani::any();
    kani::assume(len <= 3);
    let seed: u32 = kani::any();
    assert!(crc32c_sw(seed, &data[..len]) == ref_crc32c(seed, &data[..len]));
    kani::cover!(len == 3, "3-byte input");
}

#[kani::proof]
#[kani::unwind(10)]
fn c10_crc32c_streaming() {
    let data: [u8; 6] = kani::any();
    let cut: usize = kani::any();
    let len: usize = kani::any();
    kani::assume(len <= 6 && cut <= len);
    let seed: u32 = kani::any();
    let whole = crc32c_sw(seed, &data[..len]);
    let parts = crc32c_sw(crc32c_sw(seed, &data[..cut]), &data[cut..len]);
    assert!(whole == parts);
    kani::cover!(cut > 0 && cut < len, "proper split");
}

#[kani::proof]
#[kani::unwind(12)]
fn c10_crc32c_known_answer() {
    // pins polynomial, reflection, init and final xor through the public entry point
    assert!(crc32c(0, b"123456789") == 0xE306_9283);
    assert!(crc32c(0, b"") == 0);
    kani::cover!(true, "kat");
}

/// record_seq_token feeds the CRC exactly sector_le || data[0..2] || 00 00 || data[4..], chained, and
/// folds the result to a non-zero u16. (CRC recorder; the kernel is pinned by the harnesses above.)
#[kani::proof]
#[kani::unwind(66)]
fn c10_record_token_coverage() {
    use_recorder();
    let data: [u8; 48] = kani::any();
    let len: usize = kani::any();
    kani::assume(len >= 4 && len <= 48);
    let sector: u64 = kani::any();
    let t = record_seq_token(sector, &data[..len]);
    let mut want = [0u8; 56];
    let n = ref_token_msg(sector, &data[..len], &mut want);
    assert!(rec_matches(0, &want, n));
    assert!(unsafe { REC.n } == 1);
    assert!(t != 0 && t == ref_fold(rec_value(n)));
    kani::cover!(len == 48, "48-byte extent image");
}

/// with the REAL kernel: the token never is 0 and ignores bytes 2..4 (stamping is idempotent)
#[kani::proof]
#[kani::unwind(14)]
fn c10_record_token_ignores_seq_field() {
    let mut data: [u8; 8] = kani::any();
    let sector: u64 = kani::any();
    let t = record_seq_token(sector, &data);
    assert!(t != 0);
    data[2] = kani::any();
    data[3] = kani::any();
    assert!(record_seq_token(sector, &data) == t);
    kani::cover!(true, "idempotent");
}

#[kani::proof]
#[kani::unwind(66)]
fn c10_seq_token_coverage() {
    // marker token: fold(CRC32C(sector_le || bytes))
    use_recorder();
    let data: [u8; 17] = kani::any();
    let sector: u64 = kani::any();
    let t = seq_token(sector, &data);
    let mut want = [0u8; 25];
    want[..8].copy_from_slice(&sector.to_le_bytes());
    want[8..].copy_from_slice(&data);
    assert!(rec_matches(0, &want, 25));
    assert!(t == ref_fold(rec_value(25)) && t != 0);
    kani::cover!(true, "marker token");
}

#[kani::proof]
#[kani::unwind(66)]
#[kani::stub(parking_lot::raw_rwlock::RawRwLock::lock_exclusive_slow, s_lock_ex)]
#[kani::stub(parking_lot::raw_rwlock::RawRwLock::unlock_exclusive_slow, s_unlock_ex)]
#[kani::stub(parking_lot::raw_rwlock::RawRwLock::lock_shared_slow, s_lock_sh)]
#[kani::stub(parking_lot::raw_rwlock::RawRwLock::unlock_shared_slow, s_unlock_sh)]
fn c10_stamp_seq_token() {
    use_recorder();
    let mut data: [u8; 40] = kani::any();
    let before = data;
    let sector: u64 = kani::any();
    let v1: bool = kani::any();
    let has_header = if v1 { header_range(&FormatV1, &data).is_some() } else { header_range(&FormatV2, &data).is_some() };
    if v1 { stamp_seq_token(&mut data, sector, &FormatV1) } else { stamp_seq_token(&mut data, sector, &FormatV2) };
    // only bytes 2..4 may change
    let i: usize = kani::any();
    kani::assume(i < 40 && i != 2 && i != 3);
    assert!(data[i] == before[i]);
    if has_header {
        let t = u16::from_le_bytes([data[2], data[3]]);
        let mut want = [0u8; 56];
        let n = ref_token_msg(sector, &before, &mut want);
        assert!(rec_matches(0, &want, n));
        assert!(t != 0 && t == ref_fold(rec_value(n)));
        kani::cover!(true, "stamped");
    } else {
        assert!(data[2] == before[2] && data[3] == before[3]);
        kani::cover!(true, "not stamped: no parsable header");
    }
}

/// header_range on arbitrary bytes: never panics; Some(4..end) only with 1 <= key_len and
/// end = header size <= min(4096, len).
#[kani::proof]
#[kani::unwind(4)]
#[kani::stub(parking_lot::raw_rwlock::RawRwLock::lock_exclusive_slow, s_lock_ex)]
#[kani::stub(parking_lot::raw_rwlock::RawRwLock::unlock_exclusive_slow, s_unlock_ex)]
#[kani::stub(parking_lot::raw_rwlock::RawRwLock::lock_shared_slow, s_lock_sh)]
#[kani::stub(parking_lot::raw_rwlock::RawRwLock::unlock_shared_slow, s_unlock_sh)]
fn c17_header_range_total() {
    let data: [u8; 64] = kani::any();
    let len: usize = kani::any();
    kani::assume(len <= 64);
    let v1: bool = kani::any();
    let r = if v1 { header_range(&FormatV1, &data[..len]) } else { header_range(&FormatV2, &data[..len]) };
    let fixed = if v1 { 16 } else { 24 };
    match r {
        Some(range) => {
            assert!(len >= 6);
            let kl = u16::from_le_bytes([data[4], data[5]]) as usize;
            assert!(kl >= 1);
            assert!(range.start == 4 && range.end == 6 + kl + fixed);
            assert!(range.end <= len && range.end <= FEOX_BLOCK_SIZE);
            kani::cover!(true, "header accepted");
        }
        None => {
            let kl = if len >= 6 { u16::from_le_bytes([data[4], data[5]]) as usize } else { 0 };
            assert!(len < 6 || kl == 0 || 6 + kl + fixed > len || 6 + kl + fixed > FEOX_BLOCK_SIZE);
            kani::cover!(len >= 6, "header rejected");
        }
    }
}

/// header_range with a full 4 KiB block: the key-length cap (record header must fit one block).
#[kani::proof]
#[kani::unwind(4)]
#[kani::stub(parking_lot::raw_rwlock::RawRwLock::lock_exclusive_slow, s_lock_ex)]
#[kani::stub(parking_lot::raw_rwlock::RawRwLock::unlock_exclusive_slow, s_unlock_ex)]
#[kani::stub(parking_lot::raw_rwlock::RawRwLock::lock_shared_slow, s_lock_sh)]
#[kani::stub(parking_lot::raw_rwlock::RawRwLock::unlock_shared_slow, s_unlock_sh)]
fn c17_header_range_block() {
    let mut data = [0u8; FEOX_BLOCK_SIZE];
    data[4] = kani::any();
    data[5] = kani::any();
    let kl = u16::from_le_bytes([data[4], data[5]]) as usize;
    let r1 = header_range(&FormatV1, &data);
    let r2 = header_range(&FormatV2, &data);
    assert!(r1.is_some() == (kl >= 1 && kl <= MAX_RECOVERABLE_KEY_SIZE_V1));
    assert!(r2.is_some() == (kl >= 1 && kl <= MAX_RECOVERABLE_KEY_SIZE));
    kani::cover!(r1.is_some() && r2.is_none(), "key fits v1 only");
}
