//! C10/C17/C03: CRC-32C kernel, record token, header_range – against an independent bitwise reference.
use super::*;
use crate::storage::format::{FormatV1, FormatV2};

/// stub target for `select_crc32c` (cpuid / SSE4.2 / ARM intrinsics are not encodable): the crate's own
/// portable implementation.
pub(crate) fn sw() -> Crc32c {
    crc32c_sw
}

/// Independent reference: bit-at-a-time reflected CRC-32C (Castagnoli, 0x1EDC6F41 reflected = 0x82F63B78).
pub(crate) fn ref_crc32c(seed: u32, data: &[u8]) -> u32 {
    let mut crc = !seed;
    let mut i = 0;
    while i < data.len() {
        crc ^= data[i] as u32;
        let mut b = 0;
        while b < 8 {
            let lsb = crc & 1;
            crc >>= 1;
            if lsb != 0 {
                crc ^= 0x82F6_3B78;
            }
            b += 1;
        }
        i += 1;
    }
    !crc
}

pub(crate) fn ref_fold(crc: u32) -> u16 {
    let t = ((crc >> 16) as u16) ^ (crc as u16);
    if t == 0 { 1 } else { t }
}

/// documented token: fold(CRC32C(sector_le || extent with bytes 2..4 zeroed))
pub(crate) fn ref_record_token(sector: u64, data: &[u8]) -> u16 {
    let mut crc = ref_crc32c(0, &sector.to_le_bytes());
    let mut i = 0;
    while i < data.len() {
        let byte = if i == 2 || i == 3 { 0 } else { data[i] };
        crc = ref_crc32c(crc, &[byte]);
        i += 1;
    }
    ref_fold(crc)
}

#[kani::proof]
#[kani::unwind(10)]
fn c10_crc32c_sw_matches_bitwise() {
    let data: [u8; 8] = kani::any();
    let len: usize = kani::any();
    kani::assume(len <= 8);
    let seed: u32 = kani::any();
    assert!(crc32c_sw(seed, &data[..len]) == ref_crc32c(seed, &data[..len]));
    kani::cover!(len == 8, "8-byte input");
}

#[kani::proof]
#[kani::unwind(10)]
fn c10_crc32c_streaming() {
    let data: [u8; 8] = kani::any();
    let cut: usize = kani::any();
    let len: usize = kani::any();
    kani::assume(len <= 8 && cut <= len);
    let seed: u32 = kani::any();
    let whole = crc32c_sw(seed, &data[..len]);
    let parts = crc32c_sw(crc32c_sw(seed, &data[..cut]), &data[cut..len]);
    assert!(whole == parts);
    kani::cover!(cut > 0 && cut < len, "proper split");
}

#[kani::proof]
#[kani::unwind(12)]
#[kani::stub(select_crc32c, sw)]
fn c10_crc32c_known_answer() {
    // pins polynomial, reflection, init and final xor through the public entry point
    assert!(crc32c(0, b"123456789") == 0xE306_9283);
    assert!(crc32c(0, b"") == 0);
    kani::cover!(true, "kat");
}

#[kani::proof]
#[kani::unwind(26)]
#[kani::stub(select_crc32c, sw)]
fn c10_record_token_matches_reference() {
    let mut data: [u8; 24] = kani::any();
    let len: usize = kani::any();
    kani::assume(len >= 4 && len <= 24);
    let sector: u64 = kani::any();
    let t = record_seq_token(sector, &data[..len]);
    assert!(t != 0);
    assert!(t == ref_record_token(sector, &data[..len]));
    // the token ignores bytes 2..4, so stamping it into them is idempotent
    data[2] = kani::any();
    data[3] = kani::any();
    assert!(record_seq_token(sector, &data[..len]) == t);
    kani::cover!(len == 24, "24-byte extent image");
}

#[kani::proof]
#[kani::unwind(26)]
#[kani::stub(select_crc32c, sw)]
fn c10_seq_token_matches_reference() {
    // marker token: fold(CRC32C(sector_le || bytes))
    let data: [u8; 17] = kani::any();
    let sector: u64 = kani::any();
    let t = seq_token(sector, &data);
    let mut crc = ref_crc32c(0, &sector.to_le_bytes());
    crc = ref_crc32c(crc, &data);
    assert!(t == ref_fold(crc) && t != 0);
    kani::cover!(true, "marker token");
}

#[kani::proof]
#[kani::unwind(26)]
#[kani::stub(select_crc32c, sw)]
fn c10_stamp_seq_token() {
    let mut data: [u8; 40] = kani::any();
    let before = data;
    let sector: u64 = kani::any();
    let v1: bool = kani::any();
    let has_header = if v1 { header_range(&FormatV1, &data).is_some() } else { header_range(&FormatV2, &data).is_some() };
    if v1 { stamp_seq_token(&mut data, sector, &FormatV1) } else { stamp_seq_token(&mut data, sector, &FormatV2) };
    // only bytes 2..4 may change
    let i: usize = kani::any();
    kani::assume(i < 40 && i != 2 && i != 3);
    assert!(data[i] == before[i]);
    if has_header {
        let t = u16::from_le_bytes([data[2], data[3]]);
        assert!(t != 0 && t == ref_record_token(sector, &before));
        kani::cover!(true, "stamped");
    } else {
        assert!(data[2] == before[2] && data[3] == before[3]);
        kani::cover!(true, "not stamped: no parsable header");
    }
}

/// header_range on arbitrary bytes: never panics; Some(4..end) only with 1 <= key_len and
/// end = header size <= min(4096, len).
#[kani::proof]
#[kani::unwind(4)]
fn c17_header_range_total() {
    let data: [u8; 64] = kani::any();
    let len: usize = kani::any();
    kani::assume(len <= 64);
    let v1: bool = kani::any();
    let r = if v1 { header_range(&FormatV1, &data[..len]) } else { header_range(&FormatV2, &data[..len]) };
    let fixed = if v1 { 16 } else { 24 };
    match r {
        Some(range) => {
            assert!(len >= 6);
            let kl = u16::from_le_bytes([data[4], data[5]]) as usize;
            assert!(kl >= 1);
            assert!(range.start == 4 && range.end == 6 + kl + fixed);
            assert!(range.end <= len && range.end <= FEOX_BLOCK_SIZE);
            kani::cover!(true, "header accepted");
        }
        None => {
            let kl = if len >= 6 { u16::from_le_bytes([data[4], data[5]]) as usize } else { 0 };
            assert!(len < 6 || kl == 0 || 6 + kl + fixed > len || 6 + kl + fixed > FEOX_BLOCK_SIZE);
            kani::cover!(len >= 6, "header rejected");
        }
    }
}

/// header_range with a full 4 KiB block: the key-length cap (record header must fit one block).
#[kani::proof]
#[kani::unwind(4)]
fn c17_header_range_block() {
    let mut data = [0u8; FEOX_BLOCK_SIZE];
    data[4] = kani::any();
    data[5] = kani::any();
    let kl = u16::from_le_bytes([data[4], data[5]]) as usize;
    let r1 = header_range(&FormatV1, &data);
    let r2 = header_range(&FormatV2, &data);
    assert!(r1.is_some() == (kl >= 1 && kl <= MAX_RECOVERABLE_KEY_SIZE_V1));
    assert!(r2.is_some() == (kl >= 1 && kl <= MAX_RECOVERABLE_KEY_SIZE));
    kani::cover!(r1.is_some() && r2.is_none(), "key fits v1 only");
}
