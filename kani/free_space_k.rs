//! C06 (and the allocator half of C05): one inductive step of the real FreeSpaceManager from an
//! arbitrary valid state, against a pointwise block-set oracle: for an ARBITRARY (symbolic) block b
//! the harness relates "b is free after the call" to "b was free before" and the call's arguments.
//! Compiled against the bounded model of BTreeMap in verif_btree.rs (see DESIGN §0.1).
use super::verif_btree::CAP;
use super::*;

const MAXRUNS: usize = 3;
const BS: u64 = FEOX_BLOCK_SIZE as u64;
/// MAX_DEVICE_SIZE / block size: the largest device the store accepts
const MAX_BLOCKS: u64 = MAX_DEVICE_SIZE / BS;

pub(crate) fn noop_frag(_m: &mut FreeSpaceManager) {}

pub(crate) struct Pre {
    pub m: FreeSpaceManager,
    pub dev: u64,
    pub n: usize,
    pub runs: [(u64, u64); MAXRUNS],
    pub blocks: u64,
}

/// Arbitrary state satisfying the representation invariant with at most `maxn` free runs.
pub(crate) fn mk(maxn: usize) -> Pre {
    let mut m = FreeSpaceManager::new();
    let dev: u64 = kani::any();
    kani::assume(dev > FEOX_DATA_START_BLOCK && dev <= MAX_BLOCKS);
    m.device_size = dev * BS;
    let n: usize = kani::any();
    kani::assume(n <= maxn);
    let mut runs = [(0u64, 0u64); MAXRUNS];
    let mut blocks = 0u64;
    let mut prev_end = FEOX_DATA_START_BLOCK - 1; // first run may start at 16
    let mut i = 0;
    while i < maxn {
        if i < n {
            let s: u64 = kani::any();
            let z: u64 = kani::any();
            // in the data area, sorted (WLOG for a map), separated by >= 1 allocated block, in bounds
            kani::assume(s > prev_end && z >= 1 && s <= dev && z <= dev && s + z <= dev);
            runs[i] = (s, z);
            m.by_start.insert(s, FreeSpace { start: s, size: z });
            m.by_size.insert((z, s), FreeSpace { start: s, size: z });
            m.total_free += z * BS;
            blocks += z;
            prev_end = s + z;
        }
        i += 1;
    }
    Pre { m, dev, n, runs, blocks }
}

fn pre_free(p_runs: &[(u64, u64); MAXRUNS], n: usize, b: u64) -> bool {
    let mut hit = false;
    let mut i = 0;
    while i < MAXRUNS {
        if i < n && b >= p_runs[i].0 && b - p_runs[i].0 < p_runs[i].1 {
            hit = true;
        }
        i += 1;
    }
    hit
}

pub(crate) struct Post {
    pub free_b: bool,
    pub blocks: u64,
    pub count: usize,
}

/// Representation invariant + reported statistics of the post-state; says whether block `b` is free.
pub(crate) fn post(m: &FreeSpaceManager, dev: u64, b: u64) -> Post {
    let mut free_b = false;
    let mut blocks = 0u64;
    let mut count = 0usize;
    let mut largest = 0u64;
    let mut i = 0;
    while i < CAP {
        if let Some((k, sp)) = m.by_start.verif_slot(i) {
            assert!(*k == sp.start);
            assert!(sp.size >= 1 && sp.start >= FEOX_DATA_START_BLOCK);
            assert!(sp.start <= dev && sp.size <= dev && sp.start + sp.size <= dev);
            // the size-ordered twin
            let twin = m.by_size.range((sp.size, sp.start)..=(sp.size, sp.start)).next();
            assert!(twin.is_some());
            let (_, tv) = twin.unwrap();
            assert!(tv.start == sp.start && tv.size == sp.size);
            // disjoint from and never exactly adjacent to any other run (all neighbours merged)
            let mut j = 0;
            while j < CAP {
                if j != i {
                    if let Some((_, o)) = m.by_start.verif_slot(j) {
                        assert!(sp.start + sp.size < o.start || o.start + o.size < sp.start);
                    }
                }
                j += 1;
            }
            if b >= sp.start && b - sp.start < sp.size {
                free_b = true;
            }
            if sp.size > largest {
                largest = sp.size;
            }
            blocks += sp.size;
            count += 1;
        }
        i += 1;
    }
    assert!(m.by_size.len() == count);
    assert!(m.get_free_chunks_count() == count);
    assert!(m.get_total_free() == blocks * BS);
    assert!(m.get_largest_free_chunk() == largest * BS);
    Post { free_b, blocks, count }
}

fn alloc_step(maxn: usize) {
    let Pre { mut m, dev, n, runs, blocks } = mk(maxn);
    let need: u64 = kani::any();
    let b: u64 = kani::any(); // the arbitrary block the set equalities are stated for
    let was_free = pre_free(&runs, n, b);
    let r = m.allocate_sectors(need);
    let after = post(&m, dev, b);
    let mut fits = false;
    let mut i = 0;
    while i < maxn {
        if i < n && runs[i].1 >= need {
            fits = true;
        }
        i += 1;
    }
    match r {
        Ok(start) => {
            assert!(need >= 1 && fits);
            assert!(start >= FEOX_DATA_START_BLOCK && start <= dev && need <= dev && start + need <= dev);
            let taken = b >= start && b - start < need;
            if taken {
                assert!(was_free); // only blocks that were free: no double allocation
            }
            assert!(after.free_b == (was_free && !taken)); // exactly those blocks left the free set
            assert!(after.blocks == blocks - need);
            kani::cover!(n == maxn && need >= 2 && taken, "alloc of >=2 blocks from a state with the maximal number of runs");
        }
        Err(_) => {
            assert!(need == 0 || !fits); // fails only when no single run is long enough
            assert!(after.free_b == was_free && after.blocks == blocks && after.count == n);
            kani::cover!(need != 0, "alloc refused for space");
        }
    }
    std::mem::forget(m);
}

fn release_step(maxn: usize) {
    let Pre { mut m, dev, n, runs, blocks } = mk(maxn);
    let start: u64 = kani::any();
    let count: u64 = kani::any();
    let b: u64 = kani::any();
    let was_free = pre_free(&runs, n, b);
    let in_range = start >= FEOX_DATA_START_BLOCK
        && count >= 1
        && start.checked_add(count).map_or(false, |e| e <= dev);
    // overlap oracle, independent of the code's neighbour probing: some run intersects [start,start+count)
    let mut overlaps = false;
    let mut i = 0;
    while i < maxn {
        if i < n && in_range && runs[i].0 < start + count && start < runs[i].0 + runs[i].1 {
            overlaps = true;
        }
        i += 1;
    }
    let valid = in_range && !overlaps;
    let r = m.release_sectors(start, count);
    let after = post(&m, dev, b);
    if r.is_ok() {
        assert!(valid);
        let given = b >= start && b - start < count;
        assert!(after.free_b == (was_free || given));
        assert!(after.blocks == blocks + count);
        kani::cover!(maxn < 2 || (count >= 2 && after.count < n), "release that merges both neighbours");
        kani::cover!(count >= 2 && after.count > n, "release that creates a new run");
    } else {
        assert!(!valid);
        assert!(after.free_b == was_free && after.blocks == blocks && after.count == n); // nothing changed
        kani::cover!(in_range, "in-range release rejected for overlap");
        kani::cover!(!in_range && start >= FEOX_DATA_START_BLOCK && count >= 1, "release rejected for bounds");
    }
    std::mem::forget((m, r));
}

#[kani::proof]
#[kani::unwind(5)]
#[kani::stub(FreeSpaceManager::update_fragmentation, noop_frag)]
fn c06_alloc_step_n1() { alloc_step(1) }

#[kani::proof]
#[kani::unwind(5)]
#[kani::stub(FreeSpaceManager::update_fragmentation, noop_frag)]
fn c06_alloc_step_n2() { alloc_step(2) }

#[kani::proof]
#[kani::unwind(5)]
#[kani::stub(FreeSpaceManager::update_fragmentation, noop_frag)]
fn c06_alloc_step_n3() { alloc_step(3) }

#[kani::proof]
#[kani::unwind(5)]
#[kani::stub(FreeSpaceManager::update_fragmentation, noop_frag)]
fn c06_release_step_n1() { release_step(1) }

#[kani::proof]
#[kani::unwind(5)]
#[kani::stub(FreeSpaceManager::update_fragmentation, noop_frag)]
fn c06_release_step_n2() { release_step(2) }

#[kani::proof]
#[kani::unwind(5)]
#[kani::stub(FreeSpaceManager::update_fragmentation, noop_frag)]
fn c06_release_step_n3() { release_step(3) }

/// alloc then release of exactly the returned range restores the state (no accounting drift);
/// releasing the same range twice is rejected.
#[kani::proof]
#[kani::unwind(5)]
#[kani::stub(FreeSpaceManager::update_fragmentation, noop_frag)]
fn c06_alloc_then_release_n2() {
    let Pre { mut m, dev, n, runs, blocks } = mk(2);
    let need: u64 = kani::any();
    let b: u64 = kani::any();
    let was_free = pre_free(&runs, n, b);
    if let Ok(start) = m.allocate_sectors(need) {
        let r = m.release_sectors(start, need);
        assert!(r.is_ok());
        let p = post(&m, dev, b);
        assert!(p.free_b == was_free && p.blocks == blocks && p.count == n);
        let r2 = m.release_sectors(start, need);
        assert!(r2.is_err());
        let p2 = post(&m, dev, b);
        assert!(p2.free_b == was_free && p2.blocks == blocks && p2.count == n);
        kani::cover!(true, "alloc->release->double release path");
        std::mem::forget((r, r2));
    }
    std::mem::forget(m);
}

/// after an accepted release an allocation of that length succeeds (freed space is reusable).
#[kani::proof]
#[kani::unwind(5)]
#[kani::stub(FreeSpaceManager::update_fragmentation, noop_frag)]
fn c06_release_then_alloc_n2() {
    let Pre { mut m, dev, n: _, runs: _, blocks } = mk(2);
    let start: u64 = kani::any();
    let count: u64 = kani::any();
    let b: u64 = kani::any();
    if m.release_sectors(start, count).is_ok() {
        let mid = post(&m, dev, b);
        let r = m.allocate_sectors(count);
        assert!(r.is_ok());
        let s = r.unwrap();
        let after = post(&m, dev, b);
        let taken = b >= s && b - s < count;
        assert!(after.free_b == (mid.free_b && !taken));
        assert!(after.blocks == blocks);
        kani::cover!(true, "release->alloc path");
    }
    std::mem::forget(m);
}

/// initialize(): every device size; Ok iff there is a data area, then one run [16, total).
#[kani::proof]
#[kani::unwind(5)]
#[kani::stub(FreeSpaceManager::update_fragmentation, noop_frag)]
fn c06_initialize() {
    let mut m = FreeSpaceManager::new();
    let size: u64 = kani::any();
    let total = size / BS;
    let r = m.initialize(size);
    if r.is_ok() {
        assert!(total > FEOX_DATA_START_BLOCK);
        assert!(m.get_free_chunks_count() == 1);
        let (k, sp) = m.by_start.iter().next().unwrap();
        assert!(*k == FEOX_DATA_START_BLOCK && sp.start == FEOX_DATA_START_BLOCK);
        assert!(sp.size == total - FEOX_DATA_START_BLOCK);
        assert!(m.get_total_free() == (total - FEOX_DATA_START_BLOCK) * BS);
        assert!(m.get_largest_free_chunk() == m.get_total_free());
        kani::cover!(true, "initialize ok");
    } else {
        assert!(total <= FEOX_DATA_START_BLOCK);
        assert!(m.get_free_chunks_count() == 0 && m.get_total_free() == 0);
        kani::cover!(true, "initialize rejected");
    }
    std::mem::forget((m, r));
}

/// update_fragmentation alone (the 64-bit division kernel), devices <= 4096 blocks: percentage of
/// free space outside the largest run, 0 when there is at most one run.
#[kani::proof]
#[kani::unwind(5)]
fn c06_fragmentation() {
    let Pre { mut m, dev, n, runs, blocks } = mk(2);
    kani::assume(dev <= 4096);
    m.update_fragmentation();
    let f = m.get_fragmentation();
    if n <= 1 {
        assert!(f == 0);
    } else {
        let largest = if runs[0].1 > runs[1].1 { runs[0].1 } else { runs[1].1 };
        assert!(f as u64 == ((blocks - largest) * BS * 100) / (blocks * BS));
        assert!(f < 100);
        kani::cover!(f > 0, "fragmented state");
    }
    std::mem::forget(m);
}

/// concrete-shape manager used by write_buffer harnesses: nothing free on a `blocks`-block device
pub(crate) fn mk_full(blocks: u64) -> FreeSpaceManager {
    let mut m = FreeSpaceManager::new();
    m.device_size = blocks * BS;
    m
}
pub(crate) fn is_free(m: &FreeSpaceManager, sector: u64) -> bool {
    let mut hit = false;
    let mut i = 0;
    while i < CAP {
        if let Some((_, sp)) = m.by_start.verif_slot(i) {
            if sector >= sp.start && sector - sp.start < sp.size {
                hit = true;
            }
        }
        i += 1;
    }
    hit
}
