#!/bin/bash
# Offline setup: nothing to build ahead of time – every check compiles its harnesses from a scratch
# copy of /repo's working tree. This only verifies the tools are present.
set -e
cd "$(dirname "$0")"
export CARGO_NET_OFFLINE=true
cargo kani --version
z3 --version
cvc5 --version | head -1
python3 --version
mkdir -p evidence replays logs
